#!/bin/bash
# Re-evaluates every stored seeded change against its own property's check (+C05) on the current tree, N streams.
n=${1:-4}
ls -d /verif/seeded/*/ | sed 's#/$##' > /tmp/reeval_jobs.txt
split -n l/$n /tmp/reeval_jobs.txt /tmp/reeval_part_
for f in /tmp/reeval_part_*; do
  ( while read d; do id=$(basename $d); p=${id%%-*}; props="$p,C05"; [ "$p" = C05 ] && props=C05
      /verif/tools/seed_eval.py $d $p --props $props 2>&1 | cut -c1-240; done < $f ) > $f.log 2>&1 &
done
wait
cat /tmp/reeval_part_*.log > /tmp/reeval_all.log
