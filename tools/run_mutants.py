#!/venv/bin/python
"""Runs every mutant of a selftest/mutants_*.jsonl file through tools/mut.py and reports/updates status.
usage: tools/run_mutants.py selftest/mutants_C02.jsonl [--update] [--only NAME] [--jobs 4]"""
import json, subprocess, sys, argparse, concurrent.futures as cf
ap = argparse.ArgumentParser(); ap.add_argument("file"); ap.add_argument("--update", action="store_true")
ap.add_argument("--only"); ap.add_argument("--jobs", type=int, default=3); ap.add_argument("--tier", default="quick")
a = ap.parse_args()
rows = [json.loads(l) for l in open(a.file) if l.strip()]
def run(r):
    if a.only and r["name"] != a.only: return r, None, ""
    cmd = ["/verif/tools/mut.py", r["name"], r.get("file", ""), r.get("old", ""), r.get("new", ""), ",".join(r["props"]), "--tier", a.tier]
    if r.get("patch"): cmd += ["--patch", r["patch"]]
    p = subprocess.run(cmd, capture_output=True, text=True)
    st = {0: "detected", 1: "missed", 3: "caught_by_tests", 4: "stale_pattern"}.get(p.returncode, f"error{p.returncode}")
    return r, st, p.stdout[-600:] + p.stderr[-300:]
with cf.ThreadPoolExecutor(a.jobs) as ex:
    res = list(ex.map(run, rows))
bad = 0
for r, st, out in res:
    if st is None: continue
    exp = r.get("status")
    flag = "" if exp in (None, st) or (exp == "equivalent" and st == "missed") else f"   <-- recorded {exp}"
    if flag: bad += 1
    print(f"{r['name']:40s} {st}{flag}")
    if st.startswith("error") or flag: print("    ", out.replace("\n", "\n     ")[-500:])
    if a.update and not (exp == "equivalent" and st == "missed"): r["status"] = st
if a.update:
    with open(a.file, "w") as f:
        for r in rows: f.write(json.dumps(r) + "\n")
sys.exit(1 if bad else 0)
