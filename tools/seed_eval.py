#!/venv/bin/python
"""Confirm and evaluate adversary-produced changes.
usage: tools/seed_eval.py /tmp/wt_C03 C03 [--props C03,C06] [--tier quick]
For each out/<i>: on a scratch copy of /repo HEAD: doctests with patch (208 passed), demo fails with patch / passes without;
then runs the listed checks (default: the target property) with PYTTB_SRC=<patched copy>.  Confirmed changes are stored as
/verif/seeded/<PID>-<i>/{patch.diff,demo.py,notes.md,meta.json}."""
import argparse, json, os, shutil, subprocess, sys, tempfile, time
ap = argparse.ArgumentParser(); ap.add_argument("wt"); ap.add_argument("pid"); ap.add_argument("--props"); ap.add_argument("--tier", default="quick")
ap.add_argument("--only"); ap.add_argument("--tag", default="")
a = ap.parse_args()
props = (a.props or a.pid).split(",")
ENV = dict(os.environ, MPLBACKEND="Agg", PYTHONDONTWRITEBYTECODE="1", OMP_NUM_THREADS="1")
def copy_repo(dst):
    shutil.copytree("/repo", dst, ignore=shutil.ignore_patterns(".git", "__pycache__", "*.egg-info", "docs", "profiling"))
def run(cmd, cwd, env, timeout=1800):
    return subprocess.run(cmd, cwd=cwd, env=env, capture_output=True, text=True, timeout=timeout)
RESEED = os.path.exists(os.path.join(a.wt, "patch.diff"))   # re-evaluate a stored /verif/seeded/<PID>-<i> directory
if RESEED:
    outs = [os.path.basename(a.wt.rstrip("/")).split("-", 1)[1]]
    if "-" in outs[0]:
        a.tag, outs[0] = outs[0].rsplit("-", 1)
else:
    outs = sorted(d for d in os.listdir(os.path.join(a.wt, "out")) if os.path.isdir(os.path.join(a.wt, "out", d)))
for i in outs:
    if a.only and i != a.only: continue
    src = a.wt if RESEED else os.path.join(a.wt, "out", i)
    work = tempfile.mkdtemp(prefix="pyttb_seed_", dir="/tmp")
    clean, mut = os.path.join(work, "clean"), os.path.join(work, "mut")
    sid = f"{a.pid}-{a.tag + '-' if a.tag else ''}{i}"
    meta = {"id": sid, "property": a.pid, "source": "independent sub-agent given only the property text and a scratch worktree"}
    try:
        copy_repo(clean); copy_repo(mut)
        r = run(["patch", "-p1", "-s", "-i", os.path.join(src, "patch.diff")], mut, ENV)
        meta["patch_applies"] = r.returncode == 0
        if r.returncode != 0:
            print(f"[{a.pid}-{i}] patch does not apply: {r.stdout[-300:]}{r.stderr[-300:]}"); continue
        e = dict(ENV, PYTHONPATH=mut)
        r = run(["/venv/bin/python", "-m", "pytest", "-q", "-p", "no:cacheprovider"], mut, e)
        tail = (r.stdout.strip().splitlines() or ["?"])[-1]
        meta["doctests_with_change"] = tail
        r1 = run(["/venv/bin/python", os.path.join(src, "demo.py")], work, dict(ENV, PYTHONPATH=mut))
        r0 = run(["/venv/bin/python", os.path.join(src, "demo.py")], work, dict(ENV, PYTHONPATH=clean))
        meta["demo_exit_with_change"] = r1.returncode; meta["demo_exit_without_change"] = r0.returncode
        confirmed = ("208 passed" in tail) and r1.returncode != 0 and r0.returncode == 0
        meta["confirmed"] = confirmed
        print(f"[{sid}] doctests: {tail} | demo with={r1.returncode} without={r0.returncode} | confirmed={confirmed}")
        res = {}
        for p in props:
            t0 = time.time()
            r = run(["/verif/check", p, "--tier", a.tier], "/verif", dict(os.environ, PYTTB_SRC=mut, VERIF_NO_EVIDENCE="1"), timeout=7200)
            viol = [l for l in r.stdout.splitlines() if l.startswith("VIOLATION")]
            cls = [l.strip()[:260] for l in r.stderr.splitlines() if l.strip().startswith("class")]
            res[p] = {"exit": r.returncode, "violations": len(viol), "classes": cls[:6], "wall_s": round(time.time() - t0, 1)}
            print(f"    {p}: exit={r.returncode} violations={len(viol)}" + (f" :: {cls[0][:200]}" if cls else ""))
        meta["checks"] = res
        meta["detected_by"] = [p for p, v in res.items() if v["exit"] == 1 and v["violations"] > 0]
        meta["tier"] = a.tier
        try:
            meta["needs"] = open(os.path.join(src, "notes.md")).read()[:1500]
        except OSError:
            pass
        if confirmed:
            dst = os.path.join("/verif/seeded", sid)
            os.makedirs(dst, exist_ok=True)
            try:
                old = json.load(open(os.path.join(dst, "meta.json")))
                if old.get("history"): meta["history"] = old["history"]
            except (OSError, ValueError):
                pass
            for f in ("patch.diff", "demo.py", "notes.md"):
                if not RESEED and os.path.exists(os.path.join(src, f)): shutil.copy(os.path.join(src, f), dst)
            meta["ran"] = ["doctests on patched copy", "demo.py on patched and clean copy"] + [f"./check {p} --tier {a.tier} with PYTTB_SRC=<patched copy>" for p in props]
            json.dump(meta, open(os.path.join(dst, "meta.json"), "w"), indent=1)
    finally:
        shutil.rmtree(work, ignore_errors=True)
