#!/venv/bin/python
"""Regenerates MANIFEST.json from the table below and validates it."""
import json, os, sys
HERE = os.path.dirname(os.path.dirname(os.path.abspath(__file__)))
sys.path.insert(0, HERE)
from tools.manifest_table import CHECKS, PENDING, NOT_APPLICABLE

WIDENED = (" The enumerated scope was widened after eight rounds of independently seeded property-breaking changes (integer / "
           "boolean storage dtypes, numpy-scalar and list/tuple argument forms, order >= 4 and empty operands, C-ordered and grown "
           "buffers, repeated calls on the same object, depth-2 histories 'write into a result / edit the data object, then "
           "call again', value patterns such as cancelling duplicates, exact zeros and mixed signs); the exact bounds of the committed version are the module's BOUNDS "
           "string, echoed in the evidence file together with the measured state / transition counts.")
checks = []
for pid, (text, note, tech, ref) in sorted(CHECKS.items()):
    checks.append({
        "property_id": pid,
        "quick_cmd": f"./check {pid} --tier quick",
        "thorough_cmd": f"./check {pid} --tier thorough",
        "evidence_file": f"/verif/evidence/{pid}.json",
        "replay_cmd_template": f"./check {pid} --replay {{path}}",
        "engine": "mc",
        "level_claimed": {"category": "model_checking", "text": text + WIDENED, "design_ref": ref},
        "level_note": note,
        "technique": tech,
    })
na = [{"property_id": p, "reason": r} for p, r in sorted({**PENDING, **NOT_APPLICABLE}.items())]
m = {
    "version": 1,
    "setup_cmd": "cd /verif && /venv/bin/python -m compileall -q mc tools && /venv/bin/python -m mc.selftest",
    "hooks": {
        "guard": "PYTTB_VERIF",
        "enable": "no source hooks: checks import /repo/pyttb from the working tree (editable install, no build); "
                  "randomness and clocks are owned by patching numpy.random/time attributes from the harness",
        "baseline_off_cmd": "cd /repo && /venv/bin/python -m pytest -ra -q -p no:cacheprovider --timeout=900",
        "source_commits": [],
        "add_only": True,
    },
    "engines": [{
        "name": "mc", "path": "/verif/mc",
        "serves_properties": sorted(CHECKS),
        "kind_free_text": "hand-written explicit-state explorer for Python: product / BFS-history / "
                          "deviation-bounded environment enumeration of the real pyttb code with a reference-model "
                          "refinement check at every transition",
    }],
    "checks": checks,
    "notes": "See DESIGN.md. known_findings.jsonl lists fixed and known defects; fix: commits live in /repo.",
    "not_applicable": na,
}
import jsonschema
jsonschema.validate(m, json.load(open("/root/.vp/MANIFEST.schema.json")))
json.dump(m, open(os.path.join(HERE, "MANIFEST.json"), "w"), indent=1)
print("MANIFEST.json written:", len(checks), "checks,", len(na), "not claimed")
