#!/bin/bash
# usage: tools/eval_round.sh <prefix e.g. wt3> <tag e.g. r3> <stream-count>
# Evaluates every /tmp/<prefix>_Cxx/out/* with its own check + C05 + a few related checks, in N parallel streams.
pre=$1; tag=$2; n=${3:-3}
declare -A extra=( [C02]=",C17" [C03]=",C06,C04" [C04]=",C06" [C06]=",C03,C04" [C12]=",C02" [C17]=",C02" [C18]=",C09" [C20]=",C06" [C09]=",C18" [C11]=",C18" )
i=0
for d in /tmp/${pre}_C*; do
  [ -d "$d/out" ] || continue
  p=$(basename $d); p=${p#${pre}_}
  props="$p,C05${extra[$p]}"; [ "$p" = C05 ] && props="C05"
  echo "$d $p $props"
done > /tmp/eval_${tag}_jobs.txt
split -n l/$n /tmp/eval_${tag}_jobs.txt /tmp/eval_${tag}_part_
for f in /tmp/eval_${tag}_part_*; do
  ( while read d p props; do /verif/tools/seed_eval.py $d $p --props $props --tag $tag 2>&1 | cut -c1-260; done < $f ) > $f.log 2>&1 &
done
wait
cat /tmp/eval_${tag}_part_*.log
