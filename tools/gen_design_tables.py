#!/venv/bin/python
"""Regenerates the generated tables of DESIGN.md (between <!-- BEGIN:x --> / <!-- END:x --> markers) from
known_findings.jsonl, selftest/mutants_*.jsonl, seeded/*/meta.json and evidence/*.json."""
import glob, json, os, re
V = os.path.dirname(os.path.dirname(os.path.abspath(__file__)))

def findings():
    rows = [json.loads(l) for l in open(f"{V}/known_findings.jsonl") if l.strip() and not l.startswith("#")]
    out = ["| property | status | id | commit | what |", "|---|---|---|---|---|"]
    seen = set()
    for r in sorted(rows, key=lambda r: (r["property"], r["status"], r["id"])):
        base = r["id"].split("/")[0]
        if (r["property"], base) in seen:
            continue
        seen.add((r["property"], base))
        out.append(f"| {r['property']} | {r['status']} | {base} | {r.get('commit','') or ''} | {r.get('what','').replace('|','/')[:230]} |")
    nf = sum(1 for r in rows if r["status"] == "fixed"); nk = sum(1 for r in rows if r["status"] == "known")
    out.append("")
    out.append(f"{len(seen)} distinct findings ({nk} known-entry lines, {nf} fixed-entry lines incl. cascade variants).")
    return "\n".join(out)

def mutants():
    out = ["| property | mutant | status | note |", "|---|---|---|---|"]
    tot = {}
    for f in sorted(glob.glob(f"{V}/selftest/mutants_*.jsonl")):
        for l in open(f):
            if not l.strip(): continue
            r = json.loads(l)
            st = r.get("status", "?")
            tot[st] = tot.get(st, 0) + 1
            out.append(f"| {','.join(r.get('props', []))} | {r['name']} | {st} | {str(r.get('note',''))[:150].replace('|','/')} |")
    out.append("")
    out.append("Totals: " + ", ".join(f"{k}: {v}" for k, v in sorted(tot.items())))
    return "\n".join(out)

def seeded():
    out = ["| seeded change | property | what it needs to manifest (author's notes, abridged) | detected by (quick tier) | missed by |", "|---|---|---|---|---|"]
    for f in sorted(glob.glob(f"{V}/seeded/*/meta.json")):
        m = json.load(open(f))
        needs = " ".join((m.get("needs") or "").split())[:260].replace("|", "/")
        det = ",".join(m.get("detected_by", []))
        missed = ",".join(p for p, v in m.get("checks", {}).items() if p not in m.get("detected_by", []))
        hist = m.get("history", "")
        out.append(f"| {m['id']} | {m['property']} | {needs} | {det or '-'} {('('+hist+')') if hist else ''} | {missed or '-'} |")
    return "\n".join(out)

def evidence():
    out = ["| property | tier | states | transitions | executions | distinct non-trivial | distinct outcomes | exhaustive | known findings matched | wall s |", "|---|---|---|---|---|---|---|---|---|---|"]
    for f in sorted(glob.glob(f"{V}/evidence/C*.json")):
        e = json.load(open(f)); c = e["coverage"]
        out.append(f"| {e['property_id']} | {e['tier']} | {c.get('states')} | {c.get('transitions')} | {c.get('traces_validated_against_impl')} | {c.get('distinct_nontrivial')} | {c.get('distinct_outcomes')} | {c.get('exhaustive')} | {len(c.get('known_findings_matched') or {})} | {e['wall_s']} |")
    return "\n".join(out)

GEN = {"findings": findings, "mutants": mutants, "seeded": seeded, "evidence": evidence}
p = f"{V}/DESIGN.md"
s = open(p).read()
for k, fn in GEN.items():
    pat = re.compile(rf"(<!-- BEGIN:{k} -->\n).*?(<!-- END:{k} -->)", re.S)
    if pat.search(s):
        s = pat.sub(lambda m: m.group(1) + fn() + "\n" + m.group(2), s)
open(p, "w").write(s)
print("DESIGN.md tables regenerated")
