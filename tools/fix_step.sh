#!/bin/bash
# usage: fix_step.sh "<commit message>"  -- runs doctests + functional tests on /repo, commits if green
cd /repo || exit 2
d=$(PYTHONPATH=/repo /venv/bin/python -m pytest -q -p no:cacheprovider --timeout=900 2>&1 | tail -1)
f=$(PYTHONPATH=/repo /venv/bin/python -m pytest -q -p no:cacheprovider tests --deselect tests/test_package.py 2>&1 | tail -1)
echo "doctests: $d"; echo "functional: $f"
if echo "$d" | grep -q "208 passed" && echo "$f" | grep -q "593 passed"; then
  git commit -qam "$1" && git log --oneline | head -1
else
  echo "NOT COMMITTED"; exit 1
fi
