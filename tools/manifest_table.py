"""Per-property manifest text.  CHECKS: id -> (level text, level note, technique, design ref)."""
TECH_BFS = "explicit-state BFS over operation histories of the real objects (state = history, dedup on concrete state) with a reference-model refinement check at every transition"
TECH_PRODUCT = "bounded-exhaustive explicit-state enumeration (product explorer) of the real code against a reference model"
CHECKS = {
    "C17": ("Every helper is run on the complete finite argument space stated in the evidence bounds "
            "(all shapes <= 48 cells x index sets, all ordered mode selections for N<=5, all pairs of row lists "
            "over a 4-/6-row universe, all small matrix tuples) and compared with loop-level reference semantics; "
            "the helpers are value-oblivious index/set maps, so the small scope contains every branch.",
            "Trusted: reference semantics in mc/props/C17.py; integer rows only; larger shapes/rows not explored.",
            TECH_PRODUCT, "DESIGN.md §6 C17"),
    "C01": ("Every conversion between representations is executed for every holder of every array in the stated "
            "small scope (all zero patterns for <= 6 cells, all stored orders for <= 3/4 nonzeros, every ordered "
            "partition of the modes into row and column modes incl. empty sides and the fc/bc/t conventions, Kruskal "
            "ranks 1-3 x weight sign patterns, Tucker cores dense and sparse, sums of mixed parts) and the result is "
            "compared entry for entry with the explicit index formula; conversions are value-oblivious index maps, so "
            "shape x zero pattern x stored order determines the execution path.",
            "Trusted: mc/refmodel.py (matricization formula, Kruskal/Tucker value by einsum); arrays <= 24 cells, order <= 5.",
            TECH_PRODUCT, "DESIGN.md §6 C01"),
    "C07": ("permute by all N! orders, reshape to every ordered factorisation of the cell count (and, sparse, of every "
            "sorted proper subset of modes), squeeze, and the inverse composites are executed on every holder (dense, sparse "
            "in all stored orders, Kruskal, Tucker dense/sparse core) of every array in scope and compared exactly with the "
            "loop-level index formula; index maps are value-oblivious, so the scope covers every path.",
            "Trusted: mc/refmodel.py permute/reshape_f/squeeze loops; arrays <= 24 cells, order <= 4 (5 for permute).",
            TECH_PRODUCT, "DESIGN.md §6 C07"),
    "C03": ("The left sparse operand ranges over ALL arrays over the value alphabet {0,2,-3} on every 4-cell shape "
            "(thorough: 6 cells complete, 8 cells all zero patterns), the right operand over all such arrays held sparse "
            "and dense plus seven scalars; all 13 binary, 2 reflected and 9 unary operators are applied and the expanded "
            "result compared position by position (NaN/inf included) with NumPy on the expanded operands.  The operators "
            "branch only on the joint zero pattern, signs and entry counts, all enumerated completely in this scope.",
            "Trusted: NumPy element-wise semantics; F-sorted stored order here (orders are C06). Two upstream-pinned "
            "division conventions are recorded as known findings, identified by the exact per-cell deviation signature.",
            TECH_PRODUCT, "DESIGN.md §6 C03"),
    "C16": ("Every double of a 20k/133k-value alphabet (every binary exponent x mantissa patterns x sign) is swept through "
            "each carrier (dense, sparse values, Kruskal factors/weights, matrix), every shape <= 24/48 cells, all sparse "
            "patterns and stored orders, both index bases; export_data -> import_data must reproduce type, shape, bits and "
            "order, and the written text must parse under an independent reference grammar.",
            "Trusted: reference .tns printer/parser inside mc/props/C16.py; only the listed mantissa patterns.",
            TECH_PRODUCT, "DESIGN.md §6 C16"),
    "C06": ("For every set of <= 3 (thorough <= 4) non-zero cells, ALL k! stored orders of each operand are built as real "
            "sptensors and ~180 operation instances (all operators with sparse/dense/scalar partners, reads, writes, "
            "multilinear and structural operations, constructors consuming coordinate lists) are executed for every order "
            "combination; the pass criterion is exactly one canonical outcome per (operand sets, operation) and a "
            "well-formed sparse result (integer distinct in-range subscripts, one value each, nnz consistent, no explicit "
            "zero after combining/filtering operations).",
            "Trusted: the canonical observation (expanded array / mapping); correctness of the common outcome is C02/C03/C04's job. "
            "The upstream-pinned stored zeros of sptensor/sptensor division are a recorded known finding.",
            TECH_PRODUCT, "DESIGN.md §6 C06"),
    "C15": ("symmetrize (both versions) and issymmetric (both versions, with/without details) are run on every shape of order "
            "2-4 (thorough 5-6) with sizes 2-3 x every ordered selection of disjoint equal-size mode groups x six data families "
            "incl. every single-cell perturbation of a symmetric tensor, and compared exactly with the explicit group average / "
            "explicit invariance test; Kruskal symmetrize over ranks, weight signs and factor families.",
            "Trusted: mc/refmodel.py symmetrize/is_symmetric (explicit permutation average); integer data (exact averages).",
            TECH_PRODUCT, "DESIGN.md §6 C15"),
    "C02": ("ttv, ttm (plain/transposed), mttkrp/mttkrps (factor list and weighted Kruskal operand), ttt (every equal-size mode "
            "pairing, outer and inner), ttsv, innerprod (every documented ordered holder pair), norm, contract, collapse "
            "(sum/max/min), scale, mask and reconstruct are run on every holder (dense, sparse in 5 fill classes and 2 stored "
            "orders, Kruskal, Tucker dense/sparse core, mixed sums) of every shape in scope, under EVERY mode designation "
            "(each non-empty ordered selection as dims with |dims|- and N-long multiplicand lists, each subset via "
            "exclude_dims, int/array/list forms), and compared exactly with the explicit index sum; the evidence lists which "
            "sides of the data-dependent switches (sparse kept/densified, <=50%/>50% fill, empty, scalar) were reached.",
            "Trusted: mc/refmodel.py sums (einsum/tensordot on expanded arrays); integer data; non-sum sparse reducers are "
            "compared with 'reduce the stored entries of each fibre' (DESIGN §6 C02 scoping); mttkrp on 1-way tensors is documented as invalid.",
            TECH_PRODUCT, "DESIGN.md §6 C02"),
    "C04": ("Breadth-first search over ALL words of write labels up to depth 2 (thorough 3) from 8 initial states (empty, zero, "
            "tensors with entries stored sorted/reversed/rotated, F- and C-buffers); each transition applies one label to a "
            "fresh dense tensor, a fresh sparse tensor and the reference array and compares all three entry by entry (shape, "
            "values, sparse well-formedness incl. 'zero removes the entry'); on every distinct reached state the whole read "
            "alphabet (subscripts, negative, subscript arrays, linear indices/slices, ~25-125 regions) is checked. States are "
            "de-duplicated on the concrete implementation state, so sorted and unsorted coordinate lists are never merged.",
            "Trusted: RefArr in mc/props/C04.py. Scoping: linear assignment to sptensor (N>1) is documented unsupported (sparse "
            "gets the equivalent subscript write); dense keys with >= 2 index lists / int-slice-list follow NumPy (4 known findings).",
            TECH_BFS, "DESIGN.md §6 C04"),
    "C12": ("All ten loss/gradient handle pairs on a data x model grid (complex-step and stencil derivative oracles, kink handled "
            "one-sidedly), tensor-level evaluate() against the weighted entrywise sum and against the derivative in EVERY "
            "factor coordinate for every mask with <= 2 (3) zeros, mttkrps vs per-mode mttkrp at every split position, and "
            "estimate() on the full index set for all n! sample orders.",
            "Trusted: complex-step differentiation of the real handles; grid of the domain, not all reals. Three known findings "
            "(negative-binomial gradient, its cascade, gradients ignoring Kruskal weights) are pinned by upstream functional tests.",
            TECH_PRODUCT, "DESIGN.md §6 C12"),
    "C14": ("nvecs(n, r, flipsign) for every mode, every 1 <= r <= size and both sign settings on every holder (dense F/C, sparse in "
            "several stored orders, Kruskal, Tucker dense/sparse core) of a fixed integer data family, against numpy.linalg.eigh of "
            "the exact Gram matrix: real dtype, orthonormality, eigen-relation with eigenvalues in decreasing order, captured "
            "energy, projector equality across holders, sign rule; both solver paths are required to be reached.",
            "Trusted: reference Gram matrix/eigh; admissibility (spectral gap) decided from the reference; ARPACK start vector fixed "
            "by wrapping scipy eigsh/eigs. The sptensor dense-path defect is pinned by its own doctest (3 known findings).",
            TECH_PRODUCT, "DESIGN.md §6 C14"),
    "C05": ("A catalogue with a case generator for every one of 281 public operations found by introspection of the 7 classes, "
            "the module-level functions/helpers and the algorithm entry points (a public name without a generator or a documented "
            "exemption fails the run) is explored as depth-2 histories: operation; then an in-place write to ONE leaf (every "
            "reachable ndarray of operands and result, one at a time) and an observation of the other side; plus bit-level operand "
            "snapshots across the call and an object-identity check for results without writable leaves.",
            "Trusted: mc/observe.py leaf walker finds every array reachable from pyttb objects; documented in-place operations and "
            "copy=False constructors are exempt as stated in the property; gcp_opt normalising its init is a known finding (functional-test-pinned).",
            TECH_BFS, "DESIGN.md §6 C05"),
    "C08": ("normalize/arrange/fixsigns/redistribute/extract/permute/tovec/from_vector/update/tolist, +,-,neg,scalar* and score are "
            "run on every Kruskal tensor of the scope (shapes <= 12/18 cells, ranks 1-3, EVERY weight pattern over {2,-1,0,1}^R, zero "
            "columns, both/three norm types, every absorbing mode incl. 'all', every component permutation and ordered subset, every "
            "per-mode sign-flip pattern of the reference for fixsigns(ref)) plus 12 depth-2 compositions; the Kruskal value is "
            "recomputed from weights/factors by the reference formula and the promised normal form is asserted.",
            "Trusted: mc/refmodel.py kruskal(); integer factor entries; tolerance 1e-12*scale where normalisation divides.",
            TECH_PRODUCT, "DESIGN.md §6 C08"),
    "C19": ("A catalogue in a small JSON call language: for every operation and every shape of the scope the valid call (control, "
            "must not raise) and one case per way of violating one precondition that the statement names (mismatches that happen "
            "to broadcast, wrong lengths that divide, repeated / negative / out-of-range modes, non-permutations, count-changing "
            "reshapes, inconsistent constructor components, bad algorithm options); the call must raise and a bit-level snapshot "
            "of receiver and arguments must be unchanged.",
            "Trusted: the list of preconditions read from statement + docstrings (dense-dense broadcasting and value-domain "
            "conditions are out of scope); two upstream-test-pinned acceptances are known findings.",
            TECH_PRODUCT, "DESIGN.md §6 C19"),
    "C20": ("tenones/tenzeros/tenrand/from_function over every shape of the scope and all shape forms; tendiag/sptendiag for element "
            "vectors shorter/longer than every requested shape; teneye via its identity action on unit vectors; from_aggregator over "
            "EVERY multiset of <= 3-4 subscripts in every listed order x value words x 7 reducers; sptenrand/from_function for every "
            "requested count 0..cells (and the matching densities) under seeds 0-7 AND under a scripted random source whose draw "
            "words are enumerated completely for the first attempt and deviation-bounded (<= 2 deviations from 20 default policies) beyond.",
            "Trusted: ScriptedRandom inside mc/props/C20.py owns every numpy.random entry point used (others raise); replay "
            "divergence is a hard error; scope <= 9 (16) cells for the random generators.",
            "bounded-exhaustive enumeration (product explorer) + deviation-bounded environment exploration of scripted random draws",
            "DESIGN.md §6 C20"),
    "C09": ("The transition is one real ALS sweep: cp_als is re-run with maxiters = 1..K (K=3 quick, 6 thorough) from the same guess "
            "for every member of a fixed explicit data family (exact rank-1/2, rank-R plus noise, generic, counts with an empty "
            "slice; as tensor, sptensor, ttensor, sumtensor) x ranks 1-3 x starts (given, random under enumerated seeds, nvecs) x "
            "dimorders x optdims subsets x fixsigns x printitn x stoptol; a duck-typed recording wrapper around the data logs every "
            "factor list passed to mttkrp so the normal equations are checked for EVERY mode update; every state is checked for "
            "normal form, reported fit/residual vs recomputation (squared-residual domain), monotonicity, prefix consistency of "
            "k vs k+1 sweeps, stopping rule, returned guess, unchanged inputs, and a reference ALS in numpy.",
            "Trusted: numpy reference ALS and tolerances of DESIGN §4.3; admissibility (unfolding rank, Hadamard-Gram conditioning) "
            "decided on the reference side; data values are a fixed finite family, not all reals.",
            TECH_PRODUCT, "DESIGN.md §6 C09"),
    "C11": ("cp_apr is re-run with maxiters = 1..K from the same explicit guess for mu, pdnr and pqnr over their complete option "
            "lattices (inner-iteration limit, tolerance, precomputed indices, inexact, L-BFGS memory, printing, stoptime under a "
            "virtual clock) on a fixed family of count tensors (dense and sparse; empty slice, zero fibre, binary, exact low rank) "
            "and guesses (positive, zero row, zero weight, seeded random); every returned state is checked for rank/shape, "
            "non-negativity, reported objective vs entrywise Poisson log-likelihood, KKT list vs sweeps actually performed "
            "(recorded), iteration limit, improvement over the guess and unchanged inputs.",
            "Trusted: entrywise log-likelihood reference; virtual clock patched into pyttb.cp_apr. The pqnr abort 'L-BFGS first "
            "iterate is bad' is a known finding (upstream test expects it); invariants are decided on the pqnr runs that return "
            "(thousands; a guard fails the run if fewer than 1000 per algorithm return).",
            TECH_PRODUCT, "DESIGN.md §6 C11"),
    "C13": ("Samplers: a scripted random source owns numpy.random.uniform/choice/poisson; every draw is a choice point; executions "
            "with <= 5 draws are enumerated completely, longer ones with <= 2 deviations from each default policy (cycle-zeros, "
            "cycle-all, constant-cell); subscripts/values/weights/counts are checked against the data.  Stochastic solvers: a "
            "scripted sampler makes f_est the exact objective; rate/decay/max_fails/max_iters/epoch_iters/loss configurations reach "
            "18+ fail/success words; trace, best-model, bound and stop-rule invariants.  Reuse: ALL words of <= 3 solves over 4-5 "
            "problems on one optimizer object are compared bit for bit with the same solve on a fresh object.",
            "Trusted: ScriptedRandom in mc/props/C13.py (other numpy.random calls raise; replay divergence is a hard error). The "
            "stratified-sampler length mismatch on a rejection shortfall is a known finding (functional-test-pinned).",
            "deviation-bounded environment exploration of scripted random draws + bounded-exhaustive enumeration of solver "
            "configurations and solve histories", "DESIGN.md §6 C13"),
    "C10": ("HOSVD: every member of a fixed full-rank integer data family x 7 tolerances x sequential T/F x all N! mode orders x "
            "EVERY rank vector within the mode sizes (and None) x verbosity; Tucker-ALS: ranks x starts (random under seeds 0-2, "
            "nvecs, given list) x mode orders x maxiters 1..K x stoptol, re-run per horizon; orthonormal factors, core = X x_n U_n^T, "
            "error bound for automatic ranks, exact requested ranks, reported fit vs recomputation (squared-residual domain), "
            "monotone residual across horizons, reference cut-off / HOOI comparison, unchanged inputs.",
            "Trusted: numpy reference (eigh-based cut-off and HOOI), tolerances of DESIGN §4.3; relations between two calls are "
            "asserted only where every eigenproblem along the reference trajectory has a spectral gap (ARPACK start vectors are "
            "not controllable).", TECH_PRODUCT, "DESIGN.md §6 C10"),
    "C18": ("A relational invariant over PAIRS of real runs: each case runs a base (dense, silent, original labels, unscaled) and "
            "every presentation variant - sparse holder (cp_als, cp_apr x3), every printing / verbosity setting, the same global "
            "seed again, data scaled by 4 and 1/4, and EVERY mode relabelling of data + guess + dimorder - for cp_als, cp_apr "
            "(mu, pdnr, pqnr), hosvd, tucker_als and gcp_opt/LBFGSB over a fixed data family, guesses and maxiters 1..3 (4); "
            "expanded models, fits/objectives and iteration counts must agree within the tolerances of DESIGN §4.3.",
            "Trusted: numpy references decide admissibility for cp_als/hosvd/tucker_als; for cp_apr a conditioning probe on the "
            "real implementation (runs from starts perturbed by 1e-12) filters rounding-chaotic trajectories before a dense-vs-"
            "sparse pair is asserted; identical-arithmetic pairs (printing, same seed) are asserted unconditionally.",
            TECH_PRODUCT, "DESIGN.md §6 C18"),
}
PENDING = {f"C{i:02d}": "check not built yet in this phase (planned, see DESIGN.md §6)" for i in range(1, 21) if f"C{i:02d}" not in CHECKS}
NOT_APPLICABLE = {}
