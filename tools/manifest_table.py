"""Per-property manifest text.  CHECKS: id -> (level text, level note, technique, design ref)."""
TECH_PRODUCT = "bounded-exhaustive explicit-state enumeration (product explorer) of the real code against a reference model"
CHECKS = {
    "C17": ("Every helper is run on the complete finite argument space stated in the evidence bounds "
            "(all shapes <= 48 cells x index sets, all ordered mode selections for N<=5, all pairs of row lists "
            "over a 4-/6-row universe, all small matrix tuples) and compared with loop-level reference semantics; "
            "the helpers are value-oblivious index/set maps, so the small scope contains every branch.",
            "Trusted: reference semantics in mc/props/C17.py; integer rows only; larger shapes/rows not explored.",
            TECH_PRODUCT, "DESIGN.md §6 C17"),
}
PENDING = {f"C{i:02d}": "check not built yet in this phase (planned, see DESIGN.md §6)" for i in range(1, 21) if f"C{i:02d}" not in CHECKS}
NOT_APPLICABLE = {}
