"""Per-property manifest text.  CHECKS: id -> (level text, level note, technique, design ref)."""
TECH_PRODUCT = "bounded-exhaustive explicit-state enumeration (product explorer) of the real code against a reference model"
CHECKS = {
    "C17": ("Every helper is run on the complete finite argument space stated in the evidence bounds "
            "(all shapes <= 48 cells x index sets, all ordered mode selections for N<=5, all pairs of row lists "
            "over a 4-/6-row universe, all small matrix tuples) and compared with loop-level reference semantics; "
            "the helpers are value-oblivious index/set maps, so the small scope contains every branch.",
            "Trusted: reference semantics in mc/props/C17.py; integer rows only; larger shapes/rows not explored.",
            TECH_PRODUCT, "DESIGN.md §6 C17"),
    "C01": ("Every conversion between representations is executed for every holder of every array in the stated "
            "small scope (all zero patterns for <= 6 cells, all stored orders for <= 3/4 nonzeros, every ordered "
            "partition of the modes into row and column modes incl. empty sides and the fc/bc/t conventions, Kruskal "
            "ranks 1-3 x weight sign patterns, Tucker cores dense and sparse, sums of mixed parts) and the result is "
            "compared entry for entry with the explicit index formula; conversions are value-oblivious index maps, so "
            "shape x zero pattern x stored order determines the execution path.",
            "Trusted: mc/refmodel.py (matricization formula, Kruskal/Tucker value by einsum); arrays <= 24 cells, order <= 5.",
            TECH_PRODUCT, "DESIGN.md §6 C01"),
    "C07": ("permute by all N! orders, reshape to every ordered factorisation of the cell count (and, sparse, of every "
            "sorted proper subset of modes), squeeze, and the inverse composites are executed on every holder (dense, sparse "
            "in all stored orders, Kruskal, Tucker dense/sparse core) of every array in scope and compared exactly with the "
            "loop-level index formula; index maps are value-oblivious, so the scope covers every path.",
            "Trusted: mc/refmodel.py permute/reshape_f/squeeze loops; arrays <= 24 cells, order <= 4 (5 for permute).",
            TECH_PRODUCT, "DESIGN.md §6 C07"),
}
PENDING = {f"C{i:02d}": "check not built yet in this phase (planned, see DESIGN.md §6)" for i in range(1, 21) if f"C{i:02d}" not in CHECKS}
NOT_APPLICABLE = {}
