#!/bin/bash
# Runs the pinned 208-doctest baseline and the (unpinned) functional tests on /repo (or $1).
R=${1:-/repo}
cd "$R" || exit 2
echo -n "doctests:   "; PYTHONPATH=$R /venv/bin/python -m pytest -q -p no:cacheprovider --timeout=900 2>&1 | tail -1
echo -n "functional: "; PYTHONPATH=$R /venv/bin/python -m pytest -q -p no:cacheprovider tests --deselect tests/test_package.py 2>&1 | tail -1
