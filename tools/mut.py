#!/venv/bin/python
"""Mutation demo runner.
usage: tools/mut.py NAME FILE OLD NEW PROP[,PROP..] [--tier quick] [--seeds 0,1,2] [--patch FILE]
Copies /repo to a scratch dir outside /repo and /verif, applies the textual change
(or a git patch), runs the pinned doctests on the copy (must stay green), then the
checks with PYTTB_SRC=<copy>.  Prints one line per step; removes the copy."""
import os, shutil, subprocess, sys, tempfile, argparse
ap = argparse.ArgumentParser()
ap.add_argument("name"); ap.add_argument("file"); ap.add_argument("old"); ap.add_argument("new"); ap.add_argument("props")
ap.add_argument("--tier", default="quick"); ap.add_argument("--seeds", default="0"); ap.add_argument("--keep", action="store_true")
ap.add_argument("--patch")
ap.add_argument("--skip-tests", action="store_true")
a = ap.parse_args()
work = tempfile.mkdtemp(prefix="pyttb_mut_", dir="/tmp")
dst = os.path.join(work, "repo")
shutil.copytree("/repo", dst, ignore=shutil.ignore_patterns(".git", "__pycache__", "*.egg-info", "docs", "profiling"))
try:
    if a.patch:
        r = subprocess.run(["patch", "-p1", "-s", "-i", os.path.abspath(a.patch)], cwd=dst)
        assert r.returncode == 0, "patch failed"
    else:
        p = os.path.join(dst, a.file)
        s = open(p).read()
        if s.count(a.old) != 1:
            print(f"[{a.name}] STALE-PATTERN: OLD occurs {s.count(a.old)} times in {a.file}")
            sys.exit(4)
        open(p, "w").write(s.replace(a.old, a.new))
    env = dict(os.environ, PYTHONPATH=dst, PYTHONDONTWRITEBYTECODE="1")
    if not a.skip_tests:
        r = subprocess.run(["/venv/bin/python", "-m", "pytest", "-q", "-p", "no:cacheprovider", "-x"], cwd=dst, env=env,
                           capture_output=True, text=True)
        tail = r.stdout.strip().splitlines()[-1] if r.stdout.strip() else r.stderr[-200:]
        print(f"[{a.name}] doctests: {tail}")
        if r.returncode != 0:
            print(f"[{a.name}] CAUGHT-BY-TESTS (useless as demo)")
            sys.exit(3)
    allc = True
    for prop in a.props.split(","):
        for seed in a.seeds.split(","):
            env2 = dict(os.environ, PYTTB_SRC=dst, VERIF_SEED=seed, VERIF_NO_EVIDENCE="1")
            r = subprocess.run(["/verif/check", prop, "--tier", a.tier], env=env2, capture_output=True, text=True, cwd="/verif")
            viol = [l for l in r.stdout.splitlines() if l.startswith("VIOLATION")]
            summ = [l for l in r.stdout.splitlines() if l.startswith(prop)]
            cls = [l.strip()[:230] for l in r.stderr.splitlines() if l.strip().startswith("class")][:3]
            print(f"[{a.name}] {prop} seed={seed} exit={r.returncode} violations={len(viol)} :: {summ[0][:160] if summ else r.stderr[-300:]}")
            for c in cls: print("      ", c)
            allc &= (r.returncode == 1 and len(viol) > 0)
    print(f"[{a.name}] {'DETECTED' if allc else 'MISSED'}")
    sys.exit(0 if allc else 1)
finally:
    if not a.keep:
        shutil.rmtree(work, ignore_errors=True)
