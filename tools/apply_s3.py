#!/venv/bin/python
"""usage: tools/apply_s3.py C19 [prefix=s3]  -- applies proposed/<PROP>-<prefix>-*.diff to /repo as fix: commits (tests must stay green),
then appends proposed/<PROP>-<prefix>-findings.jsonl to known_findings.jsonl with the commit hashes filled in."""
import glob, json, os, subprocess, sys
prop = sys.argv[1]; pre = sys.argv[2] if len(sys.argv) > 2 else "s3"
V = "/verif"
ff = f"{V}/proposed/{prop}-{pre}-findings.jsonl"
rows = [json.loads(l) for l in open(ff) if l.strip() and not l.startswith("#")] if os.path.exists(ff) else []
diffs = sorted(d for d in glob.glob(f"{V}/proposed/{prop}-{pre}-*.diff") if "NOT-" not in d)
hashes = {}
for d in diffs:
    base = os.path.basename(d)
    rel = [r for r in rows if r.get("status") == "fixed" and (base in str(r.get("patch", "")) or base.replace(".diff", "").split(f"{pre}-", 1)[1] in r.get("id", ""))]
    what = (rel[0].get("what") if rel else base.replace(".diff", "").replace("-", " "))
    title = what.split(". ")[0].strip().rstrip(".")
    title = title[0].lower() + title[1:] if title else base
    if len(title) > 110: title = title[:107] + "..."
    r = subprocess.run(["git", "-C", "/repo", "apply", d], capture_output=True, text=True)
    if r.returncode != 0:
        print("APPLY FAILED", base, r.stderr[:300]); sys.exit(1)
    msg = f"fix: {title}\n\n{what}"
    r = subprocess.run([f"{V}/tools/fix_step.sh", msg], capture_output=True, text=True)
    last = r.stdout.strip().splitlines()[-1] if r.stdout.strip() else r.stderr[-200:]
    print(base, "->", last)
    if r.returncode != 0:
        print(r.stdout); subprocess.run(["git", "-C", "/repo", "checkout", "--", "."]); sys.exit(1)
    hashes[base] = last.split()[0]
with open(f"{V}/known_findings.jsonl", "a") as f:
    for r in rows:
        if r.get("status") == "fixed":
            h = None
            for b, hh in hashes.items():
                if b in str(r.get("patch", "")) or b.replace(".diff", "").split(f"{pre}-", 1)[1] in r.get("id", ""):
                    h = hh
            if h is None and len(hashes) == 1: h = list(hashes.values())[0]
            if h is None and str(r.get("commit", "")).strip("<>").startswith("pending"):
                print("NO COMMIT FOR", r["id"]); continue
            if h: r["commit"] = h
            if "line" in r and h:
                for ph in ("<pending>", "<commit>", "<sha>"): r["line"] = r["line"].replace(ph, h)
        f.write(json.dumps(r) + "\n"); print(" finding:", r["status"], r["id"], r.get("commit", ""))
