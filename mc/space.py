"""Finite domains and deterministic, simplest-first enumerators."""

from __future__ import annotations

import itertools
from math import prod


def shapes(max_order, max_size, max_cells, min_order=1, min_size=1):
    """All shapes of order min_order..max_order with mode sizes in
    min_size..max_size and at most max_cells cells; fewest cells first."""
    out = []
    for n in range(min_order, max_order + 1):
        for s in itertools.product(range(min_size, max_size + 1), repeat=n):
            if prod(s) <= max_cells:
                out.append(tuple(s))
    out.sort(key=lambda s: (prod(s), len(s), s))
    return out


def cells(shape):
    """All subscripts of a shape in F order (first index fastest)."""
    return [tuple(reversed(t)) for t in itertools.product(*[range(s) for s in reversed(shape)])]


def lin_f(shape, sub):
    """F-order linear index, written out as a loop (reference semantics)."""
    idx, mul = 0, 1
    for k, i in enumerate(sub):
        idx += i * mul
        mul *= shape[k]
    return idx


def sub_f(shape, idx):
    sub = []
    for s in shape:
        sub.append(idx % s)
        idx //= s
    return tuple(sub)


def subsets(items, min_size=0, max_size=None):
    items = list(items)
    max_size = len(items) if max_size is None else max_size
    for k in range(min_size, max_size + 1):
        yield from itertools.combinations(items, k)


def ordered_subselections(n, min_size=0, max_size=None):
    """Every ordered selection without repetition from range(n)."""
    max_size = n if max_size is None else max_size
    for k in range(min_size, max_size + 1):
        yield from itertools.permutations(range(n), k)


def ordered_partitions(n):
    """Every (R, C): R an ordered selection of modes, C an ordering of the rest."""
    for k in range(0, n + 1):
        for r in itertools.permutations(range(n), k):
            rest = [i for i in range(n) if i not in r]
            for c in itertools.permutations(rest):
                yield tuple(r), tuple(c)


def factorizations(n, max_factors, min_factors=1):
    """Every ordered factorisation of n into min..max factors (each >= 1,
    but at most one block of trailing/inner 1s is still enumerated since 1s are
    legitimate singleton modes)."""
    out = []

    def rec(rem, k, acc):
        if k == 0:
            if rem == 1:
                out.append(tuple(acc))
            return
        for d in range(1, rem + 1):
            if rem % d == 0:
                rec(rem // d, k - 1, acc + [d])

    for k in range(min_factors, max_factors + 1):
        rec(n, k, [])
    return out


def patterns(ncells, complete_upto=6):
    """Zero/non-zero patterns as tuples of 0/1.  Complete for small cell
    counts, otherwise the classes none / each single / alternating halves / all
    but one / all."""
    if ncells <= complete_upto:
        pats = list(itertools.product((0, 1), repeat=ncells))
        pats.sort(key=lambda p: (sum(p), p))
        return pats
    pats = [tuple([0] * ncells)]
    pats.append(tuple(1 if i == 0 else 0 for i in range(ncells)))
    pats.append(tuple(1 if i == ncells - 1 else 0 for i in range(ncells)))
    pats.append(tuple(1 if i % 3 == 1 else 0 for i in range(ncells)))      # < 50 %
    pats.append(tuple(1 if i % 2 == 0 else 0 for i in range(ncells)))      # = 50 % (even)
    pats.append(tuple(0 if i % 3 == 1 else 1 for i in range(ncells)))      # > 50 %
    pats.append(tuple(0 if i == 1 else 1 for i in range(ncells)))
    pats.append(tuple([1] * ncells))
    seen, out = set(), []
    for p in pats:
        if p not in seen:
            seen.add(p)
            out.append(p)
    return out


def orders(k, complete_upto=3):
    """Stored orders of k entries as permutations of range(k)."""
    if k <= complete_upto:
        return list(itertools.permutations(range(k)))
    ident = tuple(range(k))
    rev = tuple(reversed(ident))
    rot = ident[1:] + ident[:1]
    swap = (1, 0) + ident[2:]
    out = []
    for o in (ident, rev, rot, swap):
        if o not in out:
            out.append(o)
    return out


_ODD = [3, 5, 7, 9, 11, 13, 15, 17, 19, 21, 23, 25, 27, 29, 31, 33, 35, 37, 39, 41, 43, 45, 47,
        49, 51, 53, 55, 57, 59, 61, 63, 65, 67, 69, 71, 73, 75, 77, 79, 81, 83, 85, 87, 89, 91,
        93, 95, 97, 99, 101]


def cell_value(l, seed=0):
    """Distinct small signed odd integer for cell l (exact in float64).  The
    seed permutes which integers are bound to which cell."""
    k = (l * 7 + 3 * seed) % len(_ODD) if seed else l % len(_ODD)
    v = _ODD[k] + 2 * len(_ODD) * (l // len(_ODD))
    return float(v if (l + seed) % 2 == 0 else -v)


def dense_values(shape, pattern=None, seed=0):
    """F-ordered list of cell values under a zero pattern."""
    n = prod(shape)
    if pattern is None:
        pattern = [1] * n
    return [cell_value(l, seed) if pattern[l] else 0.0 for l in range(n)]


def int_vector(n, salt=0, seed=0):
    """Small non-zero integers, distinct magnitudes, mixed signs."""
    base = [2, -3, 5, -7, 11, -13]
    return [float(base[(i + salt + seed) % len(base)]) for i in range(n)]


def int_matrix(rows, cols, salt=0, seed=0):
    vals = [1, -2, 3, -1, 2, -3, 4, 1, -4, 2, 5, -5, 3, -1, 2]
    return [[float(vals[(3 * i + 5 * j + salt + seed) % len(vals)]) for j in range(cols)]
            for i in range(rows)]
