"""Sparse element-wise operator table shared by C03 (dense semantics) and C06
(well-formedness and stored-order independence)."""

from __future__ import annotations

import operator as op

import numpy as np

# name -> (apply(S, R) on pyttb objects, reference(a, b) on expanded float arrays / scalars,
#          combines_or_filters: explicit zeros forbidden in a sparse result for these rhs kinds)


def _f(x):
    return np.asarray(x, dtype=float)


def _errstate(fn):
    def g(a, b):
        with np.errstate(all="ignore"):
            return fn(a, b)
    return g


BINOPS = {
    "add": (lambda S, R: S + R, _errstate(lambda a, b: a + b)),
    "sub": (lambda S, R: S - R, _errstate(lambda a, b: a - b)),
    "mul": (lambda S, R: S * R, _errstate(lambda a, b: a * b)),
    "div": (lambda S, R: S / R, _errstate(lambda a, b: _f(a) / _f(b))),
    "and": (lambda S, R: S.logical_and(R), lambda a, b: np.logical_and(a, b).astype(float)),
    "or": (lambda S, R: S.logical_or(R), lambda a, b: np.logical_or(a, b).astype(float)),
    "xor": (lambda S, R: S.logical_xor(R), lambda a, b: np.logical_xor(a, b).astype(float)),
    "eq": (lambda S, R: S == R, lambda a, b: (a == b).astype(float)),
    "ne": (lambda S, R: S != R, lambda a, b: (a != b).astype(float)),
    "lt": (lambda S, R: S < R, lambda a, b: (a < b).astype(float)),
    "le": (lambda S, R: S <= R, lambda a, b: (a <= b).astype(float)),
    "gt": (lambda S, R: S > R, lambda a, b: (a > b).astype(float)),
    "ge": (lambda S, R: S >= R, lambda a, b: (a >= b).astype(float)),
}
# reflected forms exist for scalars only
RBINOPS = {
    "rmul": (lambda S, c: c * S, _errstate(lambda a, c: c * a)),
    "rdiv": (lambda S, c: c / S, _errstate(lambda a, c: _f(c) / _f(a))),
}

OPNAME = {"add": "sptensor.__add__", "sub": "sptensor.__sub__", "mul": "sptensor.__mul__",
          "div": "sptensor.__truediv__", "and": "sptensor.logical_and", "or": "sptensor.logical_or",
          "xor": "sptensor.logical_xor", "eq": "sptensor.__eq__", "ne": "sptensor.__ne__",
          "lt": "sptensor.__lt__", "le": "sptensor.__le__", "gt": "sptensor.__gt__", "ge": "sptensor.__ge__",
          "rmul": "sptensor.__rmul__", "rdiv": "sptensor.__rtruediv__"}


def _nz_apply(f):
    """elemfun semantics: f on the non-zero entries, zeros stay zero."""
    def ref(a):
        out = np.zeros_like(a, dtype=float)
        m = a != 0
        out[m] = f(a[m])
        return out
    return ref


ELEMFUNS = {
    "neg": lambda v: -v,
    "double": lambda v: v * 2,
    "minus2": lambda v: v - 2,       # turns the value 2 into 0: the entry must be dropped
    "abs": lambda v: np.abs(v),
    "square_minus9": lambda v: v * v - 9,   # -3 -> 0, 2 -> -5
}

UNOPS = {
    "not": ("sptensor.logical_not", lambda S: S.logical_not(), lambda a: np.logical_not(a).astype(float)),
    "ones": ("sptensor.ones", lambda S: S.ones(), lambda a: (a != 0).astype(float)),
    "pos": ("sptensor.__pos__", lambda S: +S, lambda a: a.copy()),
    "neg": ("sptensor.__neg__", lambda S: -S, lambda a: -a),
}
for _n, _fn in ELEMFUNS.items():
    UNOPS["elemfun_" + _n] = ("sptensor.elemfun", (lambda fn: (lambda S: S.elemfun(fn)))(_fn), _nz_apply(_fn))

SCALARS = [-1, 0, 1, 2, 2.0, -3.0, 0.0]


def explicit_zero_allowed(name, rhs_kind):
    """Scalar multiplication/division re-scale stored entries without combining
    or filtering; everything else must not leave explicit zeros."""
    return rhs_kind == "scalar" and name in ("mul", "div", "rmul")
