"""Runner shared by all property modules.

A property module (mc/props/Cxx.py) exposes

    ID, RULE, ASSUMPTIONS, BOUNDS (dict tier -> description)
    gen_cases(tier, seed)  -> iterator of JSON-able case dicts (canonical order,
                              simplest first); every case has a "check" key
    run_case(case, ctx)    -> executes the REAL pyttb code for this case and
                              reports through ctx (fail / tick / state / ...)

and optionally  explore(tier, seed, pool) for history (BFS) exploration, which
uses `bfs()` below.  Every execution is a fresh construction of real pyttb
objects from the case descriptor, so a stored case is a replayable artefact.
"""

from __future__ import annotations

import hashlib
import importlib
import io
import json
import multiprocessing as mp
import os
import signal
import sys
import time
import traceback

VERIF = os.path.dirname(os.path.dirname(os.path.abspath(__file__)))
CASE_TIMEOUT_S = float(os.environ.get("VERIF_CASE_TIMEOUT", "60"))


# --------------------------------------------------------------------------
# per-execution context


class CaseTimeout(Exception):
    pass


def _alarm(signum, frame):
    raise CaseTimeout()


def digest(obj) -> str:
    """Stable digest of a canonical (JSON-able / bytes / ndarray) observation."""
    h = hashlib.blake2b(digest_size=8)
    _feed(h, obj)
    return h.hexdigest()


def _feed(h, obj):
    import numpy as np

    if isinstance(obj, np.ndarray):
        h.update(b"A")
        h.update(str(obj.shape).encode())
        h.update(str(obj.dtype).encode())
        h.update(np.ascontiguousarray(obj).tobytes())
    elif isinstance(obj, (bytes, bytearray)):
        h.update(b"B")
        h.update(obj)
    elif isinstance(obj, (list, tuple)):
        h.update(b"L%d" % len(obj))
        for o in obj:
            _feed(h, o)
    elif isinstance(obj, dict):
        h.update(b"D")
        for k in sorted(obj, key=str):
            _feed(h, str(k))
            _feed(h, obj[k])
    elif isinstance(obj, (np.generic,)):
        _feed(h, obj.item())
    else:
        h.update(repr(obj).encode())


class Ctx:
    """Accumulates what one chunk of cases observed."""

    MAX_FAIL_PER_CLASS = 3

    def __init__(self):
        self.transitions = 0
        self.states = 0
        self.executions = 0
        self.nontrivial = 0
        self.inadmissible = 0
        self.failures = []  # list of failure dicts
        self.fail_counts = {}  # class key -> count
        self.outcomes = set()
        self.counters = {}
        self.case = None
        self.flags = set()

    # a transition = one application of a real operation checked by the oracle
    def tick(self, n=1):
        self.transitions += n

    def state(self, n=1):
        self.states += n

    def execution(self, n=1):
        self.executions += n

    def nontriv(self, n=1):
        self.nontrivial += n

    def inadm(self, n=1):
        self.inadmissible += n

    def count(self, key, n=1):
        self.counters[key] = self.counters.get(key, 0) + n

    def flag(self, key):
        """Record that a branch / switch side was reached (vacuity control)."""
        self.flags.add(key)

    def outcome(self, obj):
        if len(self.outcomes) < 200000:
            self.outcomes.add(digest(obj))

    def fail(self, op, symptom, detail="", variant="", case=None, check=None):
        c = case if case is not None else self.case
        chk = check or (c or {}).get("check", "")
        key = (chk, op, variant, symptom)
        n = self.fail_counts.get(key, 0) + 1
        self.fail_counts[key] = n
        # keep every failure's descriptor (needed for known-finding predicates)
        # but only a few details per class
        rec = {
            "check": chk,
            "op": op,
            "variant": variant,
            "symptom": symptom,
            "case": c,
        }
        if n <= self.MAX_FAIL_PER_CLASS:
            rec["detail"] = str(detail)[:2000]
        self.failures.append(rec)


def exc_symptom(e: BaseException) -> str:
    return "exception:" + type(e).__name__


def short_tb(e: BaseException) -> str:
    tb = traceback.extract_tb(e.__traceback__)
    where = ""
    for fr in reversed(tb):
        if "/pyttb/" in fr.filename:
            where = f"{os.path.basename(fr.filename)}:{fr.lineno}"
            break
    return f"{type(e).__name__}: {str(e)[:300]} @ {where}"


# --------------------------------------------------------------------------
# worker side

_MOD = None


def _worker_init(prop_id, quiet=True):
    global _MOD
    _setup_runtime()
    if quiet:
        sys.stdout = open(os.devnull, "w")
    import logging
    import warnings

    warnings.simplefilter("ignore")
    logging.disable(logging.CRITICAL)
    import numpy as np

    np.seterr(all="ignore")
    _MOD = load_prop(prop_id)
    signal.signal(signal.SIGALRM, _alarm)


def _setup_runtime():
    src = os.environ.get("PYTTB_SRC", "/repo")
    if src not in sys.path[:1]:
        sys.path.insert(0, src)
    if VERIF not in sys.path:
        sys.path.insert(1, VERIF)


def load_prop(prop_id):
    _setup_runtime()
    return importlib.import_module(f"mc.props.{prop_id}")


def run_one(mod, case, ctx):
    """Run one case with a time limit; harness errors are failures too."""
    ctx.case = case
    ctx.executions += 1
    signal.setitimer(signal.ITIMER_REAL, CASE_TIMEOUT_S)
    try:
        mod.run_case(case, ctx)
    except CaseTimeout:
        ctx.fail("case", "timeout", f"case exceeded {CASE_TIMEOUT_S}s")
    except Exception as e:  # an escaped exception is a harness bug: loud
        ctx.fail("harness", "harness_error:" + type(e).__name__,
                 "".join(traceback.format_exception(e))[-1800:])
    finally:
        signal.setitimer(signal.ITIMER_REAL, 0)


def _run_chunk(chunk):
    ctx = Ctx()
    for case in chunk:
        run_one(_MOD, case, ctx)
    return _pack(ctx)


def _pack(ctx):
    return {
        "transitions": ctx.transitions,
        "states": ctx.states,
        "executions": ctx.executions,
        "nontrivial": ctx.nontrivial,
        "inadmissible": ctx.inadmissible,
        "failures": ctx.failures,
        "outcomes": ctx.outcomes,
        "counters": ctx.counters,
        "flags": ctx.flags,
    }


class Totals:
    def __init__(self):
        self.transitions = 0
        self.states = 0
        self.executions = 0
        self.nontrivial = 0
        self.inadmissible = 0
        self.failures = []
        self.outcomes = set()
        self.counters = {}
        self.flags = set()
        self.samples = []
        self.cases = 0
        self.per_check = {}
        self.caps_hit = []
        self.max_depth = 1

    def add(self, p):
        self.transitions += p["transitions"]
        self.states += p["states"]
        self.executions += p["executions"]
        self.nontrivial += p["nontrivial"]
        self.inadmissible += p["inadmissible"]
        self.failures.extend(p["failures"])
        self.outcomes |= p["outcomes"]
        self.flags |= p["flags"]
        for k, v in p["counters"].items():
            self.counters[k] = self.counters.get(k, 0) + v


def chunked(it, n):
    buf = []
    for x in it:
        buf.append(x)
        if len(buf) >= n:
            yield buf
            buf = []
    if buf:
        yield buf


def make_pool(prop_id, jobs):
    ctxm = mp.get_context("fork")
    return ctxm.Pool(jobs, initializer=_worker_init, initargs=(prop_id,))


def run_product(mod, tier, seed, jobs, totals, chunk=None):
    """Product explorer: enumerate gen_cases completely, distribute chunks."""
    chunk = chunk or getattr(mod, "CHUNK", 50)
    cases = mod.gen_cases(tier, seed)

    def counting(it):
        for c in it:
            totals.cases += 1
            k = c.get("check", "")
            totals.per_check[k] = totals.per_check.get(k, 0) + 1
            if len(totals.samples) < 6 and (totals.cases in (1, 2) or totals.cases % 997 == 0):
                totals.samples.append(c)
            yield c

    if jobs <= 1:
        _worker_init(mod.ID, quiet=True)
        for ch in chunked(counting(cases), chunk):
            totals.add(_run_chunk(ch))
        sys.stdout = sys.__stdout__
        return
    with make_pool(mod.ID, jobs) as pool:
        for p in pool.imap_unordered(_run_chunk, chunked(counting(cases), chunk)):
            totals.add(p)


# --------------------------------------------------------------------------
# history explorer (level-synchronous BFS; a state is the history reaching it)


def _expand_chunk(chunk):
    """chunk: list of histories.  Returns successors computed by mod.expand."""
    ctx = Ctx()
    out = []
    for hist in chunk:
        ctx.case = hist
        ctx.executions += 1
        signal.setitimer(signal.ITIMER_REAL, CASE_TIMEOUT_S)
        try:
            out.extend(_MOD.expand(hist, ctx))
        except CaseTimeout:
            ctx.fail("case", "timeout", "expansion exceeded limit", case=hist)
        except Exception as e:
            ctx.fail("harness", "harness_error:" + type(e).__name__,
                     "".join(traceback.format_exception(e))[-1800:], case=hist)
        finally:
            signal.setitimer(signal.ITIMER_REAL, 0)
    return out, _pack(ctx)


def bfs(mod, inits, depth, jobs, totals, chunk=8, state_cap=None):
    """Level-synchronous BFS.  `mod.expand(hist, ctx)` builds the real objects
    for `hist` (fresh, by replaying its labels), applies every enabled label,
    checks the invariant on each successor and returns a list of
    (new_hist, concrete_state_key | None).  key None = violated / not expanded.
    The master de-duplicates on the concrete state key."""
    seen = set()
    frontier = []
    for h, k in inits:
        if k not in seen:
            seen.add(k)
            frontier.append(h)
    totals.states += len(frontier)
    pruned = 0
    pool = make_pool(mod.ID, jobs) if jobs > 1 else None
    if pool is None:
        _worker_init(mod.ID, quiet=True)
    try:
        for d in range(1, depth + 1):
            nxt = []
            it = (pool.imap_unordered(_expand_chunk, chunked(frontier, chunk))
                  if pool else map(_expand_chunk, chunked(frontier, chunk)))
            for succ, packed in it:
                totals.add(packed)
                for h, k in succ:
                    if k is None:
                        pruned += 1
                        continue
                    if k in seen:
                        continue
                    seen.add(k)
                    totals.states += 1
                    if len(totals.samples) < 6 and len(seen) % 499 == 0:
                        totals.samples.append(h)
                    nxt.append(h)
            totals.max_depth = d
            if state_cap and len(seen) > state_cap and d < depth:
                totals.caps_hit.append(
                    f"state cap {state_cap} exceeded after depth {d}; deeper levels not expanded")
                break
            frontier = nxt
            if not frontier:
                break
    finally:
        if pool:
            pool.close()
            pool.join()
        else:
            sys.stdout = sys.__stdout__
    totals.counters["pruned_after_violation"] = totals.counters.get("pruned_after_violation", 0) + pruned
    return seen


# --------------------------------------------------------------------------
# findings


def _helpers():
    return {"any": any, "all": all, "len": len, "min": min, "max": max, "sum": sum,
            "abs": abs, "sorted": sorted, "set": set, "tuple": tuple, "list": list,
            "zip": zip, "range": range, "str": str, "int": int, "isinstance": isinstance, "map": map,
            "True": True, "False": False, "None": None}


def load_known(prop_id):
    path = os.path.join(VERIF, "known_findings.jsonl")
    out = []
    if os.path.exists(path):
        for line in open(path):
            line = line.strip()
            if not line or line.startswith("#"):
                continue
            e = json.loads(line)
            if e.get("property") == prop_id:
                out.append(e)
    return out


def explains(entry, f) -> bool:
    if entry.get("status") != "known":
        return False
    for fld in ("check", "op", "symptom"):
        if entry.get(fld) != f.get(fld):
            return False
    ev = entry.get("variant", "")
    if ev != "*" and ev != f.get("variant", ""):
        return False
    when = entry.get("when", "True")
    ns = dict(_helpers())
    case = f.get("case") or {}
    if isinstance(case, dict):
        ns.update(case)
    ns["case"] = case
    try:
        g = {"__builtins__": {}}
        g.update(ns)  # one namespace: generator expressions inside `when` resolve names in globals
        return bool(eval(when, g))
    except Exception:
        return False


def case_size(c):
    try:
        return len(json.dumps(c, default=str))
    except Exception:
        return 1 << 30


def triage(prop_id, mod, totals):
    """Split failures into explained (known) and violations.  Re-run witnesses."""
    known = load_known(prop_id)
    matched = {}
    classes = {}
    for f in totals.failures:
        ent = next((e for e in known if explains(e, f)), None)
        if ent is not None:
            matched.setdefault(ent["id"], 0)
            matched[ent["id"]] += 1
            continue
        key = (f["check"], f["op"], f.get("variant", ""), f["symptom"])
        classes.setdefault(key, []).append(f)
    # witnesses
    stale = []
    witness_fail = {}
    for e in known:
        if e.get("status") == "fixed" and e.get("witness") is not None:
            # a fixed entry suppresses nothing; its witness is re-run as a regression case
            ctx = Ctx()
            _worker_init(prop_id, quiet=True)
            run_one(mod, e["witness"], ctx)
            sys.stdout = sys.__stdout__
            for f in ctx.failures:
                if not any(explains(k, f) for k in known):
                    key = (f["check"], f["op"], f.get("variant", ""), f["symptom"])
                    classes.setdefault(key, []).append(f)
            continue
        if e.get("status") != "known" or "witness" not in e:
            continue
        ctx = Ctx()
        _worker_init(prop_id, quiet=True)
        run_one(mod, e["witness"], ctx)
        sys.stdout = sys.__stdout__
        still = any(explains(e, f) for f in ctx.failures)
        witness_fail[e["id"]] = still
        if not still and e["id"] not in matched:
            stale.append(e["id"])
        # a witness that fails in a way the entry does not explain is a violation
        for f in ctx.failures:
            if not any(explains(k, f) for k in known):
                key = (f["check"], f["op"], f.get("variant", ""), f["symptom"])
                classes.setdefault(key, []).append(f)
    return known, matched, witness_fail, stale, classes


def write_replay(prop_id, f):
    d = os.path.join(VERIF, "replays", prop_id)
    if os.environ.get("VERIF_NO_EVIDENCE"):
        d = os.path.join(os.environ.get("PYTTB_SRC", "/tmp"), "replays", prop_id)
    os.makedirs(d, exist_ok=True)
    body = {"property": prop_id, "check": f["check"], "op": f["op"],
            "variant": f.get("variant", ""), "symptom": f["symptom"],
            "detail": f.get("detail", ""), "case": f["case"]}
    h = hashlib.blake2b(json.dumps(body["case"], sort_keys=True, default=str).encode()
                        + f["op"].encode() + f["symptom"].encode(), digest_size=6).hexdigest()
    path = os.path.join(d, f"{h}.json")
    with open(path, "w") as fh:
        json.dump(body, fh, indent=1, default=str)
    return path


# --------------------------------------------------------------------------
# evidence


def write_evidence(mod, tier, seed, totals, wall, n_viol, known_matched, extra=None):
    path = os.path.join(VERIF, "evidence", f"{mod.ID}.json")
    if os.environ.get("VERIF_NO_EVIDENCE"):  # mutation demos run against a scratch copy
        path = os.path.join(os.environ.get("PYTTB_SRC", "/tmp"), f"evidence_{mod.ID}.json")
    os.makedirs(os.path.dirname(path), exist_ok=True)
    exhaustive = not totals.caps_hit
    cov = {
        "states": max(totals.states, 0),
        "transitions": totals.transitions,
        "traces_validated_against_impl": totals.executions,
        "samples": totals.samples[:6] or [{"note": "no cases"}],
        "evaluations": totals.executions,
        "distinct_nontrivial": totals.nontrivial,
        "inadmissible": totals.inadmissible,
        "rule": mod.RULE,
        "exhaustive": exhaustive,
        "bounds": mod.BOUNDS.get(tier, ""),
        "caps_hit": totals.caps_hit,
        "max_depth": totals.max_depth,
        "distinct_outcomes": len(totals.outcomes),
        "cases_per_subcheck": totals.per_check,
        "counters": dict(sorted(totals.counters.items())),
        "switch_sides_reached": sorted(totals.flags),
        "known_findings_matched": known_matched,
        "failures_total": len(totals.failures),
        "pyttb_src": os.environ.get("PYTTB_SRC", "/repo"),
    }
    if extra:
        cov.update(extra)
    ev = {
        "property_id": mod.ID,
        "tier": tier,
        "seed": seed,
        "level": "model_checking",
        "coverage": cov,
        "assumptions": list(mod.ASSUMPTIONS),
        "wall_s": round(wall, 2),
        "violations": n_viol,
    }
    try:
        import jsonschema

        schema = json.load(open("/root/.vp/EVIDENCE.schema.json"))
        jsonschema.validate(ev, schema)
    except ImportError:
        pass
    except FileNotFoundError:
        pass
    tmp = path + ".tmp"
    with open(tmp, "w") as fh:
        json.dump(ev, fh, indent=1, default=str)
    os.replace(tmp, path)
    return path


# --------------------------------------------------------------------------
# top level


def determinism_selftest(mod, tier, seed, n=12):
    """Run the first n cases twice (fresh ctx each) and compare everything the
    ctx recorded.  A difference is harness nondeterminism, not a violation."""
    if not hasattr(mod, "gen_cases"):
        return True, ""
    import itertools

    cases = list(itertools.islice(mod.gen_cases(tier, seed), n))
    _worker_init(mod.ID, quiet=True)
    sigs = []
    for _ in range(2):
        ctx = Ctx()
        for c in cases:
            run_one(mod, c, ctx)
        sigs.append((ctx.transitions, sorted(ctx.outcomes),
                     [(f["check"], f["op"], f["symptom"]) for f in ctx.failures]))
    sys.stdout = sys.__stdout__
    if sigs[0] != sigs[1]:
        return False, f"{sigs[0]!r:.300} != {sigs[1]!r:.300}"
    return True, ""


def main_check(prop_id, tier, seed, jobs):
    t0 = time.time()
    mod = load_prop(prop_id)
    totals = Totals()
    ok, msg = determinism_selftest(mod, tier, seed)
    if not ok:
        print(f"HARNESS-NONDETERMINISM property={prop_id} {msg}", file=sys.stderr)
        return 2
    if hasattr(mod, "explore"):
        mod.explore(tier, seed, jobs, totals)
    else:
        run_product(mod, tier, seed, jobs, totals)
    if hasattr(mod, "finalize"):
        mod.finalize(tier, seed, totals)
    known, matched, witness_fail, stale, classes = triage(prop_id, mod, totals)
    n_viol = 0
    lines = []
    for e in known:
        if e.get("status") != "known":
            continue
        if matched.get(e["id"]) or witness_fail.get(e["id"]):
            lines.append(f"KNOWN-FINDING: property={prop_id} {e.get('what', e['id'])}"
                         f" [{e['id']}; {matched.get(e['id'], 0)} explored cases]")
    for sid in stale:
        print(f"STALE-FINDING: property={prop_id} {sid} (witness passes, no explored case fails)",
              file=sys.stderr)
    for key, fl in sorted(classes.items(), key=lambda kv: str(kv[0])):
        fl.sort(key=lambda f: case_size(f["case"]))
        f = next((x for x in fl if "detail" in x), fl[0])
        f0 = fl[0]
        if "detail" not in f0:
            f0 = dict(f0, detail=f.get("detail", ""))
        path = write_replay(prop_id, f0)
        n_viol += 1
        lines.append(f"VIOLATION property={prop_id} replay={path}")
        print(f"  class check={key[0]} op={key[1]} variant={key[2]} symptom={key[3]}"
              f" cases={len(fl)} :: {f0.get('detail', '')[:300]}", file=sys.stderr)
    wall = time.time() - t0
    write_evidence(mod, tier, seed, totals, wall, n_viol,
                   {k: v for k, v in matched.items()})
    print(f"{prop_id} tier={tier} seed={seed} cases={totals.cases} states={totals.states} "
          f"transitions={totals.transitions} executions={totals.executions} "
          f"nontrivial={totals.nontrivial} outcomes={len(totals.outcomes)} "
          f"failures={len(totals.failures)} violations={n_viol} wall={wall:.1f}s"
          + (f" caps={totals.caps_hit}" if totals.caps_hit else ""))
    for ln in lines:
        print(ln)
    return 1 if n_viol else 0


def main_replay(prop_id, path):
    mod = load_prop(prop_id)
    body = json.load(open(path))
    case = body["case"]
    _worker_init(prop_id, quiet=False)
    ctx = Ctx()
    if isinstance(case, list) and hasattr(mod, "replay_history"):
        mod.replay_history(case, ctx)
    else:
        run_one(mod, case, ctx)
    print(f"replay {path}: transitions={ctx.transitions} failures={len(ctx.failures)}")
    for f in ctx.failures:
        print(f"  FAIL check={f['check']} op={f['op']} variant={f.get('variant','')} "
              f"symptom={f['symptom']} :: {f.get('detail','')}")
    return 1 if ctx.failures else 0
