"""Bounded-exhaustive explicit-state exploration of pyttb (see /verif/DESIGN.md)."""
