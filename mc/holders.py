"""Construction of real pyttb objects from JSON-able holder descriptors, and
the reference array each one denotes (computed by mc.refmodel, never by pyttb).

descriptor forms (all values explicit or derived deterministically):
  {"kind":"tensor",   "shape":[..], "vals":[F-order] | "pat":[0/1..], "vseed":int, "grown":bool (built by growth), "dtype":str (storage dtype)}
  {"kind":"sptensor", ... same ..., "order":[perm of the stored nonzeros] | null}
  {"kind":"ktensor",  "shape":[..], "rank":R, "weights":[..], "salt":int, "zero_col":[mode,col]|null, "fnorm":"unit"|absent}
  {"kind":"ttensor",  "shape":[..], "core_shape":[..], "core":"dense"|"sparse", "core_pat":[..]|null, "salt":int}
  {"kind":"sumtensor","parts":[descriptor, ...]}
"""

from __future__ import annotations

from math import prod

import numpy as np

from mc import refmodel as rm
from mc import space


def _vals(d):
    shape = tuple(d["shape"])
    if "vals" in d and d["vals"] is not None:
        return [float(v) for v in d["vals"]]
    return space.dense_values(shape, d.get("pat"), d.get("vseed", 0))


def sp_parts(shape, vals, order=None):
    """(subs list, vals list) of the nonzero cells in F order, re-ordered."""
    cl = rm.cells(tuple(shape))
    nz = [(cl[l], vals[l]) for l in range(len(vals)) if vals[l] != 0]
    if order is not None:
        assert sorted(order) == list(range(len(nz))), (order, len(nz))
        nz = [nz[i] for i in order]
    return [list(s) for s, _ in nz], [v for _, v in nz]


def make_sptensor(shape, subs, vals):
    import pyttb as ttb

    shape = tuple(shape)
    if len(subs) == 0:
        return ttb.sptensor(shape=shape)
    return ttb.sptensor(np.array(subs, dtype=int).reshape(len(subs), len(shape)),
                        np.array(vals, dtype=float).reshape(-1, 1), shape)


def ktensor_parts(d):
    shape = tuple(d["shape"])
    R = d["rank"]
    salt = d.get("salt", 0)
    w = [float(x) for x in d.get("weights") or [1.0] * R]
    fs = [np.array(space.int_matrix(s, R, salt=salt + 4 * n, seed=d.get("vseed", 0))) for n, s in enumerate(shape)]
    zc = d.get("zero_col")
    if zc:
        fs[zc[0]][:, zc[1]] = 0.0
    return np.array(w), _fnorm(fs, d)


def _fnorm(fs, d):
    """Optional column structure of the factor matrices ("fnorm": "unit" = every column divided by its 2-norm; the columns
    stay correlated, values are no longer integers: use only where the oracle has a tolerance)."""
    if d.get("fnorm") != "unit":
        return fs
    out = []
    for f in fs:
        f = np.array(f, dtype=float)
        nrm = np.sqrt(np.sum(f * f, axis=0))
        out.append(f / np.where(nrm > 0, nrm, 1.0))
    return out


def ttensor_parts(d):
    shape = tuple(d["shape"])
    cs = tuple(d["core_shape"])
    salt = d.get("salt", 0)
    cvals = space.dense_values(cs, d.get("core_pat"), d.get("vseed", 0) + 1)
    # small core values keep products exact
    cvals = [float(np.sign(v) * (1 + (abs(v) % 5))) if v else 0.0 for v in cvals]
    fs = [np.array(space.int_matrix(s, c, salt=salt + 3 * n, seed=d.get("vseed", 0))) for n, (s, c) in enumerate(zip(shape, cs))]
    return cs, cvals, _fnorm(fs, d)


def ref_array(d):
    k = d["kind"]
    if k in ("tensor", "sptensor"):
        if d.get("emptied"):
            return np.zeros(tuple(d["shape"]))
        return rm.arr(d["shape"], _vals(d))
    if k == "ktensor":
        w, fs = ktensor_parts(d)
        return rm.kruskal(w, fs)
    if k == "ttensor":
        cs, cvals, fs = ttensor_parts(d)
        return rm.tucker(rm.arr(cs, cvals), fs)
    if k == "sumtensor":
        return sum(ref_array(p) for p in d["parts"])
    raise ValueError(k)


def _cast(a, d):
    """Optional storage dtype of a dense / sparse holder ("dtype": "int64" | "int32" | "int8" | "bool" | ...).
    The reference array stays float64 (ref_array); the caller must only use dtypes that hold the values exactly."""
    dt = d.get("dtype")
    return a if not dt else a.astype(np.dtype(dt))


def build(d):
    """Fresh real pyttb object for the descriptor."""
    import pyttb as ttb

    k = d["kind"]
    shape = tuple(d["shape"]) if "shape" in d else None
    if k == "tensor" and d.get("dtype") and not d.get("grown"):
        a = _cast(rm.arr(shape, _vals(d)), d)
        return ttb.tensor(np.ascontiguousarray(a) if d.get("c_order") else np.asfortranarray(a))
    if k == "sptensor" and d.get("dtype"):
        subs, vals = sp_parts(shape, _vals(d), d.get("order"))
        if len(subs) == 0:
            return ttb.sptensor(shape=shape)
        return ttb.sptensor(np.array(subs, dtype=int).reshape(len(subs), len(shape)),
                            _cast(np.array(vals, dtype=float), d).reshape(-1, 1), shape)
    if k == "tensor":
        a = rm.arr(shape, _vals(d))
        if d.get("grown"):
            # a non-initial state: the tensor reached its shape by growth (the library then holds a C-ordered
            # buffer) and was filled in place afterwards
            T = ttb.tensor(np.zeros(tuple(1 for _ in shape)))
            T[tuple(s - 1 for s in shape)] = 0.0
            T[tuple(slice(None) for _ in shape)] = np.asfortranarray(a)
            return T
        if d.get("c_order"):
            return ttb.tensor(np.ascontiguousarray(a), copy=True)
        return ttb.tensor(np.asfortranarray(a))
    if k == "sptensor":
        subs, vals = sp_parts(shape, _vals(d), d.get("order"))
        S = make_sptensor(shape, subs, vals)
        if d.get("emptied"):
            # a non-initial state: every stored entry removed in place (the all-zero tensor, reached by a history; the
            # reference array of such a descriptor is all zero - see ref_array)
            S[tuple(slice(None) for _ in shape)] = 0
        return S
    if k == "ktensor":
        w, fs = ktensor_parts(d)
        return ttb.ktensor([f.copy(order="F") for f in fs], w.copy())
    if k == "ttensor":
        cs, cvals, fs = ttensor_parts(d)
        if d.get("core", "dense") == "sparse":
            subs, vals = sp_parts(cs, cvals)
            core = make_sptensor(cs, subs, vals)
        else:
            core = ttb.tensor(np.asfortranarray(rm.arr(cs, cvals)))
        return ttb.ttensor(core, [f.copy(order="F") for f in fs])
    if k == "sumtensor":
        return ttb.sumtensor([build(p) for p in d["parts"]])
    raise ValueError(k)


def nnz_of(d):
    return sum(1 for v in _vals(d) if v != 0)


def holders_of_array(shape, vals=None, pat=None, vseed=0, orders_upto=3, dense=True):
    """Every holder of one explicit array: dense tensor and sptensor in each
    stored order (all k! for k <= orders_upto, else identity/reverse/rotate/swap)."""
    base = {"shape": list(shape), "vseed": vseed}
    if vals is not None:
        base["vals"] = list(vals)
    elif pat is not None:
        base["pat"] = list(pat)
    out = []
    if dense:
        out.append(dict(base, kind="tensor"))
    k = nnz_of(dict(base, kind="tensor"))
    for o in space.orders(k, orders_upto):
        out.append(dict(base, kind="sptensor", order=list(o)))
    return out
