"""Reference semantics.  Plain Python / NumPy; does NOT import pyttb.

A tensor is a float64 ndarray of the tensor's shape (order-0 results are
ndarrays of shape ()).  Index formulas are written out as loops; contractions
use np.einsum / np.tensordot on the expanded arrays.
"""

from __future__ import annotations

import itertools
from math import prod

import numpy as np

LETTERS = "abcdefghij"
RLETTERS = "pqrstuvwxyz"


def cells(shape):
    return [tuple(reversed(t)) for t in itertools.product(*[range(s) for s in reversed(shape)])]


def lin_f(shape, sub):
    idx, mul = 0, 1
    for k, i in enumerate(sub):
        idx += i * mul
        mul *= shape[k]
    return idx


def arr(shape, vals_f):
    """ndarray of `shape` whose F-order l-th cell holds vals_f[l]."""
    shape = tuple(int(s) for s in shape)
    a = np.zeros(shape, dtype=float)
    for l, sub in enumerate(cells(shape)):
        a[sub] = vals_f[l]
    return a


def vals_f(a):
    """F-order value list of an ndarray (loop, no numpy order magic)."""
    a = np.asarray(a)
    return [a[sub] for sub in cells(a.shape)]


def kruskal(weights, factors):
    """sum_r w_r prod_n U_n[i_n, r]"""
    n = len(factors)
    spec = ",".join(LETTERS[k] + "r" for k in range(n)) + ",r->" + LETTERS[:n]
    return np.einsum(spec, *[np.asarray(f, dtype=float) for f in factors], np.asarray(weights, dtype=float))


def tucker(core, factors):
    """sum_j G[j] prod_n U_n[i_n, j_n]"""
    core = np.asarray(core, dtype=float)
    n = len(factors)
    spec = RLETTERS[:n] + "," + ",".join(LETTERS[k] + RLETTERS[k] for k in range(n)) + "->" + LETTERS[:n]
    return np.einsum(spec, core, *[np.asarray(f, dtype=float) for f in factors])


def matricize(a, rdims, cdims):
    """Entry X[i] sits at row l_R(i_R), column l_C(i_C) for the LISTED order
    of the row modes R and column modes C."""
    a = np.asarray(a)
    rs = [a.shape[d] for d in rdims]
    cs = [a.shape[d] for d in cdims]
    m = np.zeros((prod(rs), prod(cs)), dtype=a.dtype)
    for sub in cells(a.shape):
        r = lin_f(rs, [sub[d] for d in rdims])
        c = lin_f(cs, [sub[d] for d in cdims])
        m[r, c] = a[sub]
    return m


def unmatricize(m, tshape, rdims, cdims):
    tshape = tuple(tshape)
    a = np.zeros(tshape, dtype=np.asarray(m).dtype)
    rs = [tshape[d] for d in rdims]
    cs = [tshape[d] for d in cdims]
    for sub in cells(tshape):
        a[sub] = m[lin_f(rs, [sub[d] for d in rdims]), lin_f(cs, [sub[d] for d in cdims])]
    return a


def permute(a, order):
    """Y[i_{p(0)}, i_{p(1)}, ...] = X[i]"""
    a = np.asarray(a)
    shp = tuple(a.shape[p] for p in order)
    y = np.zeros(shp, dtype=a.dtype)
    for sub in cells(a.shape):
        y[tuple(sub[p] for p in order)] = a[sub]
    return y


def reshape_f(a, newshape):
    """Equal F-order linear index."""
    return arr(newshape, vals_f(a))


def squeeze(a):
    a = np.asarray(a)
    keep = [s for s in a.shape if s != 1]
    return reshape_f(a, keep) if keep else np.asarray(a.reshape(())[()])


def ttv(a, vectors_by_mode):
    """Contract every mode in the dict {mode: vector}."""
    a = np.asarray(a, dtype=float)
    n = a.ndim
    ops, spec = [a], [LETTERS[:n]]
    for m, v in sorted(vectors_by_mode.items()):
        ops.append(np.asarray(v, dtype=float))
        spec.append(LETTERS[m])
    out = "".join(LETTERS[k] for k in range(n) if k not in vectors_by_mode)
    return np.einsum(",".join(spec) + "->" + out, *ops)


def ttm(a, mats_by_mode, transpose=False):
    """Y = X x_n M (M is J x I_n; with transpose the given matrix is I_n x J)."""
    a = np.asarray(a, dtype=float)
    for m, M in sorted(mats_by_mode.items()):
        M = np.asarray(M, dtype=float)
        if transpose:
            M = M.T
        a = np.moveaxis(np.tensordot(M, a, axes=(1, m)), 0, m)
    return a


def mttkrp(a, factors, n, weights=None):
    """V[i_n, r] = sum_{i \\ i_n} X[i] w_r prod_{m != n} U_m[i_m, r]"""
    a = np.asarray(a, dtype=float)
    N = a.ndim
    R = np.asarray(factors[0 if n != 0 or N == 1 else 1]).shape[1] if N > 1 else (
        len(weights) if weights is not None else np.asarray(factors[0]).shape[1])
    ops, spec = [a], [LETTERS[:N]]
    for m in range(N):
        if m == n:
            continue
        ops.append(np.asarray(factors[m], dtype=float))
        spec.append(LETTERS[m] + "r")
    w = np.ones(R) if weights is None else np.asarray(weights, dtype=float)
    ops.append(w)
    spec.append("r")
    return np.einsum(",".join(spec) + "->" + LETTERS[n] + "r", *ops)


def ttt_outer(a, b):
    return np.multiply.outer(np.asarray(a, dtype=float), np.asarray(b, dtype=float))


def ttt(a, b, adims, bdims):
    return np.tensordot(np.asarray(a, dtype=float), np.asarray(b, dtype=float), axes=(list(adims), list(bdims)))


def innerprod(a, b):
    return float(np.sum(np.asarray(a, dtype=float) * np.asarray(b, dtype=float)))


def norm2(a):
    return float(np.sum(np.asarray(a, dtype=float) ** 2))


def contract(a, i, j):
    return np.trace(np.asarray(a, dtype=float), axis1=i, axis2=j)


def collapse(a, dims, fun=np.sum):
    a = np.asarray(a, dtype=float)
    dims = sorted(dims)
    rem = [k for k in range(a.ndim) if k not in dims]
    b = np.transpose(a, rem + dims).reshape([a.shape[k] for k in rem] + [-1])
    out = np.zeros([a.shape[k] for k in rem])
    for sub in (cells(out.shape) if rem else [()]):
        out[sub] = fun(b[sub])
    return out


def scale(a, factor, dims):
    """Y[i] = factor[i_dims] * X[i]"""
    a = np.asarray(a, dtype=float)
    factor = np.asarray(factor, dtype=float)
    dims = list(dims)
    fs = [a.shape[d] for d in dims]
    f = factor.reshape(fs, order="F") if factor.ndim != len(dims) or list(factor.shape) != fs else factor
    y = a.copy()
    for sub in cells(a.shape):
        y[sub] = a[sub] * f[tuple(sub[d] for d in dims)]
    return y


def symmetrize(a, groups):
    """Average over the product of the permutation groups of each mode group."""
    a = np.asarray(a, dtype=float)
    n = a.ndim
    total = np.zeros_like(a)
    count = 0
    per_group = [list(itertools.permutations(g)) for g in groups]
    for combo in itertools.product(*per_group):
        order = list(range(n))
        for g, p in zip(groups, combo):
            for src, dst in zip(g, p):
                order[src] = dst
        total = total + np.transpose(a, order)
        count += 1
    return total / count


def is_symmetric(a, groups):
    a = np.asarray(a)
    n = a.ndim
    for g in groups:
        for p in itertools.permutations(g):
            order = list(range(n))
            for src, dst in zip(g, p):
                order[src] = dst
            if not np.array_equal(np.transpose(a, order), a):
                return False
    return True


def khatrirao(mats):
    c = np.asarray(mats[0]).shape[1]
    out = np.zeros((prod(np.asarray(m).shape[0] for m in mats), c))
    for col in range(c):
        v = np.array([1.0])
        for m in mats:
            v = np.array([x * y for x in v for y in np.asarray(m)[:, col]])
        out[:, col] = v
    return out


def same(a, b):
    """Bitwise-level equality of two arrays: same shape, NaN positions equal,
    infinities equal with sign, other values equal."""
    a = np.asarray(a)
    b = np.asarray(b)
    if a.shape != b.shape:
        return False
    if a.dtype == bool or b.dtype == bool:
        return bool(np.array_equal(a.astype(bool), b.astype(bool)))
    a = a.astype(float)
    b = b.astype(float)
    return bool(np.array_equal(a, b, equal_nan=True))


def close(a, b, rtol=1e-9, scale_=None):
    a = np.asarray(a, dtype=float)
    b = np.asarray(b, dtype=float)
    if a.shape != b.shape:
        return False
    s = scale_ if scale_ is not None else max(1.0, float(np.max(np.abs(b))) if b.size else 1.0)
    return bool(np.all(np.abs(a - b) <= rtol * s))
