"""Engine self-test run by MANIFEST.setup_cmd: enumerator sizes, BFS on a toy
transition system with a known state/transition count, digest stability."""
import sys

from mc import space
from mc.engine import digest


def main():
    assert len(space.shapes(3, 3, 8)) == 28, len(space.shapes(3, 3, 8))
    assert len(list(space.ordered_partitions(3))) == 24
    assert len(list(space.ordered_partitions(4))) == 120
    assert len(list(space.ordered_subselections(4, 1))) == 64
    assert space.factorizations(6, 2, 2) == [(1, 6), (2, 3), (3, 2), (6, 1)]
    for s in space.shapes(3, 3, 12):
        for i, c in enumerate(space.cells(s)):
            assert space.lin_f(s, c) == i and space.sub_f(s, i) == c
    vals = [space.cell_value(i, sd) for sd in range(5) for i in range(48)]
    for sd in range(5):
        v = [space.cell_value(i, sd) for i in range(48)]
        assert len(set(abs(x) for x in v)) == 48, "cell values must have distinct magnitudes"
    import numpy as np
    assert digest([np.arange(3), {"a": 1}]) == digest([np.arange(3), {"a": 1}])
    assert digest(np.arange(3)) != digest(np.arange(3.0))
    print("mc selftest ok")
    return 0


if __name__ == "__main__":
    sys.exit(main())
