"""Abstraction functions: pyttb object -> plain data, read from the object's
own ATTRIBUTES (never through another pyttb conversion), well-formedness
predicates, and the leaf walker used by C05/C19."""

from __future__ import annotations

import numpy as np
from scipy import sparse as _sp

from mc import refmodel as rm


def pyshape(shape):
    return tuple(int(s) for s in shape)


def wf_sptensor(S, allow_explicit_zero=False):
    """List of well-formedness problems of a sparse tensor (empty list = ok)."""
    probs = []
    subs, vals, shape = S.subs, S.vals, pyshape(S.shape)
    if not isinstance(subs, np.ndarray) or not isinstance(vals, np.ndarray):
        return ["subs/vals not ndarrays"]
    k = 0 if vals.size == 0 else vals.shape[0]
    if subs.size == 0 and vals.size == 0:
        try:
            if S.nnz != 0:
                probs.append("nnz_mismatch")
        except Exception as e:  # noqa: BLE001
            probs.append("nnz_raises:" + type(e).__name__)
        return probs
    if not np.issubdtype(subs.dtype, np.integer):
        probs.append("subs_not_integer")
    if subs.ndim != 2 or subs.shape[1] != len(shape):
        probs.append("subs_shape")
        return probs
    if vals.ndim != 2 or vals.shape[1] != 1:
        probs.append("vals_shape")
    if subs.shape[0] != k:
        probs.append("count_mismatch")
        return probs
    if np.any(subs < 0) or np.any(subs >= np.array(shape)[None, :]):
        probs.append("subs_out_of_range")
    if len({tuple(r) for r in subs.tolist()}) != subs.shape[0]:
        probs.append("duplicate_subs")
    try:
        if S.nnz != k:
            probs.append("nnz_mismatch")
    except Exception as e:  # noqa: BLE001
        probs.append("nnz_raises:" + type(e).__name__)
    if not allow_explicit_zero and np.any(vals == 0):
        probs.append("explicit_zero")
    return probs


def wf_sptenmat(M, allow_explicit_zero=True):
    probs = []
    subs, vals = M.subs, M.vals
    shape = pyshape(M.shape)
    if vals.size == 0 and subs.size == 0:
        return probs
    if not np.issubdtype(subs.dtype, np.integer):
        probs.append("subs_not_integer")
    if subs.ndim != 2 or subs.shape[1] != 2:
        probs.append("subs_shape")
        return probs
    k = vals.shape[0]
    if subs.shape[0] != k:
        probs.append("count_mismatch")
        return probs
    if np.any(subs < 0) or np.any(subs >= np.array(shape)[None, :]):
        probs.append("subs_out_of_range")
    if len({tuple(r) for r in subs.tolist()}) != subs.shape[0]:
        probs.append("duplicate_subs")
    try:
        if M.nnz != k:
            probs.append("nnz_mismatch")
    except Exception as e:  # noqa: BLE001
        probs.append("nnz_raises:" + type(e).__name__)
    if not allow_explicit_zero and np.any(vals == 0):
        probs.append("explicit_zero")
    return probs


def scatter(shape, subs, vals):
    """Expanded array of a coordinate list (duplicates accumulate)."""
    shape = pyshape(shape)
    a = np.zeros(shape, dtype=np.asarray(vals).dtype if np.asarray(vals).size else float)
    if np.asarray(vals).size == 0:
        return a
    v = np.asarray(vals).reshape(-1)
    s = np.asarray(subs)
    if s.ndim != 2 or s.shape[0] != v.shape[0]:
        raise ValueError(f"ill-formed coordinate list subs{s.shape} vals{v.shape}")
    for row, x in zip(s.tolist(), v.tolist()):
        a[tuple(int(i) for i in row)] += x
    return a


def dense_of(obj):
    """The array an object denotes, computed from its attributes only."""
    import pyttb as ttb

    if isinstance(obj, ttb.tensor):
        d = np.asarray(obj.data)
        if pyshape(d.shape) != pyshape(obj.shape):
            if d.size == 0 and len(obj.shape) == 0:
                return np.zeros(())  # the empty tensor
            raise ValueError(f"tensor.data shape {d.shape} != shape {obj.shape}")
        return d
    if isinstance(obj, ttb.sptensor):
        return scatter(obj.shape, obj.subs, obj.vals)
    if isinstance(obj, ttb.ktensor):
        return rm.kruskal(obj.weights, obj.factor_matrices)
    if isinstance(obj, ttb.ttensor):
        return rm.tucker(dense_of(obj.core), obj.factor_matrices)
    if isinstance(obj, ttb.sumtensor):
        return sum(dense_of(p) for p in obj.parts)
    if isinstance(obj, ttb.tenmat):
        return np.asarray(obj.data)
    if isinstance(obj, ttb.sptenmat):
        return scatter(obj.shape, obj.subs, obj.vals)
    if _sp.issparse(obj):
        return np.asarray(obj.toarray())
    if isinstance(obj, np.ndarray):
        return obj
    if isinstance(obj, (int, float, bool, np.generic)):
        return np.asarray(obj)
    raise TypeError(f"cannot observe {type(obj)}")


def value_of(res):
    """Result of an operation as an ndarray, accepting the documented scalar
    forms (python float, 0-d / 1-element arrays) for order-0 results."""
    return np.asarray(dense_of(res))


def same_value(res, want, scalar_ok=True):
    """Exact comparison of a result with the reference; order-0 results may be
    returned as python scalars or size-1 arrays."""
    got = value_of(res)
    want = np.asarray(want)
    if scalar_ok and want.size == 1 and got.size == 1:
        return rm.same(got.reshape(()), want.reshape(()))
    return rm.same(got, want)


def kind_of(obj):
    return type(obj).__name__


# ---------------------------------------------------------------------------
# leaf walker (C05 / C19): every ndarray reachable from an object


def leaves(obj, prefix="", _seen=None, _depth=0):
    """Yield (path, ndarray) for every numpy array reachable from obj."""
    import pyttb as ttb

    if _seen is None:
        _seen = set()
    if _depth > 6 or obj is None:
        return
    if isinstance(obj, np.ndarray):
        if id(obj) not in _seen:
            _seen.add(id(obj))
            yield prefix or "array", obj
        return
    if _sp.issparse(obj):
        for nm in ("data", "row", "col", "indices", "indptr"):
            if hasattr(obj, nm):
                yield from leaves(getattr(obj, nm), f"{prefix}.{nm}", _seen, _depth + 1)
        return
    if isinstance(obj, (ttb.tensor,)):
        yield from leaves(obj.data, f"{prefix}.data", _seen, _depth + 1)
    elif isinstance(obj, ttb.sptensor):
        yield from leaves(obj.subs, f"{prefix}.subs", _seen, _depth + 1)
        yield from leaves(obj.vals, f"{prefix}.vals", _seen, _depth + 1)
    elif isinstance(obj, ttb.ktensor):
        yield from leaves(obj.weights, f"{prefix}.weights", _seen, _depth + 1)
        for i, f in enumerate(obj.factor_matrices):
            yield from leaves(f, f"{prefix}.factor_matrices[{i}]", _seen, _depth + 1)
    elif isinstance(obj, ttb.ttensor):
        yield from leaves(obj.core, f"{prefix}.core", _seen, _depth + 1)
        for i, f in enumerate(obj.factor_matrices):
            yield from leaves(f, f"{prefix}.factor_matrices[{i}]", _seen, _depth + 1)
    elif isinstance(obj, ttb.sumtensor):
        for i, p in enumerate(obj.parts):
            yield from leaves(p, f"{prefix}.parts[{i}]", _seen, _depth + 1)
    elif isinstance(obj, ttb.tenmat):
        yield from leaves(obj.data, f"{prefix}.data", _seen, _depth + 1)
        for nm in ("rindices", "cindices"):
            yield from leaves(getattr(obj, nm, None), f"{prefix}.{nm}", _seen, _depth + 1)
    elif isinstance(obj, ttb.sptenmat):
        for nm in ("subs", "vals", "rdims", "cdims"):
            yield from leaves(getattr(obj, nm, None), f"{prefix}.{nm}", _seen, _depth + 1)
    elif isinstance(obj, dict):
        for k in sorted(obj, key=str):
            yield from leaves(obj[k], f"{prefix}[{k!r}]", _seen, _depth + 1)
    elif isinstance(obj, (list, tuple)):
        for i, o in enumerate(obj):
            yield from leaves(o, f"{prefix}[{i}]", _seen, _depth + 1)
    elif hasattr(obj, "__dict__") and type(obj).__module__.startswith("pyttb"):
        for k in sorted(vars(obj)):
            yield from leaves(vars(obj)[k], f"{prefix}.{k}", _seen, _depth + 1)


def snapshot(objs):
    """Bit-level snapshot of all leaves of a list/dict of objects."""
    out = {}
    for path, a in leaves(objs):
        out[path] = (a.shape, str(a.dtype), a.tobytes())
    return out


def diff_snapshot(before, objs):
    """Paths whose bits changed (or that appeared/disappeared)."""
    after = snapshot(objs)
    changed = [p for p in before if p not in after or before[p] != after[p]]
    changed += [p for p in after if p not in before]
    return changed


def struct_of(obj):
    """Non-array attributes that the library exposes (shape etc.)."""
    import pyttb as ttb

    if isinstance(obj, (ttb.tensor, ttb.sptensor, ttb.ktensor, ttb.ttensor, ttb.sumtensor)):
        return ("shape", pyshape(obj.shape))
    if isinstance(obj, ttb.tenmat):
        return ("tenmat", pyshape(obj.tshape), tuple(int(i) for i in obj.rindices), tuple(int(i) for i in obj.cindices))
    if isinstance(obj, ttb.sptenmat):
        return ("sptenmat", pyshape(obj.tshape), tuple(int(i) for i in obj.rdims), tuple(int(i) for i in obj.cdims))
    return None
