"""C13 - GCP solvers keep the best model, respect bounds, sample validly and are reusable.

Sub-checks (the "check" key of a case):
  sampler   ENVIRONMENT explorer.  One case = one (operation, data tensor, requested counts); inside, every
            script of random draws of the stated scope is executed against the real sampler with numpy.random
            replaced by ScriptedRandom (each draw is a choice point "which cell / which stored entry / which
            Poisson count").  Invariants of the property on every returned sample.
  solver    SGD / Adam / Adagrad epoch loop with a scripted duck-typed sampler (every entry once, unit weights),
            so that f_est is the exact objective; the function handle is wrapped and records the objective and the
            model values at every epoch boundary ("true trace").  Data pool: count tensors of order 2..5.
  init      gcp_opt(init="random") under an enumerated numpy seed: unit weights, scaled to the norm of the data,
            non-negative, a function of the random stream only; no epochs -> returned unchanged.
  lbfgsb    scipy wrapper: final <= initial, final_f is the objective of the returned model, bounds, callback slot.
  reuse     HISTORY explorer (plain product of words): words of <= 3 solves on ONE optimizer object; the last
            solve is compared bit for bit with the same solve on a fresh object.
"""

import itertools
from math import ceil, prod

import numpy as np

from mc import holders as H
from mc import refmodel as rm
from mc import space
from mc.engine import CaseTimeout, digest, exc_symptom, short_tb

ID = "C13"
RULE = ("sampler: environment explorer - numpy.random.uniform/choice/poisson are scripted for one execution; "
        "Poisson counts are branched completely, then executions with <= 5 cell/entry draws are enumerated "
        "completely (product of the arities) and longer ones with <= 2 deviations from each default policy "
        "(cycle through the true zeros, cycle through all cells, constant cell c for every c); a replay whose "
        "choice-point signature differs from the recorded one is a hard error, a failing script is replayed a "
        "second time before it is reported.  solver/lbfgsb: product of the configuration lattice x data family, "
        "one real solve each, invariants evaluated on the recorded true trace; the stop tolerance f_est_tol is "
        "placed relative to the objective of the starting guess, on both sides of it; an epoch that ends with a "
        "non-finite objective (overflowed iterates) is a failed epoch in the reference stop rule, only a non-finite "
        "objective of the starting guess or the library's own 'Infinite gradient' error put a solve outside the "
        "quantifier.  Sparse data is enumerated as "
        "(zero pattern, stored order of the nonzeros) for every sampler entry point.  The data family further has the "
        "dimensions STORAGE DTYPE (float64 | integer stores of the same values | a boolean store of binary data) and "
        "ORDER (shapes of order 4 / 5 with the cell counts of the order 2 / 3 shapes): for each of them the whole "
        "sampler lattice (operation x zero pattern x counts x GCPSampler configuration) is repeated with a reduced script "
        "scope; the solver / lbfgsb / init / reuse data pool holds members of order 2..5, the driver slices (init, "
        "gcp_opt with an objective enum) also run on integer-stored counts.  reuse: every word of solves of "
        "length <= 3 over the problem alphabet on one optimizer object versus a fresh object.  Non-trivial: a "
        "sample with >= 1 entry / a solve with >= 1 completed epoch / a word of >= 2 solves.")
ASSUMPTIONS = [
    "the samplers obtain randomness only through numpy.random.uniform / choice / poisson (any other numpy.random "
    "entry point raises inside ScriptedRandom); a uniform draw u is mapped to a cell by the sampler itself, the "
    "script supplies the cell-centre value (i+0.5)/d per mode (plus, in the 'boundary' cases, the legal value 0.0)",
    "the scripted solver sampler returns every entry once with unit weights, hence estimate() is the exact "
    "objective; the reference objective is sum f(x, m) with f written out here (Gaussian (x-m)^2, Poisson "
    "m - x log(m + 1e-10)) on mc.refmodel.kruskal values",
    "finite data alphabet: zero patterns over generic integer cell values (samplers), a fixed pool of small count "
    "tensors and positive rational initial guesses (solvers); seeds only rotate these pools; storage dtypes are "
    "only bound to values they hold exactly (int8..int64: the signed odd integers / counts, bool: 0/1 data); the "
    "reference array is float64 in every case",
    "time traces and wall-clock fields are not compared",
]
BOUNDS = {
    "quick": "sampler (~0.88 M scripted executions): shapes (2,2) all 16 zero patterns and (2,3) 8 pattern classes, "
             "values = distinct signed odd integers; every operation that is handed an sptensor with >= 2 nonzeros is run "
             "on two stored orders of the nonzeros (column-major and reversed); uniform on dense and sparse holder "
             "n=0..6; nonzeros / zeros with and without replacement 0..available+2; stratified (nn, nz) on the cross "
             "{0,1} x 0..zeros+2 and 0..nnz+2 x {0,1} ((2,2)) resp. {0,1,2}^2 ((2,3)); semistrat {0,1,2}^2; GCPSampler: "
             "every valid function / gradient sampler choice {default, UNIFORM, STRATIFIED, SEMISTRATIFIED} x count "
             "forms {default, int, StratifiedCount} on 6 ((2,2)) resp. 5 ((2,3)) patterns, Poisson stratum sizes 0..2; "
             "scripts: complete for <= 5 ((2,3): 4) draws, <= 2 deviations from each of the 2+cells policies for <= 8 "
             "((2,3): 6) draws, <= 1 deviation beyond; boundary draw u=0.0 on (2,2); storage-dtype / order families "
             "(2,2) x {int64, bool}, (2,3) x int64, order-4 shape (2,1,2,1) float64: the same operation x pattern x count "
             "x GCPSampler lattice on the column-major stored order, scripts complete for <= 3 ((2,3): 2) draws and <= 1 "
             "deviation from each policy beyond. solver (12 420 solves): {SGD,Adam,"
             "Adagrad} x rate {1e-3,1e-1,10} x decay {.1,1} x max_fails 0..2 x max_iters 0..4 x epoch_iters {1,2} x "
             "{Gaussian, Poisson} x 5 pool members (3 of order 2 / 3 rotated by the seed + (2,2,2,2) + (2,1,2,3,2)), "
             "rank 2, + f_est_tol slice: tolerance on both sides of the objective "
             "F0 of the starting guess {0.5 F0, 0.98 F0 | 1.02 F0, 1e3 F0, +inf (already met by the start)} x rate "
             "{1e-3,1e-1,10} x max_fails {0,1} x max_iters {0,1,3} x epoch_iters {1,2}, and gcp_opt-driver slices "
             "(objective as tuple and as enum, dense and sparse data, enum also on int64-stored data); init: 5 members x "
             "{dense, sparse} x {float64, int64} x rank 1-3 x 2 "
             "numpy seeds. lbfgsb (400 solves): maxiter {0,1,2,5,40} x 2 "
             "losses x 5 members x rank {1,2} x mask {none, one hole} x {solve, gcp_opt}. reuse (2 540 words): 5 optimizer "
             "kinds (LBFGSB with / without user callback) x 2 configurations x {scripted, seeded real} sampler x all 155 "
             "words of length <= 3 over 5 problems (three sizes, orders 2 / 3 / 4, two ranks, two losses)",
    "thorough": "sampler (~8.3 M executions): (2,2) all patterns with the full (nn, nz) grid 0..nnz+2 x 0..zeros+2, (2,3) "
                "all 64 patterns (GCPSampler lattice on 8 classes), (2,2,2) 8 classes; two stored orders as in quick; "
                "Poisson counts 0..3; scripts "
                "complete for <= 5 draws ((2,2,2): 4), <= 2 deviations up to 12 / 7 / 6 draws; boundary draws on (2,2) "
                "and (2,3); storage-dtype / order families (2,2) x {int64, int32, int8, bool}, (2,3) x {int64, bool}, "
                "(2,2,2) x int64, order >= 4 shapes (2,1,2,1) x {float64, int64}, (1,2,1,3,1), (2,2,1,2): scripts complete "
                "for <= 4 / 3 / 2 draws (4 / 6 / 8 cells), <= 1 deviation beyond. solver: rate {1e-3,1e-2,1e-1,1,10} x "
                "decay {.1,.5,1} x max_fails 0..3 x "
                "max_iters 0..6 x epoch_iters {1,2,3} x rank {1,2} x 7 pool members (5 of order 2 / 3, order 4, order 5); "
                "f_est_tol slice as in quick with "
                "rate {1e-3,1e-2,1e-1,10} (118 944 solves; rate 10 x epoch_iters 3 on the order-4 member reaches "
                "NaN epochs). init: all 8 members x {float64, int64, int32}. lbfgsb: maxiter {0,1,2,3,5,10,40,"
                "200}. reuse: 6 problems incl. sparse data and order 4 (258 words), 3 configurations",
}
CHUNK = 1

EPS = 1e-10


# ===========================================================================
# owned nondeterminism


class ScriptDiverged(Exception):
    """A replayed prefix met a choice point that differs from the recorded signature."""


class UnscriptedDraw(Exception):
    pass


_GUARDED = ["random", "rand", "randn", "randint", "random_sample", "ranf", "sample", "normal", "permutation",
            "shuffle", "exponential", "binomial", "standard_normal", "random_integers", "beta", "gamma"]


class ScriptedRandom:
    """Replaces numpy.random.uniform / choice / poisson for the duration of one execution.

    Choice points (kind, arity):
      cell   one row of a uniform(0,1,(k, ndims)) request: which cell of the tensor the row hits
             (arity cells, +1 with `boundary`: first coordinate exactly 0.0)
      pick   one element of choice(a, size=k, replace=True)             (arity a)
      pickwo j-th element of choice(a, size=k, replace=False)           (arity a-j, index into the remaining)
      pois   one poisson(lam) request: the count                        (arity pois_max+1)
    `script` fixes the first len(script) choices, the policy decides the rest.
    """

    def __init__(self, shape, zero_cells, script=(), policy=("all",), expect_sig=None, boundary=False,
                 pois_max=2):
        self.shape = tuple(shape)
        self.ncells = prod(self.shape)
        self.cells = rm.cells(self.shape)
        self.zero_cells = list(zero_cells)
        self.script = list(script)
        self.policy = tuple(policy)
        self.expect_sig = expect_sig
        self.boundary = boundary
        self.pois_max = pois_max
        self.log = []  # (kind, arity, choice)
        self.kind_count = {}
        self.saved = None

    # -- choice machinery
    def _default(self, kind, arity, j):
        p = self.policy[0]
        if kind == "pois":
            if p == "zeros":
                return min(1, arity - 1)
            if p == "all":
                return min(2, arity - 1)
            return self.policy[1] % arity
        if p == "const":
            return self.policy[1] % arity
        if kind == "cell" and p == "zeros" and self.zero_cells:
            return self.zero_cells[j % len(self.zero_cells)]
        if kind == "pickwo":
            return 0
        return j % arity

    def _next(self, kind, arity):
        i = len(self.log)
        j = self.kind_count.get(kind, 0)
        self.kind_count[kind] = j + 1
        if self.expect_sig is not None and (i >= len(self.expect_sig) or tuple(self.expect_sig[i]) != (kind, arity)):
            raise ScriptDiverged(f"choice point {i}: ({kind},{arity}) but recorded "
                                 f"{self.expect_sig[i] if i < len(self.expect_sig) else 'end of execution'}")
        if i < len(self.script):
            c = self.script[i]
            if not 0 <= c < arity:
                raise ScriptDiverged(f"choice point {i}: scripted choice {c} outside arity {arity} of {kind}")
        else:
            c = self._default(kind, arity, j)
        self.log.append((kind, arity, c))
        return c

    # -- the scripted entry points
    def uniform(self, low=0.0, high=1.0, size=None):
        if low != 0 or high != 1 or size is None or np.ndim(size) != 1 or len(size) != 2 \
                or size[1] != len(self.shape):
            raise UnscriptedDraw(f"uniform({low},{high},{size})")
        k = int(size[0])
        out = np.zeros((k, len(self.shape)))
        arity = self.ncells + (1 if self.boundary else 0)
        for r in range(k):
            c = self._next("cell", arity)
            if c == self.ncells:  # legal boundary value of [0, 1)
                out[r] = [0.5 / d for d in self.shape]
                out[r, 0] = 0.0
            else:
                out[r] = [(s + 0.5) / d for s, d in zip(self.cells[c], self.shape)]
        return out

    def choice(self, a, size=None, replace=True, p=None):
        if p is not None or not isinstance(a, (int, np.integer)) or size is None or np.ndim(size) != 0:
            raise UnscriptedDraw(f"choice({a!r},{size!r},{replace},{p})")
        a, k = int(a), int(size)
        if a <= 0 and k > 0:
            raise ValueError("a must be greater than 0 unless no samples are taken")
        if replace:
            return np.array([self._next("pick", a) for _ in range(k)], dtype=int)
        if k > a:
            raise ValueError("Cannot take a larger sample than population when 'replace=False'")
        rest = list(range(a))
        out = []
        for _ in range(k):
            out.append(rest.pop(self._next("pickwo", len(rest))))
        return np.array(out, dtype=int)

    def poisson(self, lam=1.0, size=None):
        if size is not None:
            raise UnscriptedDraw(f"poisson({lam},{size})")
        if lam == 0:  # the law is a point mass: not a choice point
            return 0
        return int(self._next("pois", self.pois_max + 1))

    def _guard(self, name):
        def f(*a, **k):
            raise UnscriptedDraw(f"numpy.random.{name} called")
        return f

    def __enter__(self):
        self.saved = {n: getattr(np.random, n) for n in ["uniform", "choice", "poisson"] + _GUARDED
                      if hasattr(np.random, n)}
        np.random.uniform, np.random.choice, np.random.poisson = self.uniform, self.choice, self.poisson
        for n in _GUARDED:
            if n in self.saved:
                setattr(np.random, n, self._guard(n))
        return self

    def __exit__(self, *a):
        for n, f in self.saved.items():
            setattr(np.random, n, f)
        return False


def policies(ncells):
    return [("zeros",), ("all",)] + [("const", c) for c in range(ncells)]


def enumerate_scripts(run, ncells, max_complete=5, max_dev=2, long_len=10 ** 9, long_dev=2):
    """run(script, policy, expect_sig) -> log.  Yields (script, sig, mode) for every script of the scope:
    structural (Poisson) choice points come first and are branched completely; for each assignment of them the
    remaining choice points are enumerated completely when there are <= max_complete of them, otherwise with
    <= max_dev deviations from every default policy (<= long_dev when there are more than long_len of them)."""
    log0 = run([], ("all",), None)
    ns = 0
    while ns < len(log0) and log0[ns][0] == "pois":
        ns += 1
    struct_ar = [a for (_, a, _) in log0[:ns]]
    for sa in itertools.product(*[range(a) for a in struct_ar]):
        sa = list(sa)
        base = run(sa, ("all",), None)
        sig = [(k, a) for (k, a, _) in base]
        if any(k == "pois" for k, _ in sig[len(sa):]) or len(sig) < len(sa):
            raise ScriptDiverged(f"structural choice points are not a prefix: {sig}")
        ar = [a for _, a in sig[len(sa):]]
        n = len(ar)
        if n <= max_complete:
            for rest in itertools.product(*[range(a) for a in ar]):
                yield sa + list(rest), sig, "complete"
            continue
        seen = set()
        for pol in policies(ncells):
            lg = run(sa, pol, sig)
            dflt = [c for (_, _, c) in lg[len(sa):]]
            for k in range(0, (max_dev if n <= long_len else long_dev) + 1):
                for pos in itertools.combinations(range(n), k):
                    alts = [[v for v in range(ar[p]) if v != dflt[p]] for p in pos]
                    for alt in itertools.product(*alts):
                        q = list(dflt)
                        for p, v in zip(pos, alt):
                            q[p] = v
                        t = tuple(q)
                        if t not in seen:
                            seen.add(t)
                            yield sa + q, sig, "deviation"


# ===========================================================================
# case generation


def _pattern_classes(n):
    """8 classes of zero patterns for n cells (none, single first/last, sparse, half, dense, all-but-one, all)."""
    return space.patterns(n, complete_upto=0)


# cells -> (complete enumeration up to this many cell/entry draws, <= 2 deviations up to this many draws, 1 beyond)
EXPLORE = {"quick": {4: (5, 8), 6: (4, 6)}, "thorough": {4: (5, 12), 6: (5, 7), 8: (4, 6)}}
# reduced script scope of the storage-dtype / order >= 4 families
EXPLORE_REDUCED = {"quick": {4: (3, 3), 6: (2, 2)}, "thorough": {4: (4, 4), 6: (3, 3), 8: (2, 2)}}


SLICE = 2500


def _estimate_scripts(c):
    """Rough size of the script set of a sampler batch (used only to cut batches into slices)."""
    shape, pat, a, op = c["shape"], c["pat"], c["args"], c["op"]
    size, nnz = prod(shape), sum(pat)
    nzr = size - nnz
    ar = size + (1 if c["boundary"] else 0)
    mc, ll = c["max_complete"], c["long_len"]

    def count(n):
        if n <= mc:
            return ar ** n
        per = 1 + n * (ar - 1) + (n * (n - 1) // 2 * (ar - 1) ** 2 if n <= ll else 0)
        return per * (2 + size)

    def zdraws(k, repl=True):
        if nzr == 0 or k == 0:
            return 0
        nt = ceil(k * size / nzr)
        if not repl:
            if nt >= size:
                return 0
            nt = ceil(size * np.log(1 / (1 - nt / size)))
        return ceil(1.1 * nt)

    def ndraws(k):
        return 0 if (k == nnz or nnz == 0) else k

    def pair(x, dn, dz):
        return (dn, dz) if x is None else (tuple(x) if isinstance(x, list) else (x, x))

    if op == "uniform":
        return count(a["n"])
    if op == "nonzeros":
        return count(ndraws(a["n"]))
    if op == "zeros":
        return count(zdraws(a["n"], a["repl"]))
    if op == "stratified":
        return count(ndraws(a["nn"]) + zdraws(a["nz"]))
    if op == "semistrat":
        return count(ndraws(a["nn"]) + a["nz"])
    sparse = c["holder"] == "sptensor"
    kind = (a["fs"] if a["which"] == "function" else a["gs"]) or ("STRATIFIED" if sparse else "UNIFORM")
    cnt = a["fn"] if a["which"] == "function" else a["gn"]
    if kind == "UNIFORM" and sparse and a["which"] == "gradient":
        pm = c["pois_max"]
        return sum(count(ndraws(i) + zdraws(j)) for i in range(pm + 1) for j in range(pm + 1))
    if kind == "UNIFORM":
        return count(size if cnt is None else cnt)
    nn, nz = pair(cnt, nnz, min(nnz, nzr))
    return count(ndraws(nn) + (zdraws(nz) if kind == "STRATIFIED" else nz))


def _orders(nnz, reduced=False):
    """Stored orders of the nonzeros of an sptensor: column-major (sorted linear index) and its reverse."""
    return ("fwd", "rev") if nnz >= 2 and not reduced else ("fwd",)


def _sampler_cases(tier, seed):
    th = tier == "thorough"
    out = []
    cur = {"dtype": None, "reduced": False}   # storage dtype / exploration depth of the family being generated

    def add(op, shape, pat, args, holder="sptensor", order="fwd", boundary=False):
        ex = (EXPLORE_REDUCED if cur["reduced"] else EXPLORE)[tier][prod(shape)]
        c = {"check": "sampler", "op": op, "shape": list(shape), "pat": list(pat), "vseed": seed,
             "holder": holder, "order": order, "args": args, "boundary": boundary,
             "pois_max": 3 if th else 2, "max_complete": ex[0], "long_len": ex[1]}
        if cur["dtype"]:
            c["dtype"] = cur["dtype"]
        # big batches are cut into slices scripts[i::k] (load balancing only; the union is the whole batch)
        k = max(1, ceil(_estimate_scripts(c) / SLICE))
        if k == 1:
            out.append(c)
        else:
            out.extend(dict(c, slice=[i, k]) for i in range(k))

    # (shape, storage dtype, reduced script exploration).  The first block is the float64 family of order <= 3 with
    # the full script scope; the second block repeats the WHOLE operation x pattern x count lattice for the other
    # storage dtypes of the data (integer / boolean stores: the natural storage of count / binary data) and for
    # shapes of order >= 4 (same cell counts, singleton modes), on the column-major stored order, with the
    # reduced script scope EXPLORE_REDUCED.
    families = [((2, 2), None, False), ((2, 3), None, False)] + ([((2, 2, 2), None, False)] if th else [])
    families += [((2, 2), "int64", True), ((2, 2), "bool", True), ((2, 3), "int64", True),
                 ((2, 1, 2, 1), None, True)]
    if th:
        families += [((2, 2), "int32", True), ((2, 2), "int8", True), ((2, 3), "bool", True),
                     ((2, 1, 2, 1), "int64", True), ((1, 2, 1, 3, 1), None, True), ((2, 2, 2), "int64", True),
                     ((2, 2, 1, 2), None, True)]
    for shape, dtype, reduced in families:
        cur["dtype"], cur["reduced"] = dtype, reduced
        n = prod(shape)
        full_pats = n <= 4 or (th and n <= 6)
        pats = space.patterns(n, 6) if full_pats else _pattern_classes(n)
        small = n <= 4
        # uniform: values only - three patterns suffice
        for pat in (pats[0], pats[len(pats) // 2], pats[-1]):
            for holder in ("tensor", "sptensor"):
                for order in (_orders(sum(pat), reduced) if holder == "sptensor" else ("fwd",)):
                    for cnt in range(0, n + 3):
                        if cnt > 6 and not th:
                            continue
                        add("uniform", shape, pat, {"n": cnt}, holder=holder, order=order)
        for pat in pats:
            nnz = sum(pat)
            nzr = n - nnz
            # stored order of the nonzeros: a dimension of EVERY operation that is handed the sptensor
            orders = _orders(nnz, reduced)
            for order in orders:
                for cnt in range(0, nnz + 3):
                    for repl in (True, False):
                        add("nonzeros", shape, pat, {"n": cnt, "repl": repl}, order=order)
            for cnt in range(0, nzr + 3):
                for repl in (True, False):
                    if not small and cnt > 3 and not th:
                        continue
                    add("zeros", shape, pat, {"n": cnt, "repl": repl})
            # stratified / semistrat count grids
            if small and th:
                grid = [(a, b) for a in range(0, nnz + 3) for b in range(0, nzr + 3)]
            elif small:
                grid = sorted({(a, b) for a in (0, 1) for b in range(0, nzr + 3)}
                              | {(a, b) for a in range(0, nnz + 3) for b in (0, 1)})
            elif not th:
                grid = [(a, b) for a in (0, 1, 2) for b in (0, 1, 2)]
            else:
                grid = sorted({(1, b) for b in (0, 1, 2, nzr, nzr + 1)} | {(a, 1) for a in (0, 2, nnz, nnz + 1)}
                              | {(0, 0), (2, 2)})
            for (a, b) in grid:
                for order in orders:
                    add("stratified", shape, pat, {"nn": a, "nz": b}, order=order)
            sgrid = [(a, b) for a in range(0, 3) for b in range(0, 3)] if small else [(0, 1), (1, 0), (1, 1), (2, 2)]
            for (a, b) in sgrid:
                for order in orders:
                    add("semistrat", shape, pat, {"nn": a, "nz": b}, order=order)
            # GCPSampler: configuration lattice
            cls = _pattern_classes(n)
            if small and not th and pat not in (pats[0], pats[2], pats[5], pats[10], pats[12], pats[15]):
                continue
            if not small and pat not in ((cls[0], cls[1], cls[3], cls[-2], cls[-1]) if not th or n > 6 else cls):
                continue
            cnt_forms = [None, 1, 2, [1, 2], [2, 0]] if small else [None, 2, [1, 2]]
            ucnt_forms = [None, 1, 3] if small else [None, 2]
            for order in orders:
                for fs in (None, "UNIFORM", "STRATIFIED"):
                    for fn in (ucnt_forms if fs == "UNIFORM" else cnt_forms):
                        add("gcp", shape, pat, {"fs": fs, "fn": fn, "gs": None, "gn": None, "which": "function"},
                            order=order)
                for gs in (None, "UNIFORM", "STRATIFIED", "SEMISTRATIFIED"):
                    for gn in (ucnt_forms if gs == "UNIFORM" else cnt_forms):
                        add("gcp", shape, pat, {"fs": None, "fn": None, "gs": gs, "gn": gn, "which": "gradient"},
                            order=order)
            for (fn, gn) in ([(None, None), (2, 3)] if small else [(None, None)]):
                for which in ("function", "gradient"):
                    add("gcp", shape, pat, {"fs": None, "fn": fn, "gs": None, "gn": gn, "which": which},
                        holder="tensor")
    cur["dtype"], cur["reduced"] = None, False
    # boundary draws: the legal value u = 0.0
    for shape in ([(2, 2), (2, 3)] if th else [(2, 2)]):
        n = prod(shape)
        for pat in _pattern_classes(n)[1:-1] if n > 4 else [(0, 1, 1, 0), (1, 0, 0, 0), (0, 1, 1, 1)]:
            add("uniform", shape, pat, {"n": 2}, holder="tensor", boundary=True)
            add("uniform", shape, pat, {"n": 2}, holder="sptensor", boundary=True)
            add("zeros", shape, pat, {"n": 1, "repl": True}, boundary=True)
            add("stratified", shape, pat, {"nn": 1, "nz": 1}, boundary=True)
            add("semistrat", shape, pat, {"nn": 1, "nz": 2}, boundary=True)
    out.sort(key=lambda c: (c["boundary"], prod(c["shape"])))
    return out


# data pool for the solvers: small count tensors (F-order values)
POOL = [
    ((2, 3), [1, 0, 2, 3, 0, 1]),
    ((3, 2, 2), [0, 1, 2, 0, 3, 1, 0, 0, 1, 2, 0, 4]),
    ((2, 2), [2, 0, 1, 3]),
    ((3, 3), [1, 0, 0, 2, 4, 0, 0, 1, 3]),
    ((2, 2, 2), [1, 0, 0, 2, 0, 3, 1, 0]),
    ((2, 3), [0, 2, 1, 0, 0, 5]),
    # order >= 4 (appended: the indices above are referred to by PROBLEMS and by recorded witnesses)
    ((2, 2, 2, 2), [1, 0, 2, 0, 0, 3, 1, 0, 0, 1, 0, 2, 4, 0, 0, 1]),
    ((2, 1, 2, 3, 2), [0, 2, 1, 0, 0, 3, 1, 0, 2, 0, 0, 1, 1, 0, 0, 2, 0, 1, 3, 0, 0, 1, 0, 4]),
]
N_LOW = 6    # members of order 2 and 3
HIGH = [6, 7]  # members of order 4 and 5


def _members(tier, seed):
    """Pool members of a tier: a seed-rotated window of the order 2 / 3 members plus the members of order 4 and 5."""
    k = 5 if tier == "thorough" else 3
    low = [(seed + i) % N_LOW for i in range(k)]
    return low + HIGH


# f_est_tol as a multiple of the objective F0 of the starting guess (towards the better side for a factor < 1,
# towards the worse side for a factor > 1, whatever the sign of F0); "inf": met by every finite value
TOLS = [0.98, 0.5, 1.02, 1e3, "inf"]


def _tol_value(tol, F0):
    if tol is None:
        return -np.inf
    if tol == "inf":
        return np.inf
    return F0 * tol if F0 > 0 else F0 / tol


def _solver_cases(tier, seed):
    th = tier == "thorough"
    rates = [1e-3, 1e-2, 1e-1, 1.0, 10.0] if th else [1e-3, 1e-1, 10.0]
    decays = [0.1, 0.5, 1.0] if th else [0.1, 1.0]
    ranks = [1, 2] if th else [2]
    out = []
    for opt in ("SGD", "Adam", "Adagrad"):
        for loss in ("GAUSSIAN", "POISSON"):
            for d in _members(tier, seed):
                for R in ranks:
                    for rate in rates:
                        for decay in decays:
                            out.append({"check": "solver", "opt": opt, "loss": loss, "data": d, "rank": R,
                                        "rate": rate, "decay": decay, "seed": seed,
                                        "max_fails": list(range(0, 4 if th else 3)),
                                        "max_iters": list(range(0, 7 if th else 5)),
                                        "epoch_iters": [1, 2, 3] if th else [1, 2],
                                        "tol": [None], "via": ["solve"]})
    # slices: f_est_tol stop, the gcp_opt driver.  The tolerance is placed on BOTH sides of the objective of the
    # starting guess (TOLS): below it (reached, if at all, by a successful epoch) and above it (already met by the
    # start - a warm start - so that it is also met by an epoch that made the model worse).
    for opt in ("SGD", "Adam", "Adagrad"):
        for loss in ("GAUSSIAN", "POISSON"):
            for d in _members(tier, seed):
                for rate in ([1e-3, 1e-2, 1e-1, 10.0] if th else [1e-3, 1e-1, 10.0]):
                    out.append({"check": "solver", "opt": opt, "loss": loss, "data": d, "rank": 2, "rate": rate,
                                "decay": 0.1, "seed": seed, "max_fails": [0, 1], "max_iters": [0, 1, 3],
                                "epoch_iters": [1, 2], "tol": TOLS, "via": ["solve"]})
                    out.append({"check": "solver", "opt": opt, "loss": loss, "data": d, "rank": 2, "rate": rate,
                                "decay": 0.1, "seed": seed, "max_fails": [0, 1], "max_iters": [0, 2, 3],
                                "epoch_iters": [2], "tol": [None], "via": ["gcp_tuple", "gcp_enum", "gcp_enum_int"]})
    return out


def _lbfgsb_cases(tier, seed):
    th = tier == "thorough"
    out = []
    for loss in ("GAUSSIAN", "POISSON"):
        for d in _members(tier, seed):
            for R in (1, 2):
                for mask in (None, "hole"):
                    for via in ("solve", "gcp") + (("gcp_np",) if mask else ()):  # gcp_np: the mask as a numpy array
                        out.append({"check": "lbfgsb", "loss": loss, "data": d, "rank": R, "mask": mask, "via": via,
                                    "seed": seed,
                                    "maxiter": [0, 1, 2, 3, 5, 10, 40, 200] if th else [0, 1, 2, 5, 40]})
    # deviations from the default answers of the wrapped scipy routine: the line search gives up after maxls trial
    # points (scipy then falls back to the last accepted iterate, which is NOT the last vector it evaluated) and the
    # evaluation budget maxfun ends the run between two iterates
    devs = [{"maxls": 1}, {"maxls": 2}, {"maxfun": 2}, {"maxls": 2, "maxfun": 5}]
    if th:
        devs += [{"maxls": 3}, {"maxfun": 1}, {"maxfun": 3}, {"maxls": 1, "maxfun": 3}, {"m": 1}, {"m": 1, "maxls": 2}]
    for c in list(out):
        if c["via"] == "solve" or th:
            for dv in devs:
                out.append(dict(c, opts=dv, maxiter=[1, 2, 5, 40] if not th else [1, 2, 3, 5, 10, 40]))
    return out


def _init_cases(tier, seed):
    out = []
    for d in range(len(POOL)) if tier == "thorough" else _members(tier, seed):
        for sparse in (False, True):
            for R in (1, 2, 3):
                for dtype in (None, "int64") + (("int32",) if tier == "thorough" else ()):
                    c = {"check": "init", "data": d, "sparse": sparse, "rank": R, "seed": seed,
                         "np_seeds": list(range(4 if tier == "thorough" else 2))}
                    if dtype:
                        c["dtype"] = dtype
                    out.append(c)
    return out


PROBLEMS = {
    "P1": {"data": 0, "loss": "GAUSSIAN", "rank": 2, "salt": 0},
    "P2": {"data": 5, "loss": "POISSON", "rank": 2, "salt": 3},
    "P3": {"data": 1, "loss": "GAUSSIAN", "rank": 2, "salt": 1},
    "P4": {"data": 0, "loss": "GAUSSIAN", "rank": 1, "salt": 2},
    "P5": {"data": 3, "loss": "POISSON", "rank": 2, "salt": 4, "sparse": True},
    "P6": {"data": 6, "loss": "GAUSSIAN", "rank": 2, "salt": 5},   # order 4: another NUMBER of factor matrices
    # same shape as P1 / P2, sparse storage, two different non-zero patterns (solver-built default sampler)
    "P7": {"data": 0, "loss": "GAUSSIAN", "rank": 2, "salt": 6, "sparse": True},
    "P8": {"data": 5, "loss": "GAUSSIAN", "rank": 2, "salt": 7, "sparse": True},
}
REUSE_CFG = {
    "calm": {"rate": 1e-2, "decay": 0.1, "max_fails": 1, "max_iters": 3, "epoch_iters": 2, "maxiter": 3},
    "failing": {"rate": 10.0, "decay": 0.1, "max_fails": 2, "max_iters": 3, "epoch_iters": 1, "maxiter": 1},
    "long": {"rate": 1e-1, "decay": 0.5, "max_fails": 0, "max_iters": 4, "epoch_iters": 3, "maxiter": 6},
    # LBFGSB only: run to convergence, so that the (size dependent) default tolerances decide where it stops
    "converge": {"rate": 1e-2, "decay": 0.1, "max_fails": 1, "max_iters": 3, "epoch_iters": 2, "maxiter": 200},
}


def _reuse_cases(tier, seed):
    th = tier == "thorough"
    alphabet = ["P1", "P2", "P3", "P4", "P6"] + (["P5"] if th else [])
    cfgs = ["calm", "failing"] + (["long"] if th else [])
    out = []
    for L in (1, 2, 3):
        for word in itertools.product(alphabet, repeat=L):
            for opt in ("SGD", "Adam", "Adagrad", "LBFGSB", "LBFGSB_cb"):
                for cfg in cfgs + (["converge"] if (opt.startswith("LBFGSB") and L <= 2) else []):
                    modes = ["full"] if opt.startswith("LBFGSB") else ["full", "seeded"]
                    for mode in modes:
                        out.append({"check": "reuse", "opt": opt, "cfg": cfg, "mode": mode, "word": list(word),
                                    "seed": seed})
    # no sampler argument: the solver builds its default sampler from the data of *this* solve; problems of one
    # shape in dense and two sparse forms, so that anything kept from an earlier solve's data would show
    for L in (1, 2, 3):
        for word in itertools.product(["P1", "P7", "P8"], repeat=L):
            for opt in ("SGD", "Adam", "Adagrad"):
                for cfg in cfgs:
                    out.append({"check": "reuse", "opt": opt, "cfg": cfg, "mode": "default", "word": list(word),
                                "seed": seed})
    return out


def gen_cases(tier, seed):
    # simplest first: single solves, then samplers (batches), then histories
    sol = _solver_cases(tier, seed)
    lb = _lbfgsb_cases(tier, seed)
    sam = _sampler_cases(tier, seed)
    reu = _reuse_cases(tier, seed)
    yield from sol[:4]
    yield from _init_cases(tier, seed)
    yield from lb[:2]
    yield from sam[:4]
    yield from reu[:2]
    # interleave the expensive sampler batches with the rest so that workers stay balanced
    rest = sol[4:] + lb[2:] + reu[2:]
    sam = sam[4:]
    # big sampler batches first (longest processing time first keeps the tail short)
    yield from sam
    yield from rest


# ===========================================================================
# sampler executions


def _sampler_data(case):
    shape = tuple(case["shape"])
    if case.get("dtype") == "bool":
        # binary data: the only values a boolean store holds exactly
        vals = [float(bool(p)) for p in case["pat"]]
    else:
        vals = space.dense_values(shape, case["pat"], case.get("vseed", 0))
    A = rm.arr(shape, vals)
    return shape, vals, A


def _build_data(case, shape, vals):
    import pyttb as ttb

    if case.get("dtype"):
        # storage dtype of the holder (the reference array stays float64; the values are exact in the dtype)
        nnz = sum(1 for v in vals if v != 0)
        d = {"kind": case["holder"], "shape": list(shape), "vals": list(vals), "dtype": case["dtype"],
             "order": list(range(nnz))[::-1] if case.get("order") == "rev" else None}
        data = H.build(d)
        if nnz and (data.vals if case["holder"] == "sptensor" else data.data).dtype != np.dtype(case["dtype"]):
            raise AssertionError("holder does not have the requested storage dtype")
        return data
    if case["holder"] == "tensor":
        return ttb.tensor(np.asfortranarray(rm.arr(shape, vals)))
    subs, v = H.sp_parts(shape, vals)
    if case.get("order") == "rev":
        subs, v = subs[::-1], v[::-1]
    return H.make_sptensor(shape, subs, v)


def _nz_idx(shape, vals):
    return np.array([l for l, v in enumerate(vals) if v != 0], dtype=int)


def _call_sampler(case, data, shape, vals):
    """Returns a thunk running the real operation."""
    from pyttb.gcp import samplers as S

    op, a = case["op"], case["args"]
    if op == "uniform":
        return lambda: S.uniform(data, a["n"])
    if op == "nonzeros":
        return lambda: S.nonzeros(data, a["n"], with_replacement=a["repl"])
    if op == "zeros":
        return lambda: S.zeros(data, _nz_idx(shape, vals), a["n"], with_replacement=a["repl"])
    if op == "stratified":
        return lambda: S.stratified(data, _nz_idx(shape, vals), a["nn"], a["nz"])
    if op == "semistrat":
        return lambda: S.semistrat(data, a["nn"], a["nz"])
    if op == "gcp":
        def conv(x):
            return S.StratifiedCount(num_nonzeros=x[0], num_zeros=x[1]) if isinstance(x, list) else x

        def thunk():
            g = S.GCPSampler(data,
                             function_sampler=None if a["fs"] is None else S.Samplers[a["fs"]],
                             function_samples=conv(a["fn"]),
                             gradient_sampler=None if a["gs"] is None else S.Samplers[a["gs"]],
                             gradient_samples=conv(a["gn"]))
            smp = g.function_sample(data) if a["which"] == "function" else g.gradient_sample(data)
            return smp + (np.asarray(g.crng),)
        return thunk
    raise ValueError(op)


def _execute(case, script, policy, expect_sig):
    shape, vals, A = _sampler_data(case)
    data = _build_data(case, shape, vals)
    zero_cells = [l for l, v in enumerate(vals) if v == 0]
    thunk = _call_sampler(case, data, shape, vals)
    sr = ScriptedRandom(shape, zero_cells, script, policy, expect_sig, case.get("boundary", False),
                        case.get("pois_max", 2))
    with sr:
        try:
            out = thunk()
        except (ScriptDiverged, UnscriptedDraw, CaseTimeout):
            raise
        except Exception as e:  # noqa: BLE001
            out = e
    return out, sr.log, A


def _resolve(case, A, log):
    """Reference side: what the operation was asked for.  Returns a dict
    {blocks: [(kind, expected_len | None, weight_total)], admissible, must_raise, may_raise, crng}"""
    op, a = case["op"], case["args"]
    size = A.size
    nnz = int(np.count_nonzero(A))
    nzr = size - nnz
    ncells = size
    # a boundary draw (first coordinate exactly 0.0, the others inside index 0) lies in cell 0
    cell_draws = [0 if c == ncells else c for (k, _, c) in log if k == "cell"]
    Af = [A[sub] for sub in rm.cells(A.shape)]
    zero_hits = [c for c in cell_draws if Af[c] == 0]
    r = {"may_raise": False, "must_raise": False, "crng": None, "blocks": None, "kind": "triple",
         "req_nz": None, "zero_hits": len(zero_hits)}

    def strat_blocks(nn, nz, repl=True):
        got_z = min(nz, len(zero_hits) if repl else len(set(zero_hits)))
        r["req_nz"] = nz
        return [("nonzero", nn, nnz), ("zero", got_z, nzr)]

    if op == "uniform":
        r["blocks"] = [("any", a["n"], size)]
    elif op == "nonzeros":
        r["kind"] = "pair"
        if a["repl"]:
            r["blocks"] = [("nonzero", a["n"], None)]
            r["may_raise"] = nnz == 0 and a["n"] > 0
        else:
            r["blocks"] = [("nonzero_distinct", a["n"], None)]
            r["must_raise"] = a["n"] > nnz
    elif op == "zeros":
        r["kind"] = "subs"
        if a["repl"]:
            r["blocks"] = [("zero", min(a["n"], len(zero_hits)), None)]
        else:
            r["blocks"] = [("zero_distinct", min(a["n"], len(set(zero_hits))), None)]
            r["must_raise"] = a["n"] > nzr
            # documented limitation of the coupon-collector estimate
            r["may_raise"] = nzr > 0 and ceil(a["n"] * size / nzr) >= size
    elif op == "stratified":
        r["blocks"] = strat_blocks(a["nn"], a["nz"])
        r["may_raise"] = nnz == 0 and a["nn"] > 0
    elif op == "semistrat":
        r["blocks"] = [("nonzero", a["nn"], nnz), ("unconfirmed", a["nz"], size)]
        r["may_raise"] = nnz == 0 and a["nn"] > 0
    elif op == "gcp":
        sparse = case["holder"] == "sptensor"

        def pair(x, dn, dz):
            if x is None:
                return dn, dz
            if isinstance(x, list):
                return x[0], x[1]
            return x, x

        if a["which"] == "function":
            fs = a["fs"] or ("STRATIFIED" if sparse else "UNIFORM")
            if fs == "STRATIFIED":
                nn, nz = pair(a["fn"], nnz, min(nnz, nzr))
                r["blocks"] = strat_blocks(nn, nz)
                r["may_raise"] = nnz == 0 and nn > 0
            else:
                r["blocks"] = [("any", size if a["fn"] is None else a["fn"], size)]
            r["crng"] = []
        else:
            gs = a["gs"] or ("STRATIFIED" if sparse else "UNIFORM")
            if gs == "STRATIFIED":
                nn, nz = pair(a["gn"], nnz, min(nnz, nzr))
                r["blocks"] = strat_blocks(nn, nz)
                r["may_raise"] = nnz == 0 and nn > 0
                r["crng"] = []
            elif gs == "SEMISTRATIFIED":
                nn, nz = pair(a["gn"], nnz, min(nnz, nzr))
                r["blocks"] = [("nonzero", nn, nnz), ("unconfirmed", nz, size)]
                r["may_raise"] = nnz == 0 and nn > 0
                r["crng"] = list(range(nn))
            elif sparse:
                # stratum sizes are Poisson draws (a zero rate is a point mass at 0)
                n_total = size if a["gn"] is None else a["gn"]
                ps = [c for (k, _, c) in log if k == "pois"]
                it = iter(ps)
                nn = next(it, 0) if n_total * nnz > 0 else 0
                nz = next(it, 0) if n_total * nzr > 0 else 0
                r["blocks"] = strat_blocks(nn, nz)
                r["crng"] = []
            else:
                r["blocks"] = [("any", size if a["gn"] is None else a["gn"], size)]
                r["crng"] = []
    return r


def _check_sample(case, out, log, A):
    """Returns a list of (op, symptom, detail, variant)."""
    op = case["op"]
    name = {"gcp": "GCPSampler." + case["args"].get("which", "") + "_sample"}.get(op, "samplers." + op)
    variant = case["holder"] + (":boundary" if case.get("boundary") else "")
    if op == "gcp":
        a = case["args"]
        variant += ":" + str(a["fs"] if a["which"] == "function" else a["gs"])
    fails = []
    r = _resolve(case, A, log)
    _check_sample.last = r
    if isinstance(out, Exception):
        if (r["may_raise"] or r["must_raise"]) and isinstance(out, ValueError):
            return fails, "rejected"
        fails.append((name, exc_symptom(out), short_tb(out), variant))
        return fails, "exception"
    if r["must_raise"]:
        fails.append((name, "accepted", "a request for more distinct entries than exist was answered", variant))
        return fails, "accepted"
    crng = None
    if r["kind"] == "triple":
        if op == "gcp":
            subs, vals, wgts, crng = out
        else:
            subs, vals, wgts = out
    elif r["kind"] == "pair":
        subs, vals = out
        wgts = None
    else:
        subs, vals, wgts = out, None, None
    subs = np.asarray(subs)
    nd = A.ndim
    if subs.ndim != 2 or subs.shape[1] != nd or not np.issubdtype(subs.dtype, np.integer):
        if not (subs.size == 0 and sum(b[1] for b in r["blocks"]) == 0):
            fails.append((name, "malformed:subs", f"subs shape {subs.shape} dtype {subs.dtype}", variant))
            return fails, "malformed"
        subs = np.zeros((0, nd), dtype=int)
    n = subs.shape[0]
    lens = {"subs": n}
    if vals is not None:
        vals = np.asarray(vals)
        lens["vals"] = int(vals.size)
    if wgts is not None:
        wgts = np.asarray(wgts)
        lens["weights"] = int(wgts.size)
    if len(set(lens.values())) != 1:
        fails.append((name, "malformed:length_mismatch", f"{lens} (requested {case['args']}, draws "
                      f"{[c for (_, _, c) in log]})", variant))
        return fails, "malformed"
    n_exp = sum(b[1] for b in r["blocks"])
    if n != n_exp:
        fails.append((name, "wrong_count", f"{n} samples, expected {n_exp} = {[b[:2] for b in r['blocks']]} "
                      f"(draws {[c for (_, _, c) in log]})", variant))
        return fails, "wrong_count"
    if vals is not None and not (vals.shape == (n,) or (n == 1 and vals.size == 1)):
        fails.append((name, "malformed:vals_shape",
                      f"values have shape {vals.shape} for {n} samples (weights {None if wgts is None else wgts.shape}): "
                      "estimate() broadcasts a column against the model values", variant))
    if wgts is not None and wgts.shape != (n,):
        fails.append((name, "malformed:weights_shape", f"weights shape {wgts.shape} for {n} samples", variant))
        return fails, "malformed"
    if n and ((subs < 0).any() or (subs >= np.array(A.shape)).any()):
        fails.append((name, "out_of_range", f"subs {subs.tolist()} outside shape {A.shape}", variant))
        return fails, "out_of_range"
    at = np.array([A[tuple(s)] for s in subs.tolist()], dtype=float)
    vflat = None if vals is None else vals.reshape(-1).astype(float)
    pos = 0
    for kind, ln, total in r["blocks"]:
        sl = slice(pos, pos + ln)
        pos += ln
        if ln == 0:
            continue
        a_here = at[sl]
        if kind in ("nonzero", "nonzero_distinct") and (a_here == 0).any():
            fails.append((name, "wrong_value", f"nonzero block holds zero entries: subs {subs[sl].tolist()}", variant))
        if kind in ("zero", "zero_distinct") and (a_here != 0).any():
            fails.append((name, "not_a_zero", f"entries returned as zeros are stored nonzeros: {subs[sl].tolist()}",
                          variant))
        if kind.endswith("_distinct") and len({tuple(s) for s in subs[sl].tolist()}) != ln:
            fails.append((name, "duplicates", f"sampling without replacement repeated an entry: {subs[sl].tolist()}",
                          variant))
        if vflat is not None:
            want = np.zeros(ln) if kind == "unconfirmed" else a_here
            if not np.array_equal(vflat[sl], want):
                fails.append((name, "wrong_value", f"{kind} block: values {vflat[sl].tolist()} but data "
                              f"{want.tolist()} at {subs[sl].tolist()}", variant))
        if wgts is not None and total is not None:
            w = wgts[sl]
            if not np.all(np.isfinite(w)) or (w <= 0).any():
                fails.append((name, "wrong_weights", f"{kind} block weights {w.tolist()}", variant))
            elif abs(float(np.sum(w)) - total) > 1e-9 * max(1.0, total):
                fails.append((name, "wrong_weights", f"{kind} block: weights {w.tolist()} total {float(np.sum(w))}, "
                              f"the block stands for {total} entries", variant))
    if crng is not None and r["crng"] is not None:
        if not np.issubdtype(crng.dtype, np.integer) or crng.reshape(-1).tolist() != r["crng"]:
            fails.append((name, "wrong_crng", f"crng {crng.tolist()} expected {r['crng']}", variant))
    return fails, "ok"


def _observation(out, log):
    if isinstance(out, Exception):
        return ["exc", type(out).__name__, [c for (_, _, c) in log]]
    if isinstance(out, tuple):
        return [np.asarray(x) for x in out] + [[c for (_, _, c) in log]]
    return [np.asarray(out), [c for (_, _, c) in log]]


def _run_sampler(case, ctx):
    ncells = prod(case["shape"])
    if case.get("slice", [0, 1])[0] == 0:
        ctx.state()

    def run(script, policy, sig):
        return _execute(case, script, policy, sig)[1]

    if "script" in case:
        scripts = [(case["script"], None, "replay")]
    else:
        try:
            scripts = enumerate_scripts(run, ncells, max_complete=case.get("max_complete", 5),
                                        long_len=case.get("long_len", 10 ** 9), long_dev=1)
            scripts = list(scripts)
            if "slice" in case:
                scripts = scripts[case["slice"][0]::case["slice"][1]]
        except (ScriptDiverged, UnscriptedDraw) as e:
            ctx.fail("harness", "script_diverged", f"{type(e).__name__}: {e}", case=case)
            return
    nontriv = False
    listed = {}
    for script, sig, mode in scripts:
        ctx.tick()
        ctx.count("sampler_exec_" + mode)
        try:
            out, log, A = _execute(case, script, ("all",), sig)
        except (ScriptDiverged, UnscriptedDraw) as e:
            ctx.fail("harness", "script_diverged", f"{type(e).__name__}: {e}", case=dict(case, script=list(script)))
            continue
        if len(log) != len(script) and mode != "replay":
            ctx.fail("harness", "script_diverged", f"script of {len(script)} choices, execution made {len(log)}",
                     case=dict(case, script=list(script)))
            continue
        fails, status = _check_sample(case, out, log, A)
        ctx.count("sampler_" + status)
        if status == "rejected":
            ctx.inadm()
        if status == "ok" and not isinstance(out, Exception):
            first = out[0] if isinstance(out, tuple) else out
            if np.asarray(first).shape[0] > 0:
                nontriv = True
        ctx.outcome(_observation(out, log))
        if fails:
            # replay once more before reporting: identical observations required
            out2, log2, _ = _execute(case, script, ("all",), sig)
            if digest(_observation(out, log)) != digest(_observation(out2, log2)):
                ctx.fail("harness", "nondeterministic_replay", f"script {script}", case=dict(case, script=list(script)))
                continue
            # derived fields (for known-finding predicates): zeros requested / draws that hit a true zero
            last = _check_sample.last
            sub = dict(case, script=list(script), req_nz=last["req_nz"], zero_hits=last["zero_hits"])
            sub.pop("slice", None)
            short = last["req_nz"] is not None and last["zero_hits"] < last["req_nz"]
            for (op, sym, detail, variant) in fails:
                # at most 5 records per batch and (class, shortfall or not); the rest is only counted
                key = (op, sym, variant, short)
                listed[key] = listed.get(key, 0) + 1
                if listed[key] <= 5:
                    ctx.fail(op, sym, detail, variant=variant, case=sub)
                else:
                    ctx.count("sampler_failures_counted_not_listed")
    if nontriv:
        ctx.nontriv()
    if case.get("boundary"):
        ctx.flag("sampler:boundary_draw")
    ctx.flag("sampler:" + case["op"])


# ===========================================================================
# solvers


def _guess(shape, R, salt):
    return [np.array([[0.2 + ((3 * i + 5 * j + 7 * n + salt) % 7) / 5.0 for j in range(R)] for i in range(s)])
            for n, s in enumerate(shape)]


def ref_loss(loss, X, M):
    if loss == "GAUSSIAN":
        return (X - M) ** 2
    return M - X * np.log(M + EPS)


def ref_F(loss, X, factors, W=None):
    M = rm.kruskal(np.ones(np.asarray(factors[0]).shape[1]), factors)
    Y = ref_loss(loss, X, M)
    if W is not None:
        Y = W * Y
    return float(np.sum(Y))


class FullSampler:
    """Duck-typed GCPSampler: every entry once, unit weights, no correction range."""

    def __init__(self, shape, X):
        self.subs = np.array(rm.cells(shape), dtype=int).reshape(-1, len(shape))
        self.vals = np.array([X[tuple(s)] for s in self.subs.tolist()], dtype=float)
        self.nf = 0
        self.ng = 0

    def function_sample(self, data):
        self.nf += 1
        return self.subs.copy(), self.vals.copy(), np.ones(len(self.vals))

    def gradient_sample(self, data):
        self.ng += 1
        return self.subs.copy(), self.vals.copy(), np.ones(len(self.vals))

    @property
    def crng(self):
        return np.array([], dtype=int)


def _handles(loss, data=None):
    from pyttb.gcp import fg_setup
    from pyttb.gcp.handles import Objectives

    return fg_setup.setup(Objectives[loss], data)


def _make_data(idx, sparse=False, dtype=None):
    import pyttb as ttb

    shape, vals = POOL[idx]
    X = rm.arr(shape, [float(v) for v in vals])
    if dtype:
        # storage dtype of the data (the pool holds small counts: exact in every integer dtype)
        return shape, X, H.build({"kind": "sptensor" if sparse else "tensor", "shape": list(shape),
                                  "vals": [float(v) for v in vals], "dtype": dtype})
    if sparse:
        subs, v = H.sp_parts(shape, [float(x) for x in vals])
        return shape, X, H.make_sptensor(shape, subs, v)
    return shape, X, ttb.tensor(np.asfortranarray(X.copy()))


def _make_opt(name, **kw):
    from pyttb.gcp import optimizers as O

    return getattr(O, name)(printitn=0, **kw)


def _run_solver(case, ctx):
    import pyttb as ttb

    subs = [case] if "one" in case else [
        dict(case, one=True, max_fails=mf, max_iters=mi, epoch_iters=ei, tol=tol, via=via)
        for via in case["via"] for tol in case["tol"] for ei in case["epoch_iters"]
        for mf in case["max_fails"] for mi in case["max_iters"]]
    ctx.state()
    for sub in subs:
        _one_solve(sub, ctx, ttb)


def _one_solve(c, ctx, ttb):
    opt_name, loss, via = c["opt"], c["loss"], c["via"]
    # driver slices: "gcp_enum" dense / sparse by member, "gcp_enum_int" the same with the counts stored as integers
    shape, X, data = _make_data(c["data"], sparse=(via.startswith("gcp_enum") and c["data"] % 2 == 1),
                                dtype="int64" if via == "gcp_enum_int" else None)
    if via == "gcp_enum_int":
        via = "gcp_enum"
    K0f = _guess(shape, c["rank"], c.get("seed", 0))
    f, g, lb = _handles(loss)
    F0 = ref_F(loss, X, K0f)
    tol = _tol_value(c["tol"], F0)
    rec = []

    def fh(x, m):
        y = f(x, m)
        rec.append((float(np.sum(y)), np.array(m, dtype=float, copy=True)))
        return y

    smp = FullSampler(shape, X)
    kw = dict(rate=c["rate"], decay=c["decay"], max_fails=c["max_fails"], max_iters=c["max_iters"],
              epoch_iters=c["epoch_iters"], f_est_tol=tol)
    opt = _make_opt(opt_name, **kw)
    K0 = ttb.ktensor([m.copy() for m in K0f])
    variant = opt_name
    op = "solve" if via == "solve" else "gcp_opt"
    ctx.tick()
    try:
        if via == "solve":
            M, info = opt.solve(K0, data, fh, g, lb, smp)
            Minit = K0
        elif via == "gcp_tuple":
            M, Minit, info = ttb.gcp_opt(data, c["rank"], (fh, g, lb), opt, init=K0, sampler=smp, printitn=0)
        else:
            from pyttb.gcp.handles import Objectives

            M, Minit, info = ttb.gcp_opt(data, c["rank"], Objectives[loss], opt, init=K0, sampler=smp, printitn=0)
    except CaseTimeout:
        raise
    except ValueError as e:
        if "Infinite gradient" in str(e):
            ctx.inadm()
            ctx.count("solver_infinite_gradient")
            return
        ctx.fail(op, exc_symptom(e), short_tb(e), variant=variant, case=c)
        return
    except Exception as e:  # noqa: BLE001
        ctx.fail(op, exc_symptom(e), short_tb(e), variant=variant, case=c)
        return

    def fail(sym, detail, what=op):
        # the epoch loop is shared by the three solvers: one class for its traces
        ctx.fail(what, sym, detail, variant="" if what.endswith(".f_est_trace") else variant, case=c)

    # the initial model as seen by the solver
    init_f = [np.asarray(m, dtype=float) for m in Minit.factor_matrices]
    if via == "solve":
        if any(not np.array_equal(a, b) for a, b in zip(init_f, K0f)):
            fail("operand_mutated", "solve() changed the initial model")
    else:
        if not np.all(np.asarray(Minit.weights) == 1.0):
            fail("wrong_value", f"initial guess weights {Minit.weights}", "gcp_opt.init")
        if not rm.close(rm.kruskal(np.ones(c["rank"]), init_f), rm.kruskal(np.ones(c["rank"]), K0f), 1e-12):
            fail("wrong_value", "the returned initial guess denotes another tensor than the one passed", "gcp_opt.init")
    ret_f = [np.asarray(m, dtype=float) for m in M.factor_matrices]
    if [m.shape for m in ret_f] != [m.shape for m in K0f]:
        fail("wrong_shape", f"factor shapes {[m.shape for m in ret_f]}")
        return
    if not np.all(np.asarray(M.weights) == 1.0):
        fail("wrong_value", f"result weights {M.weights}")
    # bounds
    if any((m < lb).any() or np.isnan(m).any() for m in ret_f):
        fail("bound_violated", f"lower bound {lb}: min entry {min(float(np.nanmin(m)) for m in ret_f)}")
    if via == "gcp_enum":
        # driver dispatch: identical to the direct solve with the handles setup() selects
        opt2 = _make_opt(opt_name, **kw)
        K1 = ttb.ktensor([m.copy() for m in K0f]).normalize("all")
        M2, info2 = opt2.solve(K1, data, f, g, lb, FullSampler(shape, X))
        same = all(np.array_equal(a, b, equal_nan=True) for a, b in zip(ret_f, M2.factor_matrices)) and \
            np.array_equal(info["f_est_trace"], info2["f_est_trace"], equal_nan=True)
        if not same:
            fail("wrong_value", "gcp_opt(objective enum) differs from solve() with the handles of fg_setup.setup")
        ctx.outcome([ret_f, np.asarray(info["f_est_trace"])])
        ctx.count("solver_gcp_enum")
        if c["max_iters"] > 0:
            ctx.nontriv()
        return
    # ---- the true trace
    t = np.array([r[0] for r in rec])
    performed = len(t) - 1
    if smp.nf != 1:
        fail("wrong_protocol", f"function_sample called {smp.nf} times (the function sample is fixed)")
    if smp.ng != performed * c["epoch_iters"]:
        fail("wrong_protocol", f"{smp.ng} gradient samples for {performed} evaluated epochs of {c['epoch_iters']}")
    if not np.isfinite(t[0]):
        # the starting guess has no finite objective: outside the quantifier
        ctx.inadm()
        ctx.count("solver_nonfinite_start")
        return
    if not np.all(np.isfinite(t)):
        # an epoch ended with an overflowed model (objective inf / NaN): it is an epoch that did not improve on the
        # best model, i.e. a failed epoch - the verdicts below are asserted as for any other run
        ctx.flag("solver:nonfinite_epoch")
        ctx.count("solver_nonfinite_trace")
    F0i = ref_F(loss, X, init_f)
    if abs(t[0] - F0i) > 1e-9 * (1 + abs(F0i)):
        fail("wrong_value", f"trace[0] {t[0]!r} but the objective of the guess is {F0i!r}", op + ".f_est_trace")
    # reference stop rule on the true trace
    word = ""
    best = t[0]
    nf = 0
    stop_at = None
    for k in range(1, performed + 1):
        failed = not (t[k] <= best)   # a NaN objective is not an improvement
        word += "F" if failed else "S"
        nf += failed
        if not failed:
            best = t[k]
        if (nf > c["max_fails"] or t[k] < tol) and stop_at is None:
            stop_at = k
    if performed > c["max_iters"]:
        fail("wrong_epochs", f"{performed} epochs with max_iters {c['max_iters']}")
    elif stop_at is not None and stop_at < performed:
        fail("wrong_epochs", f"ran {performed} epochs, the stop rule (max_fails {c['max_fails']}, tol {tol}) "
             f"holds after epoch {stop_at}: word {word}")
    elif stop_at is None and performed < c["max_iters"]:
        fail("wrong_epochs", f"stopped after {performed} of {c['max_iters']} epochs without a stop condition: "
             f"word {word} max_fails {c['max_fails']}")
    ctx.count("word_" + (word or "-"))
    ctx.outcome(["word", opt_name, word])
    # reported traces
    tr = np.asarray(info["f_est_trace"], dtype=float)
    lens = {k: len(np.asarray(info[k])) for k in ("f_est_trace", "step_trace", "time_trace")}
    if any(v != performed + 1 for v in lens.values()):
        fail("wrong_length", f"{lens} after {performed} completed epochs (expected {performed + 1} entries: "
             "the start value plus one per epoch)", op + ".f_est_trace")
    m = min(len(tr), len(t))
    if not np.array_equal(tr[:m], t[:m], equal_nan=True):
        fail("wrong_value", f"reported trace {tr.tolist()} but the objective values were {t.tolist()}",
             op + ".f_est_trace")
    # best model
    Fm = ref_F(loss, X, ret_f)
    tmin = float(np.nanmin(t))
    if not (abs(Fm - tmin) <= 1e-9 * (1 + abs(tmin))):
        fail("not_best", f"objective of the returned model {Fm!r}, smallest value at an epoch boundary {tmin!r}; "
             f"true trace {t.tolist()} word {word}")
    elif Fm > F0i * (1 + 1e-12) + 1e-12:
        fail("worse_than_start", f"{Fm!r} > {F0i!r}")
    else:
        mv = rm.kruskal(np.ones(c["rank"]), ret_f)
        mvf = np.array([mv[sub] for sub in rm.cells(shape)])
        cands = [k for k in range(performed + 1) if t[k] == tmin]
        if not any(rm.close(mvf, rec[k][1], 1e-12) for k in cands):
            fail("not_best", "the returned model is not the model of an epoch boundary that attained the minimum")
    if performed >= 1:
        ctx.nontriv()
    if "F" in word:
        ctx.flag("solver:failed_epoch")
    if "SF" in word:
        ctx.flag("solver:fail_after_success")
    if "FS" in word:
        ctx.flag("solver:success_after_fail")
    if c["tol"] is not None and performed >= 1 and t[performed] < tol:
        ctx.flag("solver:tol_stop")
        if t[0] < tol:
            ctx.flag("solver:tol_met_by_start")
        if word.endswith("F"):
            ctx.flag("solver:tol_stop_on_failed_epoch")
    if lb > -np.inf and any((m == lb).any() for m in ret_f):
        ctx.flag("solver:bound_active")


def _run_init(case, ctx):
    """Driver: random initial guess - unit weights, scaled to the norm of the data, a function of the random
    stream only; with no epochs the solve returns it unchanged."""
    import pyttb as ttb
    from pyttb.gcp.handles import Objectives

    shape, X, data = _make_data(case["data"], sparse=case["sparse"], dtype=case.get("dtype"))
    R = case["rank"]
    ctx.state()
    for ns in case["np_seeds"]:
        sub = dict(case, np_seeds=[ns])
        res = []
        for rep_ in range(2):
            np.random.seed(ns + 10 * case.get("seed", 0))
            opt = _make_opt("SGD", max_iters=0, epoch_iters=1)
            ctx.tick()
            try:
                M, M0, info = ttb.gcp_opt(data, R, Objectives.GAUSSIAN, opt, init="random",
                                          sampler=FullSampler(shape, X), printitn=0)
            except CaseTimeout:
                raise
            except Exception as e:  # noqa: BLE001
                ctx.fail("gcp_opt.init", exc_symptom(e), short_tb(e), variant="random", case=sub)
                return
            res.append(([np.array(m) for m in M0.factor_matrices], [np.array(m) for m in M.factor_matrices],
                        np.array(M0.weights)))
        f0, fm, w = res[0]
        if [m.shape for m in f0] != [(s_, R) for s_ in shape]:
            ctx.fail("gcp_opt.init", "wrong_shape", f"{[m.shape for m in f0]}", variant="random", case=sub)
            continue
        if not np.all(w == 1.0):
            ctx.fail("gcp_opt.init", "wrong_value", f"weights of the initial guess {w.tolist()}", variant="random",
                     case=sub)
        nx = float(np.sqrt(np.sum(X ** 2)))
        nm = float(np.sqrt(np.sum(rm.kruskal(np.ones(R), f0) ** 2)))
        if abs(nm - nx) > 1e-9 * max(1.0, nx):
            ctx.fail("gcp_opt.init", "wrong_scale", f"norm of the random initial guess {nm!r}, norm of the data {nx!r}",
                     variant="random", case=sub)
        if any((m < 0).any() or not np.all(np.isfinite(m)) for m in f0):
            ctx.fail("gcp_opt.init", "bound_violated", "random initial guess has negative / non-finite entries",
                     variant="random", case=sub)
        if any(not np.array_equal(a, b) for a, b in zip(f0, res[1][0])):
            ctx.fail("gcp_opt.init", "history_dependent", "same numpy seed, different initial guess", variant="random",
                     case=sub)
        if any(not np.array_equal(a, b) for a, b in zip(f0, fm)):
            ctx.fail("gcp_opt", "wrong_value", "max_iters=0 but the result differs from the initial guess",
                     variant="random", case=sub)
        ctx.outcome(f0)
    ctx.nontriv()


def _run_lbfgsb(case, ctx):
    import pyttb as ttb

    subs = [case] if "one" in case else [dict(case, one=True, maxiter=mi) for mi in case["maxiter"]]
    ctx.state()
    for c in subs:
        _one_lbfgsb(c, ctx, ttb)


def _one_lbfgsb(c, ctx, ttb):
    from pyttb.gcp.optimizers import LBFGSB
    from pyttb.gcp.handles import Objectives

    loss, via = c["loss"], c["via"]
    shape, X, data = _make_data(c["data"])
    K0f = _guess(shape, c["rank"], c.get("seed", 0) + 1)
    f, g, lb = _handles(loss)
    W = None
    if c["mask"] == "hole":
        W = np.ones(shape)
        W[rm.cells(shape)[1]] = 0.0
    K0 = ttb.ktensor([m.copy() for m in K0f])
    opts = c.get("opts") or {}
    opt = LBFGSB(maxiter=c["maxiter"], **opts)
    variant = ("mask" if W is not None else "nomask") + ("".join(f":{k}{v}" for k, v in sorted(opts.items())))
    op = "LBFGSB.solve" if via == "solve" else "gcp_opt"
    ctx.tick()
    try:
        if via == "solve":
            M, info = opt.solve(K0, data, f, g, lb, None if W is None else W.copy())
            Minit = K0
        else:
            M, Minit, info = ttb.gcp_opt(data, c["rank"], Objectives[loss], opt, init=K0,
                                         mask=None if W is None else (W.copy() if via == "gcp_np" else ttb.tensor(W.copy())),
                                         printitn=0)
    except CaseTimeout:
        raise
    except Exception as e:  # noqa: BLE001
        ctx.fail(op, exc_symptom(e), short_tb(e), variant=variant, case=c)
        return

    def fail(sym, detail, what=op):
        ctx.fail(what, sym, detail, variant=variant, case=c)

    init_f = [np.asarray(m, dtype=float) for m in Minit.factor_matrices]
    ret_f = [np.asarray(m, dtype=float) for m in M.factor_matrices]
    if via == "solve" and any(not np.array_equal(a, b) for a, b in zip(init_f, K0f)):
        fail("operand_mutated", "solve() changed the initial model")
    if [m.shape for m in ret_f] != [m.shape for m in K0f]:
        fail("wrong_shape", f"{[m.shape for m in ret_f]}")
        return
    F0 = ref_F(loss, X, init_f, W)
    F1 = ref_F(loss, X, ret_f, W)
    if not np.isfinite(F1) or F1 > F0 + 1e-12 * (1 + abs(F0)):
        fail("worse_than_start", f"final objective {F1!r} > initial {F0!r} (maxiter {c['maxiter']})")
    ff = float(info["final_f"])
    # scipy (1.14) hands back the function value of the rejected trial point together with the restored iterate when
    # the line search gives up (warnflag 2): that pairing is scipy's answer, not something the wrapper computes, and
    # the property only bounds the objective of the returned model (checked above on every run)
    if int(info.get("warnflag", 0)) == 2:
        ctx.flag("lbfgsb:linesearch_abandoned")
    if int(info.get("warnflag", 0)) == 2 or "maxls" in opts:
        pass  # (a run that abandoned a line search earlier and stopped for another reason keeps the stale value too)
    elif abs(ff - F1) > 1e-9 * (1 + abs(F1)):
        fail("wrong_value", f"final_f {ff!r} but the objective of the returned model is {F1!r}", op + ".final_f")
    if any((m < lb).any() or np.isnan(m).any() for m in ret_f):
        fail("bound_violated", f"lower bound {lb}: min entry {min(float(np.nanmin(m)) for m in ret_f)}")
    if opt._solver_kwargs.get("callback") is not None:
        fail("callback_not_restored", f"callback slot holds {type(opt._solver_kwargs['callback']).__name__}")
    nit = int(info.get("nit", 0))
    if nit > max(c["maxiter"], 0) + 1:
        fail("wrong_epochs", f"nit {nit} maxiter {c['maxiter']}")
    ctx.outcome([ret_f, ff])
    if F1 < F0:
        ctx.nontriv()
    if lb > -np.inf and any((m == lb).any() for m in ret_f):
        ctx.flag("lbfgsb:bound_active")


# ===========================================================================
# reuse histories


class _UserCallback:
    def __init__(self):
        self.calls = 0

    def __call__(self, xk):
        self.calls += 1


def _reuse_make_opt(c, cb):
    cfg = REUSE_CFG[c["cfg"]]
    if c["opt"].startswith("LBFGSB"):
        from pyttb.gcp.optimizers import LBFGSB

        return LBFGSB(maxiter=cfg["maxiter"], callback=cb)
    return _make_opt(c["opt"], rate=cfg["rate"], decay=cfg["decay"], max_fails=cfg["max_fails"],
                     max_iters=cfg["max_iters"], epoch_iters=cfg["epoch_iters"])


def _reuse_solve(opt, c, pname, pos, ttb):
    from pyttb.gcp.samplers import GCPSampler

    P = PROBLEMS[pname]
    shape, X, data = _make_data(P["data"], sparse=P.get("sparse", False) and not c["opt"].startswith("LBFGSB"))
    K0 = ttb.ktensor(_guess(shape, P["rank"], P["salt"] + c.get("seed", 0)))
    f, g, lb = _handles(P["loss"])
    if c["opt"].startswith("LBFGSB"):
        M, info = opt.solve(K0, data, f, g, lb)
        obs = {"factors": [np.array(m) for m in M.factor_matrices], "weights": np.array(M.weights),
               "final_f": float(info["final_f"]), "nit": int(info["nit"]), "funcalls": int(info["funcalls"]),
               "warnflag": int(info["warnflag"]), "grad": np.array(info["grad"])}
        return obs, info
    if c["mode"] == "default":
        np.random.seed(1000 + 17 * pos + c.get("seed", 0))
        smp = None
    elif c["mode"] == "seeded":
        np.random.seed(1000 + 17 * pos + c.get("seed", 0))
        n = prod(shape)
        smp = GCPSampler(data, function_samples=n, gradient_samples=max(2, n // 2))
    else:
        smp = FullSampler(shape, X)
    M, info = opt.solve(K0, data, f, g, lb, smp)
    obs = {"factors": [np.array(m) for m in M.factor_matrices], "weights": np.array(M.weights),
           "f_est_trace": np.array(info["f_est_trace"]), "step_trace": np.array(info["step_trace"]),
           "n_epoch": int(info["n_epoch"])}
    return obs, info


def _obs_equal(a, b):
    if a.keys() != b.keys():
        return False, "keys"
    for k in a:
        x, y = a[k], b[k]
        if isinstance(x, list):
            if len(x) != len(y) or any(p.shape != q.shape or not np.array_equal(p, q, equal_nan=True)
                                       for p, q in zip(x, y)):
                d = max((float(np.max(np.abs(p - q))) if p.shape == q.shape and p.size else float("nan"))
                        for p, q in zip(x, y)) if len(x) == len(y) else float("nan")
                return False, f"{k} (max abs difference {d!r}, shapes {[p.shape for p in x]} vs {[q.shape for q in y]})"
        elif isinstance(x, np.ndarray):
            if x.shape != y.shape or not np.array_equal(x, y, equal_nan=True):
                return False, f"{k}: {x.tolist()} vs {y.tolist()}"
        elif x != y:
            return False, f"{k}: {x!r} vs {y!r}"
    return True, ""


def _run_reuse(c, ctx):
    import pyttb as ttb

    word = c["word"]
    variant = c["opt"]
    ctx.state()
    cb = _UserCallback() if c["opt"] == "LBFGSB_cb" else None
    is_l = c["opt"].startswith("LBFGSB")
    # fresh object, last solve only
    fresh_exc = None
    try:
        cb_f = _UserCallback() if cb is not None else None
        want, _ = _reuse_solve(_reuse_make_opt(c, cb_f), c, word[-1], len(word) - 1, ttb)
    except CaseTimeout:
        raise
    except Exception as e:  # noqa: BLE001
        fresh_exc = e
    opt = _reuse_make_opt(c, cb)
    got = None
    for pos, p in enumerate(word):
        ctx.tick()
        calls0 = cb.calls if cb is not None else 0
        try:
            got, info = _reuse_solve(opt, c, p, pos, ttb)
        except CaseTimeout:
            raise
        except Exception as e:  # noqa: BLE001
            if pos == len(word) - 1 and fresh_exc is not None and type(fresh_exc) is type(e):
                ctx.inadm()
                ctx.count("reuse_both_raise_" + type(e).__name__)
                return
            if pos < len(word) - 1:
                # a shorter word reports this; the history ends here
                ctx.count("reuse_prefix_raised")
                return
            ctx.fail("solve#%d" % min(pos + 1, 2), exc_symptom(e),
                     f"solve {pos + 1} of word {word} on a used {c['opt']} object: {short_tb(e)}",
                     variant=variant, case=c)
            return
        if is_l:
            slot = opt._solver_kwargs.get("callback")
            if slot is not cb:
                ctx.fail("LBFGSB.callback_slot", "callback_not_restored",
                         f"after solve {pos + 1} the callback slot holds {type(slot).__name__}", variant=variant, case=c)
                return
            inner = info["callback"].get("callback") if isinstance(info.get("callback"), dict) else "?"
            if inner is not cb:
                ctx.fail("LBFGSB.callback_slot", "wrong_value",
                         f"info['callback'] reports {type(inner).__name__} as the user callback", variant=variant,
                         case=c)
            if cb is not None and cb.calls - calls0 != got["nit"]:
                ctx.fail("LBFGSB.callback_slot", "wrong_protocol",
                         f"user callback called {cb.calls - calls0} times in a solve of {got['nit']} iterations",
                         variant=variant, case=c)
    if fresh_exc is not None:
        ctx.fail("solve#1", exc_symptom(fresh_exc), short_tb(fresh_exc), variant=variant, case=c)
        return
    ok, why = _obs_equal(got, want)
    if not ok:
        ctx.fail("solve#2" if len(word) > 1 else "solve#1", "history_dependent",
                 f"word {word} ({c['cfg']}, {c['mode']} sampler): the last solve differs from the same solve on a "
                 f"fresh {c['opt']} object in {why}", variant=variant, case=c)
    ctx.outcome([got["factors"]])
    if len(word) > 1:
        ctx.nontriv()
        if len({PROBLEMS[p]["data"] for p in word}) > 1 or len({PROBLEMS[p]["rank"] for p in word}) > 1:
            ctx.flag("reuse:size_change")


# ===========================================================================


def run_case(case, ctx):
    globals()["_run_" + case["check"]](case, ctx)
