"""C14 - leading mode-n vectors (nvecs) in every representation.

For every member of a finite family of small integer-valued arrays, every holder of the array (dense
tensor, sparse tensor in several stored orders, Kruskal tensor, Tucker tensor with dense / sparse core),
every mode n, every count 1 <= r <= size(n) and both settings of `flipsign`, the REAL `nvecs` is run and
its result compared with the mode-n Gram matrix of the reference array (mc.refmodel, numpy.linalg.eigh).
"""

from math import prod

import numpy as np

from mc import holders as H
from mc import observe as O
from mc import refmodel as rm
from mc import space
from mc.engine import exc_symptom, short_tb

ID = "C14"
RULE = ("product explorer: (array of a fixed integer-valued family) x (mode n) is one batch case; inside, every "
        "holder of the SAME array (tensor F/C buffer and int64 data, sptensor in 2-4 stored orders and with int64 values, ktensor, ttensor with dense and "
        "sparse core; Kruskal/Tucker members also natively, their factor columns raw integer / unit-norm correlated / orthonormal / "
        "mixed per mode - the re-scaled members are real-valued, so integer-dtype holders are left out for them) x every r in 1..size(n) x flipsign in {T,F} x "
        "argument form (the integers n and r handed over as Python ints or as numpy integer scalars, as they come out of np.arange / "
        "np.argmax / an index array) is one real nvecs call on a fresh object.  Verdicts are asserted when the reference spectrum has lambda_1 > 0 and a gap "
        "lambda_r - lambda_{r+1} >= 1e-6 lambda_1 (or r = size); other calls are run but counted inadmissible.  "
        "Non-trivial: admissible, and the leading subspace is proper (r < size) or the spectrum is not flat.")
ASSUMPTIONS = ["reference unfolding/Gram in mc/refmodel.py (loops) and numpy.linalg.eigh are correct",
               "data are small integers (native members with re-scaled factor columns: O(1..100) reals), so the reference Gram "
               "matrix is exact (resp. accurate to rounding); eigen-relations are compared with "
               "tolerance 1e-8*lambda_1, orthonormality 1e-8, projectors 1e-7 (DESIGN 4.3)",
               "ARPACK's internally random start vector is replaced by a member of a fixed pool of generic vectors "
               "(scipy.sparse.linalg.eigsh/eigs wrapped while nvecs runs; selected by seed, mode, r) so that every case "
               "and replay is reproducible; results are still compared up to rounding, never bitwise",
               "holders are built by mc/holders.py; Kruskal/Tucker holders of a plain array use unit-vector / "
               "identity factors"]
BOUNDS = {
    "quick": "21 shapes of order 1-4 (mode sizes 2..6, three with singleton modes, <= 36 cells); 24 array members per shape "
             "(generic, 2 zero patterns, exact rank 1/2, rank 2 + noise, counts with an empty slice, diagonal Gram "
             "ascending/mixed, flat Gram, zero, 3 Kruskal-native + rank 2 with unit-norm / orthonormal factor columns, Tucker-native "
             "dense / sparse core x factor columns {raw, unit-norm, orthonormal, mixed per mode}); all modes; all r; both flipsign; "
             "(n, r) as (int, int) and as (numpy.int64, numpy.int64); "
             "holders: tensor (float64 and int64 data), sptensor x2 orders (+ int64 values), ktensor, ttensor dense core / sparse core / sparse core with "
             "scipy.sparse factors (+ native)",
    "thorough": "all shapes of order 2-3 with sizes 2..6 and <= 72 cells, order 4 with sizes 2..3 and <= 36 cells, "
                "1-way sizes 2..6 and 9 shapes with singleton modes; 36-60 members per shape (more seeds, rank 3 + noise, "
                "single-entry, descending diagonal Gram, 5 Kruskal-native + 4 ranks x {unit-norm, orthonormal} columns, up to "
                "4 Tucker core shapes x dense/sparse core x 4 factor-column structures); tensor also from a C-ordered "
                "buffer, sptensor in 4 stored orders; on the 21 shapes of the quick list (n, r) additionally as (numpy.int32, "
                "numpy.int32), (numpy.int64, int) and (int, numpy.int64); everything else as quick",
}
CHUNK = 4

GAP = 1e-6        # admissibility: relative gap after lambda_r
TOL_ORTH = 1e-8
TOL_EIG = 1e-8    # * lambda_1
TOL_PROJ = 1e-7
TOL_TIE = 1e-9    # ties among the largest-magnitude entries of a column

# argument forms "<type of n>/<type of r>": how the mode and the count are handed to nvecs.  The answer must not depend on
# whether an integer is a Python int or a numpy integer scalar (np.arange, np.argmax, entries of index arrays ...).
ARG_TYPES = {"int": int, "int64": np.int64, "int32": np.int32}
QUICK_ARGFORMS = ("int/int", "int64/int64")
EXTRA_ARGFORMS = ("int32/int32", "int64/int", "int/int64")   # thorough tier, on the shapes of the quick list


def argforms(tier, shape=None):
    """Argument forms of a tier (shape None: every form that occurs in the tier)."""
    if tier == "thorough" and (shape is None or tuple(shape) in QUICK_SHAPES):
        return QUICK_ARGFORMS + EXTRA_ARGFORMS
    return QUICK_ARGFORMS


def arg_values(argf, n, r):
    tn, tr = argf.split("/")
    return ARG_TYPES[tn](n), ARG_TYPES[tr](r)


QUICK_SHAPES = [(4,), (6,), (2, 2), (1, 3), (3, 2), (3, 4), (4, 3), (5, 2), (3, 5), (4, 4), (6, 3), (2, 6), (2, 3, 4),
                (4, 3, 2), (3, 3, 3), (2, 6, 2), (5, 2, 3), (3, 1, 4), (2, 1, 1), (2, 2, 2, 3), (3, 2, 2, 2)]


def _shapes(tier):
    if tier != "thorough":
        return list(QUICK_SHAPES)
    out = [(s,) for s in range(2, 7)]
    out += space.shapes(3, 6, 72, min_order=2, min_size=2)
    out += space.shapes(4, 3, 36, min_order=4, min_size=2)
    out += [(1, 3), (3, 1), (1, 1), (3, 1, 4), (1, 4, 3), (4, 3, 1), (2, 1, 1), (1, 1, 5), (2, 1, 3, 2)]
    seen, res = set(), []
    for s in out:
        if s not in seen:
            seen.add(s)
            res.append(s)
    return res


# ---------------------------------------------------------------------------
# the array family (every member: explicit small integers)


def _members(shape, tier, seed):
    """Data descriptors for one shape, simplest first."""
    thorough = tier == "thorough"
    N = len(shape)
    sh = list(shape)
    out = [
        {"fam": "generic", "shape": sh, "vseed": seed},
        {"fam": "pattern", "shape": sh, "pat": "third", "vseed": seed},
        {"fam": "pattern", "shape": sh, "pat": "half", "vseed": seed + 1},
        {"fam": "lowrank", "shape": sh, "rank": 1, "noise": 0, "vseed": seed},
        {"fam": "lowrank", "shape": sh, "rank": 2, "noise": 0, "vseed": seed},
        {"fam": "lowrank", "shape": sh, "rank": 2, "noise": 1, "vseed": seed},
        {"fam": "counts", "shape": sh, "vseed": seed},
        {"fam": "diag", "shape": sh, "dir": "asc", "vseed": seed},
        {"fam": "diag", "shape": sh, "dir": "mixed", "vseed": seed},
        {"fam": "diag", "shape": sh, "dir": "flat", "vseed": seed},
        {"fam": "zero", "shape": sh},
    ]
    kr = [(1, [2.0]), (2, [3.0, -1.0]), (3, [1.0, -2.0, 3.0])]
    if thorough:
        out += [
            {"fam": "generic", "shape": sh, "vseed": seed + 7},
            {"fam": "pattern", "shape": sh, "pat": "single", "vseed": seed},
            {"fam": "lowrank", "shape": sh, "rank": 3, "noise": 1, "vseed": seed + 2},
            {"fam": "diag", "shape": sh, "dir": "desc", "vseed": seed},
        ]
        kr += [(2, [2.0, 0.0]), (4, [1.0, 1.0, -1.0, 2.0])]
    for R, w in kr:
        out.append({"fam": "kruskal", "h": {"kind": "ktensor", "shape": sh, "rank": R, "weights": w,
                                            "salt": seed, "vseed": seed}})
    # factor-column structure of the native members (what cp_als / hosvd / tucker_als hand out): raw integer columns
    # (above), unit 2-norm but correlated columns, orthonormal columns, and a per-mode mixture of the three
    for R, w in (kr[1:] if thorough else kr[1:2]):
        for fn in FNORMS[:2]:
            out.append({"fam": "kruskal", "h": {"kind": "ktensor", "shape": sh, "rank": R, "weights": w,
                                                "salt": seed, "vseed": seed, "fnorm": fn}})
    cores = [[min(2, s) for s in shape]]
    if thorough:
        cores += [[1] * N, [min(3, s) for s in shape], [2] * N]
    elif 1 in shape and N >= 2:
        cores += [[2] * N]  # a core mode wider than its (singleton) tensor mode: the factor Gram is not a scalar
    seen = []
    for cs in cores:
        if cs in seen:
            continue
        seen.append(cs)
        nc = prod(cs)
        for fn in (None,) + FNORMS:
            extra = {"fnorm": fn} if fn else {}
            out.append({"fam": "tucker", "h": dict({"kind": "ttensor", "shape": sh, "core_shape": cs, "core": "dense",
                                                    "core_pat": None, "salt": seed, "vseed": seed}, **extra)})
            out.append({"fam": "tucker", "h": dict({"kind": "ttensor", "shape": sh, "core_shape": cs,
                                                    "core": "sparse",
                                                    "core_pat": [1 if i % 2 == 0 else 0 for i in range(nc)],
                                                    "salt": seed + 1, "vseed": seed}, **extra)})
    return out


# factor-column structures of native Kruskal / Tucker members (descriptor key "fnorm"; absent = raw integer columns)
FNORMS = ("unit", "orth", "mixed")


def _norm_factor(f, how):
    """Reference-side re-scaling of one factor matrix: 'unit' = every column divided by its 2-norm (columns stay
    correlated), 'orth' = an orthonormal basis of the column space (Householder QR; needs rows >= columns, else 'unit')."""
    f = np.array(f, dtype=float)
    if how == "orth" and f.shape[0] >= f.shape[1]:
        return np.linalg.qr(f)[0]
    if how in ("unit", "orth"):
        nrm = np.sqrt(np.sum(f * f, axis=0))
        return f / np.where(nrm > 0, nrm, 1.0)
    return f


def native_parts(h):
    """Parts of a native member with its factor-column structure applied: ('ktensor', weights, factors) or
    ('ttensor', core_shape, core_values, factors)."""
    fn = h.get("fnorm")
    hows = lambda k: (("orth", "unit", "raw")[k % 3] if fn == "mixed" else (fn or "raw"))  # noqa: E731
    if h["kind"] == "ktensor":
        w, fs = H.ktensor_parts(h)
        return "ktensor", w, [_norm_factor(f, hows(k)) for k, f in enumerate(fs)]
    cs, cvals, fs = H.ttensor_parts(h)
    return "ttensor", cs, cvals, [_norm_factor(f, hows(k)) for k, f in enumerate(fs)]


def build_native(h):
    import pyttb as ttb

    if not h.get("fnorm"):
        return H.build(h)
    parts = native_parts(h)
    if parts[0] == "ktensor":
        return ttb.ktensor([np.asfortranarray(f) for f in parts[2]], np.array(parts[1], dtype=float))
    _, cs, cvals, fs = parts
    if h.get("core", "dense") == "sparse":
        core = H.make_sptensor(cs, *H.sp_parts(cs, cvals))
    else:
        core = ttb.tensor(np.asfortranarray(rm.arr(cs, cvals)))
    return ttb.ttensor(core, [np.asfortranarray(f) for f in fs])


_MIXED = [2, 5, 1, 4, 3, 6, 7, 8]


def data_array(d):
    """The integer-valued array a data descriptor denotes (reference side, no pyttb)."""
    fam = d["fam"]
    if fam in ("kruskal", "tucker"):
        if d["h"].get("fnorm"):
            parts = native_parts(d["h"])
            if parts[0] == "ktensor":
                return np.asarray(rm.kruskal(parts[1], parts[2]), dtype=float)
            return np.asarray(rm.tucker(rm.arr(parts[1], parts[2]), parts[3]), dtype=float)
        return np.asarray(H.ref_array(d["h"]), dtype=float)
    shape = tuple(d["shape"])
    n = prod(shape)
    vs = d.get("vseed", 0)
    if fam == "generic":
        return rm.arr(shape, space.dense_values(shape, None, vs))
    if fam == "pattern":
        if d["pat"] == "third":
            pat = [1 if i % 3 == 1 else 0 for i in range(n)]
        elif d["pat"] == "half":
            pat = [1 if i % 2 == 0 else 0 for i in range(n)]
        else:
            pat = [1 if i == n - 1 else 0 for i in range(n)]
        return rm.arr(shape, space.dense_values(shape, pat, vs))
    if fam == "lowrank":
        R = d["rank"]
        w = [3.0, -1.0, 2.0][:R]
        fs = [np.array(space.int_matrix(s, R, salt=vs + 4 * k, seed=vs)) for k, s in enumerate(shape)]
        a = rm.kruskal(w, fs)
        if d.get("noise"):
            a = a + rm.arr(shape, [float(((5 * l + vs) % 3) - 1) for l in range(n)])
        return a
    if fam == "counts":
        a = rm.arr(shape, [float((7 * l + 3 + vs) % 4) for l in range(n)])
        a[0, ...] = 0.0  # an empty slice in mode 0
        return a
    if fam == "diag":
        # mode-0 Gram matrix is diagonal: row i of the unfolding has its single non-zero in column i
        a = np.zeros(shape)
        rest = shape[1:]
        P = prod(rest)
        for i in range(min(shape[0], P)):
            if d["dir"] == "asc":
                v = i + 1
            elif d["dir"] == "desc":
                v = shape[0] - i
            elif d["dir"] == "mixed":
                v = _MIXED[(i + vs) % len(_MIXED)]
            else:
                v = 2
            a[(i,) + space.sub_f(rest, i)] = float(v if (i + vs) % 2 == 0 else -v)
        return a
    if fam == "zero":
        return np.zeros(shape)
    raise ValueError(fam)


# ---------------------------------------------------------------------------
# holders of an array


def _order_of(name, k):
    ident = list(range(k))
    if name == "id":
        return ident
    if name == "rev":
        return ident[::-1]
    if name == "rot":
        return ident[1:] + ident[:1]
    if name == "swap":
        return ([1, 0] + ident[2:]) if k >= 2 else ident
    raise ValueError(name)


def holder_names(d, tier):
    names = []
    if d["fam"] == "kruskal":
        names.append("ktensor:native")
    if d["fam"] == "tucker":
        names.append("ttensor:native")
    names.append("tensor:F")
    if tier == "thorough":
        names.append("tensor:C")
    integer = not d.get("h", {}).get("fnorm")   # re-scaled factor columns: the array is no longer integer-valued
    names += (["tensor:int"] if integer else []) + ["sptensor:id", "sptensor:rev"] + (["sptensor:int"] if integer else [])
    if integer:
        # narrow integer storage: the Gram matrix must not be formed in the storage dtype (it would wrap)
        names += ["tensor:int8", "sptensor:int8"]
    if tier == "thorough":
        names += ["sptensor:rot", "sptensor:swap"]
    names += ["ktensor:cells", "ttensor:id_dense", "ttensor:id_sparse", "ttensor:id_spfac"]
    if d["fam"] == "tucker":
        names.append("ttensor:native_spfac")
    return names


def build_holder(name, d, A):
    """Fresh real pyttb object called `name` that denotes the array A."""
    import pyttb as ttb

    kind, how = name.split(":")
    shape = A.shape
    if how == "native":
        return build_native(d["h"])
    if how == "native_spfac":
        # the native Tucker tensor with a sparse core and scipy.sparse (coo) factor matrices
        from scipy import sparse

        _, cs, cvals, fs = native_parts(d["h"])
        csubs, cv = H.sp_parts(cs, cvals)
        return ttb.ttensor(H.make_sptensor(cs, csubs, cv), [sparse.coo_matrix(f) for f in fs])
    vals = [float(v) for v in rm.vals_f(A)]
    if how in ("int", "int8"):
        # the same (integer-valued) array stored with an integer dtype (int8 only where every value fits)
        idt = np.int8 if (how == "int8" and (A.size == 0 or float(np.max(np.abs(A))) <= 127)) else np.int64
        Ai = np.asfortranarray(A.astype(idt))
        if kind == "tensor":
            return ttb.tensor(Ai)
        subs, vs = H.sp_parts(shape, vals)
        if not vs:
            return ttb.sptensor(shape=tuple(shape))
        return ttb.sptensor(np.array(subs, dtype=int).reshape(len(vs), len(shape)),
                            np.array(vs).astype(idt).reshape(-1, 1), tuple(shape))
    if kind == "tensor":
        return H.build({"kind": "tensor", "shape": list(shape), "vals": vals, "c_order": how == "C"})
    if kind == "sptensor":
        k = sum(1 for v in vals if v != 0)
        return H.build({"kind": "sptensor", "shape": list(shape), "vals": vals, "order": _order_of(how, k)})
    if kind == "ktensor":
        # one rank-one term per stored cell: weight = value, factors = unit vectors
        subs, vs = H.sp_parts(shape, vals)
        if not vs:
            subs, vs = [[0] * len(shape)], [0.0]
        fs = []
        for m, s in enumerate(shape):
            f = np.zeros((s, len(vs)), order="F")
            for c, sub in enumerate(subs):
                f[sub[m], c] = 1.0
            fs.append(f)
        return ttb.ktensor(fs, np.array(vs, dtype=float))
    if kind == "ttensor":
        if how == "id_spfac":
            from scipy import sparse

            subs, vs = H.sp_parts(shape, vals)
            return ttb.ttensor(H.make_sptensor(shape, subs, vs), [sparse.coo_matrix(np.eye(s)) for s in shape])
        if how == "id_sparse":
            subs, vs = H.sp_parts(shape, vals)
            core = H.make_sptensor(shape, subs, vs)
        else:
            core = ttb.tensor(np.asfortranarray(A.copy()))
        return ttb.ttensor(core, [np.eye(s, order="F") for s in shape])
    raise ValueError(name)


# ---------------------------------------------------------------------------
# reference


def mode_gram(A, n):
    """Gram matrix of the mode-n unfolding, from the explicit index formula."""
    N = A.ndim
    Xn = rm.matricize(A, [n], [m for m in range(N) if m != n])
    return Xn @ Xn.T


def ref_spectrum(G):
    w, v = np.linalg.eigh(G)
    idx = np.argsort(-w, kind="stable")
    w = np.clip(w[idx], 0.0, None)
    return w, v[:, idx]


def admissible(w, r):
    """lambda_1 > 0 and a gap after lambda_r (reference side only)."""
    if w[0] <= 0:
        return False
    return r == len(w) or (w[r - 1] - w[r]) >= GAP * w[0]


def strictly_separated(w, r):
    return admissible(w, r) and all((w[i] - w[i + 1]) >= GAP * w[0] for i in range(r - 1))


# ---------------------------------------------------------------------------
# cases


def gen_cases(tier, seed):
    # depth-2 histories on the data object: nvecs, edit one entry of the same object in place, nvecs again
    for shape in _shapes(tier)[: (None if tier == "thorough" else 8)]:
        for fam in ("generic", "counts"):
            d = [m for m in _members(shape, tier, seed) if m["fam"] == fam][0]
            for kind in ("tensor", "sptensor"):
                yield {"check": "rerun", "data": d, "kind": kind, "tier": tier}
    for shape in _shapes(tier):
        for d in _members(shape, tier, seed):
            for n in range(len(shape)):
                yield {"check": "nvecs", "data": d, "n": n, "tier": tier}


def _run_rerun(case, ctx):
    """The second call must be the call a fresh object storing the same entries gets: nothing derived from the data
    before the edit (a memoised Gram matrix or unfolding) may survive it."""
    import pyttb as ttb

    d, kind = case["data"], case["kind"]
    A = data_array(d)
    shape = A.shape
    if kind == "sptensor" and (max(shape) == 1 or not np.any(A)):
        ctx.inadm()
        return
    cells = rm.cells(shape)
    ctx.state()
    for n in range(len(shape)):
        for r in sorted({1, shape[n]}):
            for edit in ("bump", "fill"):
                X = build_holder("tensor:F" if kind == "tensor" else "sptensor:id", d, A)
                zeros = [c for c in cells if A[c] == 0]
                cell = cells[-1] if edit == "bump" or not zeros else zeros[0]
                val = float(A[cell] + 5.0)
                sub = dict(case, n=n, r=r, edit=edit)
                ctx.tick()
                try:
                    with FixedArpackStart(1 + 3 * n + 7 * r, ctx, kind):
                        X.nvecs(n, r)
                        X[cell] = val
                        V2 = X.nvecs(n, r)
                        if kind == "tensor":
                            Y = ttb.tensor(np.array(X.data, copy=True, order="F"))
                        else:
                            Y = ttb.sptensor(X.subs.copy(), X.vals.copy(), X.shape)
                        V3 = Y.nvecs(n, r)
                except Exception as e:  # noqa: BLE001
                    ctx.inadm()
                    ctx.count("rerun_raised:" + type(e).__name__)
                    continue
                B = A.copy()
                B[cell] = val
                if not rm.same(O.dense_of(X), B):
                    ctx.fail(kind + ".__setitem__", "wrong_value", "the edited object does not hold the edited entries",
                             variant="rerun", case=sub)
                    continue
                ctx.nontriv()
                V2, V3 = np.asarray(V2), np.asarray(V3)
                if V2.shape != V3.shape or not np.allclose(V2, V3, rtol=0, atol=1e-10, equal_nan=True):
                    dev = float(np.max(np.abs(V2 - V3))) if V2.shape == V3.shape else float("inf")
                    ctx.fail(kind + ".nvecs", "history_dependent",
                             f"shape={list(shape)} n={n} r={r}: nvecs on an object edited in place after an earlier nvecs "
                             f"differs from nvecs on a fresh object with the same entries (max deviation {dev!r})",
                             variant="rerun", case=sub)
                ctx.outcome(V2)


def run_case(case, ctx):
    globals()["_run_" + case["check"]](case, ctx)


def _benign(e):
    """Exceptions that a solver may legitimately raise on a spectrum outside the quantifier."""
    from scipy.sparse.linalg import ArpackError

    return isinstance(e, (np.linalg.LinAlgError, ArpackError))


def _run_nvecs(case, ctx):
    d, n = case["data"], case["n"]
    tier = case.get("tier", "quick")
    A = data_array(d)
    shape = A.shape
    size = shape[n]
    G = mode_gram(A, n)
    w, Vref = ref_spectrum(G)
    lam1 = float(w[0])
    names = holder_names(d, tier)
    if "holder" in case:
        names = [case["holder"]]
    rs = [case["r"]] if "r" in case else list(range(1, size + 1))
    flips = [case["flip"]] if "flip" in case else [True, False]
    argfs = [case["argf"]] if "argf" in case else list(argforms(tier, shape))
    ctx.count("fam:" + d["fam"])
    nontrivial = False
    for name in names:
        kind = name.split(":")[0]
        ctx.state()
        if kind == "ttensor":
            _flag_tucker_branch(ctx, build_holder(name, d, A), n)
        for r in rs:
            path = "iterative" if r < size - 1 else "dense"
            adm = bool(admissible(w, r))
            strict = bool(strictly_separated(w, r))
            ties = bool(lam1 > 0 and any((w[i] - w[i + 1]) < GAP * lam1 for i in range(size - 1)))
            if adm and (r < size or (w[0] - w[-1]) >= GAP * lam1):
                nontrivial = True
            for flip in flips:
                for argf in argfs:
                    sub = {"check": "nvecs", "data": d, "n": n, "tier": tier, "holder": name, "r": r, "flip": flip,
                           "argf": argf, "kind": kind, "size": int(size), "path": path, "adm": adm, "ties": ties}
                    _one_call(ctx, sub, A, G, w, Vref, name, kind, n, r, flip, path, adm, strict)
    if nontrivial:
        ctx.nontriv()


def _flag_tucker_branch(ctx, T, n):
    """Vacuity control for the data-dependent switch in ttensor.nvecs (sparse or dense intermediate)."""
    import pyttb as ttb

    try:
        Vs = [f if k == n else f.transpose().dot(f) for k, f in enumerate(T.factor_matrices)]
        Hm = T.core.ttm(Vs)
        from scipy import sparse

        ctx.flag("ttensor:core_%s:factors_%s:H_%s" % (
            "sparse" if isinstance(T.core, ttb.sptensor) else "dense",
            "sparse" if sparse.issparse(T.factor_matrices[n]) else "dense",
            "sparse" if isinstance(Hm, ttb.sptensor) else "dense"))
    except Exception:  # noqa: BLE001  (only a coverage probe)
        ctx.flag("ttensor:probe_failed")


def start_vector(n, salt):
    """Member `salt` of a fixed pool of generic start vectors (closed form, no sampling)."""
    return np.array([1.0 + 0.5 * np.sin(1.0 + 2.3 * i + 0.7 * salt) for i in range(n)])


class FixedArpackStart:
    """ARPACK draws its start vector from an internal generator whose state survives between calls, so two
    executions of the same case would differ in rounding (and, for a defective caller, in column order and
    signs).  While the real nvecs runs, scipy.sparse.linalg.eigsh/eigs get a start vector from a fixed pool
    (selected by seed, mode and r) unless the caller passes one.  pyttb itself is not touched."""

    def __init__(self, salt, ctx, kind):
        self.salt, self.ctx, self.kind = salt, ctx, kind

    def __enter__(self):
        import scipy.sparse.linalg as sla

        self.sla, self.orig = sla, (sla.eigsh, sla.eigs)

        def wrap(f, nm):
            def g(A, k=6, *args, **kw):
                self.ctx.flag(f"solver:{nm}:{self.kind}")
                if not args and kw.get("v0") is None:
                    kw["v0"] = start_vector(A.shape[0], self.salt)
                return f(A, k, *args, **kw)
            return g

        sla.eigsh, sla.eigs = wrap(self.orig[0], "eigsh"), wrap(self.orig[1], "eigs")
        return self

    def __exit__(self, *exc):
        self.sla.eigsh, self.sla.eigs = self.orig
        return False


def _vseed(d):
    return int(d.get("vseed", d.get("h", {}).get("vseed", 0)))


def _one_call(ctx, sub, A, G, w, Vref, name, kind, n, r, flip, path, adm, strict):
    d = sub["data"]
    argf = sub.get("argf", "int/int")
    n_arg, r_arg = arg_values(argf, n, r)
    size = A.shape[n]
    lam1 = float(w[0])
    op = kind + ".nvecs"

    def fail(symptom, detail=""):
        ctx.fail(op, symptom, f"{name} shape={list(A.shape)} n={n} r={r} (as {argf}) flipsign={flip} "
                              f"lambda={np.round(w, 6).tolist()} :: {detail}", variant=path, case=sub)

    X = build_holder(name, d, A)
    before = O.snapshot(X)
    ctx.tick()
    try:
        with FixedArpackStart(_vseed(d) + 3 * n + 7 * r, ctx, kind):
            V = X.nvecs(n_arg, r_arg, flipsign=flip)
    except Exception as e:  # noqa: BLE001
        if kind == "sptensor" and max(A.shape) == 1 and isinstance(e, ValueError):
            # sparse tensors with only singleton modes are rejected on purpose (explicit message, pinned upstream)
            ctx.inadm()
            ctx.count("rejected_all_singleton_sptensor")
            return
        if adm or not _benign(e):
            ctx.fail(op, exc_symptom(e), f"{name} shape={list(A.shape)} n={n} r={r} (as {argf}) flipsign={flip} adm={adm} :: "
                     + short_tb(e), variant=path, case=sub)
        else:
            ctx.inadm()
            ctx.count("inadmissible_solver_error")
        return
    ctx.flag(f"path:{path}:{kind}")
    if O.diff_snapshot(before, X):
        fail("operand_mutated", str(O.diff_snapshot(before, X)))
    if not isinstance(V, np.ndarray):
        fail("wrong_type", str(type(V)))
        return
    if V.shape != (size, r):
        fail("wrong_shape", f"{V.shape} want {(size, r)}")
        return
    if not adm:
        ctx.inadm()
        return
    ctx.flag(f"adm:{path}:{kind}")
    ctx.flag(f"adm:args:{argf}:{kind}")
    # --- real columns
    if np.iscomplexobj(V):
        fail("wrong_dtype", f"dtype {V.dtype}, max |imag| = {float(np.max(np.abs(V.imag))):.3g}")
        if float(np.max(np.abs(V.imag))) > 1e-9:
            return
        V = V.real
    elif V.dtype.kind != "f":
        fail("wrong_dtype", f"dtype {V.dtype}")
        return
    V = np.asarray(V, dtype=float)
    if not np.all(np.isfinite(V)):
        fail("wrong_value", "non-finite entries")
        return
    ok = True
    # --- orthonormal columns
    e_orth = float(np.max(np.abs(V.T @ V - np.eye(r))))
    if e_orth > TOL_ORTH:
        fail("not_orthonormal", f"max|V'V - I| = {e_orth:.3g}")
        ok = False
    # --- eigenvectors of the r largest eigenvalues, decreasing
    if ok:
        res = float(np.max(np.abs(G @ V - V * w[:r][None, :]))) / lam1
        if res > TOL_EIG:
            ray = np.diag(V.T @ G @ V)
            fail("wrong_value", f"max|G V - V diag(lambda_1..r)|/lambda_1 = {res:.3g}; Rayleigh quotients "
                                f"{np.round(ray, 6).tolist()} want {np.round(w[:r], 6).tolist()}; V={np.round(V, 4).tolist()}")
            ok = False
    # --- maximal energy
    if ok:
        en = float(np.trace(V.T @ G @ V))
        if abs(en - float(np.sum(w[:r]))) > TOL_EIG * lam1 * r:
            fail("wrong_energy", f"tr(V'GV) = {en!r} want {float(np.sum(w[:r]))!r}")
            ok = False
    # --- same subspace as the reference (hence the same in every holder)
    if ok:
        Pr = Vref[:, :r] @ Vref[:, :r].T
        e_proj = float(np.max(np.abs(V @ V.T - Pr)))
        if e_proj > TOL_PROJ:
            fail("wrong_subspace", f"max|VV' - P_ref| = {e_proj:.3g}")
            ok = False
    # --- sign normalisation
    if flip:
        bad = []
        for c in range(r):
            col = V[:, c]
            m = float(np.max(np.abs(col)))
            cand = col[np.abs(col) >= m - TOL_TIE]
            if not np.any(cand > 0):
                bad.append(c)
        if bad:
            fail("wrong_sign", f"columns {bad}: largest-magnitude entry negative; V={np.round(V, 4).tolist()}")
            ok = False
    if ok and flip and strict:
        # canonical observation: sign pattern of the normalised eigenvectors (robust to rounding)
        # (columns re-signed so that their first non-negligible entry is positive: the library's own choice is
        # decided by rounding when two entries tie in magnitude)
        pat = np.where(np.abs(V) > 1e-6, np.sign(V), 0.0).astype(int)
        for c in range(r):
            nz = np.nonzero(pat[:, c])[0]
            if len(nz) and pat[nz[0], c] < 0:
                pat[:, c] = -pat[:, c]
        ctx.outcome([list(A.shape), n, r, pat])
    if ok and strict:
        ctx.count("strictly_separated_calls")
    ctx.count("admissible_calls")


KINDS = ("tensor", "sptensor", "ktensor", "ttensor")


def finalize(tier, seed, totals):
    """Vacuity control: for every representation the dense side must have been asserted and the iterative
    (ARPACK) solver must actually have been entered - observed through the wrapped scipy entry points."""
    for kind in KINDS:
        missing = []
        if f"path:dense:{kind}" not in totals.flags:
            missing.append(("dense", "no call with r >= size-1 returned"))
        if not any(f"solver:{nm}:{kind}" in totals.flags for nm in ("eigsh", "eigs")):
            missing.append(("iterative", "the ARPACK solver was never entered"))
        for af in argforms(tier):
            if f"adm:args:{af}:{kind}" not in totals.flags:
                missing.append(("args", f"no admissible call with (n, r) given as {af} was asserted"))
        for path, why in missing:
            totals.failures.append({"check": "nvecs", "op": kind + ".nvecs", "variant": path,
                                    "symptom": "vacuous", "case": {"check": "vacuity", "kind": kind, "path": path},
                                    "detail": why + " for this representation: the bounds no longer cover this part of the scope"})


def _run_vacuity(case, ctx):
    ctx.fail(case["kind"] + ".nvecs", "vacuous", "replay the whole tier instead", variant=case["path"], case=case)
