"""C02 - multilinear products equal their definition in every representation."""

import itertools
from math import prod

import numpy as np

from mc import holders as H
from mc import observe as O
from mc import refmodel as rm
from mc import space
from mc.props.C01 import Probe

ID = "C02"
RULE = ("product explorer: (holder of an explicit integer-valued array, dense and coordinate holders in every storage dtype "
        "that holds the values exactly) x (operation) x (mode designation: every non-empty "
        "ordered selection of modes as `dims` with multiplicand lists of length |dims| and N, and every subset via "
        "`exclude_dims`) x (value family of the multiplicands: small integers / the same integers times 1/2).  "
        "Reference = explicit index sums of mc/refmodel.py on the expanded float64 array; comparison is exact. "
        "Non-trivial: the reference result has a non-zero entry and the operand has >= 2 cells.")
ASSUMPTIONS = ["reference sums in mc/refmodel.py (einsum/tensordot on the expanded array)",
               "integer operand values and integer or dyadic (k/2) multiplicand values: all sums/products exact in float64",
               "integer storage dtypes are wide enough for the stored values (int64/int32, |value| < 2^15); boolean storage is "
               "outside the scope (the library's matricized paths reject non-numeric data and numpy's boolean arithmetic is logical)",
               "holder type of results observed, not asserted"]
BOUNDS = {
    "quick": "shapes order<=3,size<=3,cells<=8 + (2,2,2,2),(2,1,2,2); holders: dense (generic, half zero, grown), sparse "
             "(empty, one, <50%, >50%, full; identity+reversed order), dense/sparse each stored as float64 and int64, "
             "Kruskal R=2 (weights 2,-1), Tucker dense/sparse core, sums of 2 mixed parts; every designation; multiplicands "
             "(ttv vectors, ttm matrices, mttkrp factors, scale factors, reconstruct matrix, ttsv vector, second ttt operand) "
             "integer and half-integer; innerprod against every partner holder in both storage dtypes; ttt all pairings x "
             "storage dtypes of both operands; ttsv cubical order<=4 x storage dtype",
    "thorough": "shapes order<=4,size<=3,cells<=24; storage dtypes float64, int64, int32; same operations",
}
CHUNK = 4


def _shapes(tier):
    if tier == "thorough":
        return space.shapes(4, 3, 24)
    return space.shapes(3, 3, 8) + [(2, 2, 2, 2), (2, 1, 2, 2)]


def sparse_patterns(n):
    pats = [("empty", [0] * n)]
    if n >= 1:
        pats.append(("one", [1 if i == n - 1 else 0 for i in range(n)]))
    if n >= 3:
        pats.append(("lt50", [1 if i % 3 == 1 else 0 for i in range(n)]))
        pats.append(("gt50", [0 if i % 3 == 1 else 1 for i in range(n)]))
    pats.append(("full", [1] * n))
    out, seen = [], set()
    for nm, p in pats:
        if tuple(p) not in seen:
            seen.add(tuple(p))
            out.append((nm, p))
    return out


# storage dtypes of explicit (dense / coordinate) holders besides float64; every cell value is a small odd integer, so
# both hold the data exactly and the denoted array (the reference) is unchanged
STORAGE_DTYPES = {"quick": ("int64",), "thorough": ("int64", "int32")}

# value families of the multiplicands (vectors, matrices, factor matrices, scale factors, second ttt operand):
# "int" = small integers, "half" = the same integers times 1/2 (dyadic, so every sum/product stays exact in float64,
# but a result that is truncated / accumulated in the operand's integer storage dtype is wrong)
MULT_FAMILIES = ("int", "half")


def _mscale(mv):
    return {"int": 1.0, "half": 0.5}[mv or "int"]


def holder_zoo(shape, seed, kinds=("tensor", "sptensor", "ktensor", "ttensor", "sumtensor"), dtypes=("int64",)):
    zoo = _holder_zoo_f64(shape, seed, kinds)
    out = []
    for h in zoo:
        out.append(h)
        if h["kind"] in ("tensor", "sptensor") and not h.get("grown"):
            # the same array in every other storage dtype
            for dt in dtypes:
                out.append(dict(h, dtype=dt))
    return out


def _holder_zoo_f64(shape, seed, kinds):
    n = prod(shape)
    s = list(shape)
    zoo = []
    if "tensor" in kinds:
        zoo.append({"kind": "tensor", "shape": s, "vseed": seed})
        if n >= 2:
            zoo.append({"kind": "tensor", "shape": s, "vseed": seed, "pat": [1 if i % 2 else 0 for i in range(n)]})
            # non-initial state: a tensor that reached its shape by growth (C-ordered internal buffer)
            zoo.append({"kind": "tensor", "shape": s, "vseed": seed, "grown": True})
    if "sptensor" in kinds:
        for nm, p in sparse_patterns(n):
            k = sum(p)
            zoo.append({"kind": "sptensor", "shape": s, "vseed": seed, "pat": p, "order": None})
            if k >= 2:
                zoo.append({"kind": "sptensor", "shape": s, "vseed": seed, "pat": p, "order": list(reversed(range(k)))})
    if "ktensor" in kinds:
        zoo.append({"kind": "ktensor", "shape": s, "rank": 2, "weights": [2.0, -1.0], "salt": seed, "vseed": seed})
    if "ttensor" in kinds:
        cs = [min(2, x) for x in shape]
        zoo.append({"kind": "ttensor", "shape": s, "core_shape": cs, "core": "dense", "core_pat": None, "salt": seed, "vseed": seed})
        zoo.append({"kind": "ttensor", "shape": s, "core_shape": cs, "core": "sparse",
                    "core_pat": [1 if i % 2 == 0 else 0 for i in range(prod(cs))], "salt": seed + 1, "vseed": seed})
    if "sumtensor" in kinds:
        zoo.append({"kind": "sumtensor", "parts": [
            {"kind": "tensor", "shape": s, "vseed": seed},
            {"kind": "ktensor", "shape": s, "rank": 2, "weights": [1.0, -2.0], "salt": seed + 2, "vseed": seed}]})
        zoo.append({"kind": "sumtensor", "parts": [
            {"kind": "sptensor", "shape": s, "vseed": seed, "pat": [1 if i % 2 == 0 else 0 for i in range(n)], "order": None},
            {"kind": "ttensor", "shape": s, "core_shape": [1] * len(s), "core": "dense", "core_pat": None, "salt": seed, "vseed": seed}]})
    return zoo


def gen_cases(tier, seed):
    dts = STORAGE_DTYPES[tier]
    for shape in _shapes(tier):
        for h in holder_zoo(shape, seed, dtypes=dts):
            for mv in MULT_FAMILIES:
                # "mv" is only written for the non-default family (older replay files stay valid)
                fam = {} if mv == "int" else {"mv": mv}
                for chk in ("ttv", "mttkrp"):
                    yield dict({"check": chk, "h": h}, **fam)
                if h["kind"] in ("tensor", "sptensor", "ttensor"):
                    yield dict({"check": "ttm", "h": h}, **fam)
                if h["kind"] in ("tensor", "sptensor"):
                    # collapse / contract have no multiplicand: only the scale part is repeated per family
                    yield dict({"check": "reduce", "h": h}, **(fam and dict(fam, part="scale")))
                if h["kind"] == "ttensor":
                    yield dict({"check": "reconstruct", "h": h}, **fam)
            yield {"check": "norm_inner", "h": h, "dts": list(dts)}
            if h["kind"] in ("ktensor", "ttensor"):
                # factor matrices with unit-length but correlated columns (what normalize() leaves behind): the norm is
                # not the norm of the weights / of the core
                yield {"check": "norm_inner", "h": dict(h, fnorm="unit"), "partner": "none"}
            if h["kind"] in ("tensor", "sptensor", "ktensor"):
                yield {"check": "mask", "h": h}
    # tensor times tensor: pairs of small dense tensors, each in every storage dtype, second operand in every value family
    tshapes = [s for s in space.shapes(3, 3, 8)] if tier == "quick" else space.shapes(3, 3, 12)
    for sa in tshapes:
        for sb in tshapes:
            if prod(sa) * prod(sb) <= (64 if tier == "quick" else 144):
                for dta in (None,) + dts:
                    for dtb in (None,) + dts:
                        for mv in MULT_FAMILIES:
                            if mv == "half" and dtb:
                                continue  # a fractional array has no exact integer storage
                            c = {"check": "ttt", "sa": list(sa), "sb": list(sb), "vseed": seed}
                            if dta or dtb:
                                c["dt"] = [dta, dtb]
                            if mv != "int":
                                c["mv"] = mv
                            yield c
    for shape in [(2, 2), (3, 3), (2, 2, 2), (3, 3, 3), (2, 2, 2, 2)] + ([(3, 3, 3, 3), (2, 2, 2, 2, 2)] if tier == "thorough" else []):
        for pat in (None, "half"):
            for dt in (None,) + dts:
                for mv in MULT_FAMILIES:
                    c = {"check": "ttsv", "shape": list(shape), "pat": pat, "vseed": seed}
                    if dt:
                        c["dtype"] = dt
                    if mv != "int":
                        c["mv"] = mv
                    yield c


def run_case(case, ctx):
    globals()["_run_" + case["check"]](case, ctx)


# ---------------------------------------------------------------------------


def designations(N):
    """(label, kwargs for dims/exclude_dims as lists, listed modes in multiplicand order | None for by-mode lists,
    selected modes sorted)"""
    out = []
    for dims in space.ordered_subselections(N, 1):
        out.append(("dims_P", {"dims": list(dims)}, list(dims), sorted(dims)))
        if len(dims) < N:
            out.append(("dims_N", {"dims": list(dims)}, None, sorted(dims)))
    for sel in space.subsets(range(N), 1, N - 1):
        excl = [i for i in range(N) if i not in sel]
        out.append(("excl_P", {"exclude_dims": excl}, list(sel), list(sel)))
        out.append(("excl_N", {"exclude_dims": excl}, None, list(sel)))
    return out


def _kw(kw, form):
    if form == "array":
        return {k: np.array(v, dtype=int) for k, v in kw.items()}
    return {k: list(v) for k, v in kw.items()}


def _vec(shape, m, seed, mv=None):
    return np.array(space.int_vector(shape[m], salt=2 * m + 1, seed=seed)) * _mscale(mv)


def _nontrivial(A, want):
    return A.size >= 2 and bool(np.any(np.asarray(want) != 0))


def _value_ok(p, op, res, want, variant):
    try:
        ok = O.same_value(res, want)
    except Exception as e:  # noqa: BLE001
        p.ctx.fail(op, "malformed_result", f"{type(e).__name__}: {e}", variant=variant, case=p.case)
        return False
    if not ok:
        try:
            got = np.asarray(O.value_of(res), dtype=float).tolist()
        except Exception:  # noqa: BLE001
            got = repr(res)
        p.ctx.fail(op, "wrong_value", f"got={got} want={np.asarray(want).tolist()}", variant=variant, case=p.case)
        return False
    if O.kind_of(res) == "sptensor":
        probs = O.wf_sptensor(res)
        if probs:
            p.ctx.fail(op, "malformed:" + ",".join(probs), str(probs), variant=variant, case=p.case)
            return False
    # reported shape of tensor-like results
    if hasattr(res, "shape") and not isinstance(res, np.ndarray) and np.asarray(want).ndim > 0:
        if O.pyshape(res.shape) != np.asarray(want).shape:
            p.ctx.fail(op, "wrong_shape", f"{res.shape} want {np.asarray(want).shape}", variant=variant, case=p.case)
            return False
    return True


def _flag_fill(ctx, op, res, want):
    want = np.asarray(want)
    if want.ndim == 0:
        ctx.flag(op + ":scalar_result")
    elif want.size and np.count_nonzero(want) == 0:
        ctx.flag(op + ":empty_result")
    if O.kind_of(res) == "sptensor":
        ctx.flag(op + ":sparse_result")
    elif O.kind_of(res) == "tensor":
        ctx.flag(op + ":dense_result")
    if want.size and want.ndim > 0:
        ctx.flag(op + (":fill>50" if np.count_nonzero(want) > 0.5 * want.size else ":fill<=50"))


def _sel(case, key, all_items, match):
    """Restrict a batch to the sub-case named in a narrowed (replay) descriptor."""
    if key not in case:
        return all_items
    return [x for x in all_items if match(x, case[key])]


def _run_ttv(case, ctx):
    hd = case["h"]
    A = H.ref_array(hd)
    shape = A.shape
    N = A.ndim
    kind = hd["kind"]
    seed = hd.get("vseed", 0) if "vseed" in hd else 0
    ctx.state()
    vecs0 = [_vec(shape, m, seed, case.get("mv")) for m in range(N)]
    # second multiplicand family: a zero component (a product that vanishes must not stay behind as a stored zero)
    vecsz = [v.copy() for v in vecs0]
    for v in vecsz:
        v[len(v) - 1] = 0.0
    items = []
    for label, kw, listed, sel in designations(N):
        for form in ("array", "list", "zerovec"):
            items.append((label, kw, listed, sel, form))
    items = _sel(case, "desig", items, lambda x, d: [x[0], x[1], x[4]] == d)
    for label, kw, listed, sel, form in items:
        sub = dict(case, desig=[label, kw, form])
        p = Probe(ctx, sub)
        vecs = vecsz if form == "zerovec" else vecs0
        form = "array" if form == "zerovec" else form
        mult = [vecs[m].copy() for m in (listed if listed is not None else range(N))]
        want = rm.ttv(A, {m: vecs[m] for m in sel})
        X = H.build(hd)
        ok, res = p.call(kind + ".ttv", lambda: X.ttv(mult, **_kw(kw, form)), variant=label)
        if not ok:
            continue
        _flag_fill(ctx, kind + ".ttv", res, want)
        if _value_ok(p, kind + ".ttv", res, want, label) and _nontrivial(A, want):
            ctx.nontriv()
        ctx.outcome(np.asarray(want))
    vecs = vecs0
    # single vector forms
    singles = _sel(case, "single", [(m, f) for m in range(N) for f in ("int", "array", "default_all")], lambda x, d: list(x) == d)
    for m, f in singles:
        sub = dict(case, single=[m, f], desig="none")
        p = Probe(ctx, sub)
        X = H.build(hd)
        if f == "default_all":
            if m != 0:
                continue
            want = rm.ttv(A, {k: vecs[k] for k in range(N)})
            ok, res = p.call(kind + ".ttv", lambda: X.ttv([v.copy() for v in vecs]), variant="all_default")
            lab = "all_default"
        else:
            want = rm.ttv(A, {m: vecs[m]})
            d = m if f == "int" else np.array([m])
            ok, res = p.call(kind + ".ttv", lambda: X.ttv(vecs[m].copy(), dims=d), variant="single")
            lab = "single"
        if ok:
            _flag_fill(ctx, kind + ".ttv", res, want)
            _value_ok(p, kind + ".ttv", res, want, lab)


def _run_ttm(case, ctx):
    hd = case["h"]
    A = H.ref_array(hd)
    shape = A.shape
    N = A.ndim
    kind = hd["kind"]
    seed = hd.get("vseed", 0)
    ctx.state()
    J = 4
    mats = [np.array(space.int_matrix(J, shape[m], salt=3 * m + 1, seed=seed)) * _mscale(case.get("mv")) for m in range(N)]
    items = []
    for label, kw, listed, sel in designations(N):
        for tr in (False, True):
            items.append((label, kw, listed, sel, tr))
    items = _sel(case, "desig", items, lambda x, d: [x[0], x[1], x[4]] == d)
    for label, kw, listed, sel, tr in items:
        sub = dict(case, desig=[label, kw, tr])
        p = Probe(ctx, sub)
        given = [(mats[m].T.copy() if tr else mats[m].copy()) for m in (listed if listed is not None else range(N))]
        want = rm.ttm(A, {m: mats[m] for m in sel})
        X = H.build(hd)
        v = label + ("+T" if tr else "")
        ok, res = p.call(kind + ".ttm", lambda: X.ttm(given, transpose=tr, **_kw(kw, "array")), variant=v)
        if not ok:
            continue
        _flag_fill(ctx, kind + ".ttm", res, want)
        if _value_ok(p, kind + ".ttm", res, want, v) and _nontrivial(A, want):
            ctx.nontriv()
    singles = _sel(case, "single", [(m, f, tr) for m in range(N) for f in ("int", "array") for tr in (False, True)],
                   lambda x, d: list(x) == d)
    for m, f, tr in singles:
        sub = dict(case, single=[m, f, tr], desig="none")
        p = Probe(ctx, sub)
        X = H.build(hd)
        want = rm.ttm(A, {m: mats[m]})
        d = m if f == "int" else np.array([m])
        M = mats[m].T.copy() if tr else mats[m].copy()
        ok, res = p.call(kind + ".ttm", lambda: X.ttm(M, dims=d, transpose=tr), variant="single" + ("+T" if tr else ""))
        if ok:
            _flag_fill(ctx, kind + ".ttm", res, want)
            _value_ok(p, kind + ".ttm", res, want, "single" + ("+T" if tr else ""))
    if "desig" not in case and "single" not in case:
        # all modes at once, default dims
        p = Probe(ctx, dict(case, desig="none", single="none", alld=True))
        X = H.build(hd)
        want = rm.ttm(A, {m: mats[m] for m in range(N)})
        ok, res = p.call(kind + ".ttm", lambda: X.ttm([m.copy() for m in mats]), variant="all_default")
        if ok:
            _value_ok(p, kind + ".ttm", res, want, "all_default")


def _run_mttkrp(case, ctx):
    import pyttb as ttb

    hd = case["h"]
    A = H.ref_array(hd)
    shape = A.shape
    N = A.ndim
    kind = hd["kind"]
    seed = hd.get("vseed", 0)
    ctx.state()
    R = 2
    U = [np.array(space.int_matrix(shape[m], R, salt=5 * m + 2, seed=seed)) * _mscale(case.get("mv")) for m in range(N)]
    w = np.array([2.0, -1.0])
    if N < 2:
        ctx.inadm()  # mttkrp is documented as invalid for tensors with fewer than 2 dimensions
        return
    ns = _sel(case, "n", list(range(N)), lambda x, d: x == d)
    for n in ns:
        for form in _sel(case, "form", ["list", "ktensor", "ktensor_unit"], lambda x, d: x == d):
            sub = dict(case, n=n, form=form)
            p = Probe(ctx, sub)
            X = H.build(hd)
            if form == "list":
                arg = [u.copy() for u in U]
                want = rm.mttkrp(A, U, n)
            elif form == "ktensor":
                arg = ttb.ktensor([u.copy(order="F") for u in U], w.copy())
                want = rm.mttkrp(A, U, n, w)
            else:
                arg = ttb.ktensor([u.copy(order="F") for u in U], np.ones(R))
                want = rm.mttkrp(A, U, n)
            if N == 1 and kind in ("tensor",) and form == "list":
                pass
            ok, res = p.call(kind + ".mttkrp", lambda: X.mttkrp(arg, n), variant=form)
            if not ok:
                continue
            if _value_ok(p, kind + ".mttkrp", res, want, form) and _nontrivial(A, want):
                ctx.nontriv()
            if form == "ktensor":
                # the Kruskal operand must be unchanged (weights are redistributed on a copy)
                if not (np.array_equal(arg.weights, w) and all(np.array_equal(a, b) for a, b in zip(arg.factor_matrices, U))):
                    ctx.fail(kind + ".mttkrp", "operand_mutated", "ktensor operand changed", variant=form, case=sub)
    if kind == "tensor" and "n" not in case:
        for form in ("list", "ktensor"):
            sub = dict(case, n="all", form=form)
            p = Probe(ctx, sub)
            X = H.build(hd)
            arg = [u.copy() for u in U] if form == "list" else ttb.ktensor([u.copy(order="F") for u in U], w.copy())
            ok, res = p.call("tensor.mttkrps", lambda: X.mttkrps(arg), variant=form)
            if ok:
                good = isinstance(res, list) and len(res) == N
                if good:
                    for n in range(N):
                        want = rm.mttkrp(A, U, n, w if form == "ktensor" else None)
                        good &= rm.same(np.asarray(res[n]), want)
                if not good:
                    ctx.fail("tensor.mttkrps", "wrong_value", "", variant=form, case=sub)


def _partner_zoo(shape, seed, dtypes=()):
    """Second operands for innerprod (different values from the first), in every storage dtype."""
    return holder_zoo(shape, seed + 3, kinds=("tensor", "sptensor", "ktensor", "ttensor"), dtypes=tuple(dtypes))


_INNER_OK = {
    "tensor": ("tensor", "sptensor", "ktensor", "ttensor"),
    "sptensor": ("tensor", "sptensor", "ktensor", "ttensor"),
    "ktensor": ("tensor", "sptensor", "ktensor", "ttensor"),
    "ttensor": ("tensor", "sptensor", "ktensor", "ttensor"),
    "sumtensor": ("tensor", "sptensor", "ktensor", "ttensor"),
}


def _run_norm_inner(case, ctx):
    hd = case["h"]
    A = H.ref_array(hd)
    kind = hd["kind"]
    ctx.state()
    if case.get("partner") in (None, "none") and kind != "sumtensor":
        p = Probe(ctx, dict(case, partner="none"))
        X = H.build(hd)
        ok, res = p.call(kind + ".norm", lambda: X.norm())
        if ok:
            want = rm.norm2(A)
            got = float(res) ** 2
            if not abs(got - want) <= 1e-9 * max(1.0, want):
                ctx.fail(kind + ".norm", "wrong_value", f"norm^2={got} want {want}", case=dict(case, partner="none"))
            elif want > 0:
                ctx.nontriv()
    if case.get("partner") == "none":
        return
    partners = _partner_zoo(A.shape, hd.get("vseed", 0) if kind != "sumtensor" else 0, case.get("dts", ()))
    partners = [q for q in partners if q["kind"] in _INNER_OK[kind]]
    partners = _sel(case, "partner", partners, lambda x, d: x == d)
    for q in partners:
        sub = dict(case, partner=q)
        p = Probe(ctx, sub)
        B = H.ref_array(q)
        X, Y = H.build(hd), H.build(q)
        want = rm.innerprod(A, B)
        v = q["kind"]
        ok, res = p.call(kind + ".innerprod", lambda: X.innerprod(Y), variant=v)
        if not ok:
            continue
        try:
            got = float(res)
        except Exception:  # noqa: BLE001
            ctx.fail(kind + ".innerprod", "wrong_type", repr(type(res)), variant=v, case=sub)
            continue
        if got != want:
            ctx.fail(kind + ".innerprod", "wrong_value", f"{got} want {want}", variant=v, case=sub)
        elif want != 0:
            ctx.nontriv()


def _sparse_reduce(A, dims, fun):
    """Reduce the NON-ZERO entries of each fibre; empty fibre -> 0 (what a coordinate format implements)."""
    dims = sorted(dims)
    rem = [k for k in range(A.ndim) if k not in dims]
    b = np.transpose(A, rem + dims).reshape([A.shape[k] for k in rem] + [-1])
    out = np.zeros([A.shape[k] for k in rem])
    for sub in (rm.cells(out.shape) if rem else [()]):
        nz = b[sub][b[sub] != 0]
        out[sub] = fun(nz) if nz.size else 0.0
    return out


_REDUCERS = {"sum": np.sum, "max": np.max, "min": np.min}


def _run_reduce(case, ctx):
    """collapse, contract, scale on dense and sparse holders."""
    import pyttb as ttb

    hd = case["h"]
    A = H.ref_array(hd)
    shape = A.shape
    N = A.ndim
    kind = hd["kind"]
    seed = hd.get("vseed", 0)
    ctx.state()
    # ---- collapse
    if case.get("part") in (None, "collapse"):
        dimsets = [None] + [list(s) for s in space.subsets(range(N), 1, N)]
        items = [(d, r) for d in dimsets for r in _REDUCERS]
        items = _sel(case, "collapse", items, lambda x, d: list(x) == d)
        for dims, rname in items:
            sub = dict(case, part="collapse", collapse=[dims, rname])
            p = Probe(ctx, sub)
            X = H.build(hd)
            fun = _REDUCERS[rname]
            real_dims = list(range(N)) if dims is None else dims
            if kind == "sptensor" and rname != "sum":
                want = _sparse_reduce(A, real_dims, fun)
            else:
                want = rm.collapse(A, real_dims, fun)
            args = [] if dims is None else [np.array(dims, dtype=int)]
            if rname != "sum" or dims is not None:
                if dims is None:
                    call = lambda: X.collapse(None, fun)  # noqa: E731
                else:
                    call = (lambda: X.collapse(*args)) if rname == "sum" else (lambda: X.collapse(args[0], fun))
            else:
                call = lambda: X.collapse()  # noqa: E731
            ok, res = p.call(kind + ".collapse", call, variant=rname)
            if ok:
                _flag_fill(ctx, kind + ".collapse", res, want)
                if _value_ok(p, kind + ".collapse", res, want, rname) and _nontrivial(A, want):
                    ctx.nontriv()
    # ---- contract
    if case.get("part") in (None, "contract"):
        pairs = [(i, j) for i in range(N) for j in range(N) if i != j and shape[i] == shape[j]]
        pairs = _sel(case, "contract", pairs, lambda x, d: list(x) == d)
        for i, j in pairs:
            sub = dict(case, part="contract", contract=[i, j])
            p = Probe(ctx, sub)
            X = H.build(hd)
            want = rm.contract(A, i, j)
            ok, res = p.call(kind + ".contract", lambda: X.contract(i, j))
            if ok:
                _flag_fill(ctx, kind + ".contract", res, want)
                if _value_ok(p, kind + ".contract", res, want, "") and _nontrivial(A, want):
                    ctx.nontriv()
    # ---- scale
    if case.get("part") in (None, "scale"):
        items = []
        for d in range(N):
            items.append(("vector", [d]))
            items.append(("vector_zero", [d]))
            items.append(("tensor", [d]))
            if kind == "sptensor":
                items.append(("sptensor", [d]))
        for ds in space.subsets(range(N), 2, N):
            items.append(("tensor", list(ds)))
            if kind == "sptensor":
                items.append(("sptensor", list(ds)))
        items = _sel(case, "scale", items, lambda x, d: list(x) == d)
        for fkind, dims in items:
            sub = dict(case, part="scale", scale=[fkind, dims])
            p = Probe(ctx, sub)
            X = H.build(hd)
            fshape = tuple(shape[d] for d in dims)
            fvals = [float(2 + l) * (-1 if l % 2 else 1) * _mscale(case.get("mv")) for l in range(prod(fshape))]
            if fkind == "vector_zero" or fkind == "sptensor":
                fvals[0] = 0.0
            F = rm.arr(fshape, fvals)
            want = rm.scale(A, F, dims)
            if fkind in ("vector", "vector_zero"):
                farg = np.array(fvals)
            elif fkind == "tensor":
                farg = ttb.tensor(np.asfortranarray(F))
            else:
                farg = H.build({"kind": "sptensor", "shape": list(fshape), "vals": fvals, "order": None})
            ok, res = p.call(kind + ".scale", lambda: X.scale(farg, np.array(dims, dtype=int)), variant=fkind)
            if ok:
                if _value_ok(p, kind + ".scale", res, want, fkind) and _nontrivial(A, want):
                    ctx.nontriv()


def _run_mask(case, ctx):
    hd = case["h"]
    A = H.ref_array(hd)
    shape = A.shape
    n = A.size
    kind = hd["kind"]
    ctx.state()
    cl = rm.cells(shape)
    wpats = [[1] * n, [1 if i % 2 == 0 else 0 for i in range(n)], [0] * n, [1 if i == n - 1 else 0 for i in range(n)]]
    wkinds = {"tensor": ["tensor"], "sptensor": ["sptensor", "sptensor_rev"], "ktensor": ["tensor", "sptensor", "sptensor_rev"]}[kind]
    seenp = []
    for wp in wpats:
        if wp in seenp:
            continue
        seenp.append(wp)
        for wk in wkinds:
            if "w" in case and case["w"] != [wp, wk]:
                continue
            sub = dict(case, w=[wp, wk])
            p = Probe(ctx, sub)
            k = sum(wp)
            if wk == "tensor":
                W = H.build({"kind": "tensor", "shape": list(shape), "vals": [float(x) for x in wp]})
            else:
                order = list(reversed(range(k))) if wk == "sptensor_rev" else None
                W = H.build({"kind": "sptensor", "shape": list(shape), "vals": [float(x) for x in wp], "order": order})
            X = H.build(hd)
            ok, res = p.call(kind + ".mask", lambda: X.mask(W), variant=wk)
            if not ok:
                continue
            wsubs = W.find()[0] if k else np.empty((0, len(shape)), dtype=int)
            got = np.asarray(res, dtype=float).reshape(-1)
            want = np.array([A[tuple(int(i) for i in r)] for r in np.asarray(wsubs).reshape(-1, len(shape)).tolist()], dtype=float) if k else np.array([])
            if got.shape != want.shape or not np.array_equal(got, want):
                ctx.fail(kind + ".mask", "wrong_value", f"got={got.tolist()} want={want.tolist()}", variant=wk, case=sub)
            elif k and np.any(want != 0):
                ctx.nontriv()


def _run_reconstruct(case, ctx):
    hd = case["h"]
    A = H.ref_array(hd)
    shape = A.shape
    N = A.ndim
    ctx.state()
    p = Probe(ctx, case)
    X = H.build(hd)
    ok, res = p.call("ttensor.reconstruct", lambda: X.reconstruct(), variant="full")
    if ok:
        _value_ok(p, "ttensor.reconstruct", res, A, "full")
    for m in range(N):
        idx = list(reversed(range(shape[m])))[: max(1, shape[m] - 1)] + [0]
        sub = dict(case, mode=m)
        if "mode" in case and case["mode"] != m:
            continue
        q = Probe(ctx, sub)
        X = H.build(hd)
        want = np.take(A, idx, axis=m)
        ok, res = q.call("ttensor.reconstruct", lambda: X.reconstruct(np.array(idx), m), variant="rows")
        if ok and _value_ok(q, "ttensor.reconstruct", res, want, "rows") and _nontrivial(A, want):
            ctx.nontriv()
        M = np.array(space.int_matrix(2, shape[m], salt=m)) * _mscale(case.get("mv"))
        X = H.build(hd)
        want = rm.ttm(A, {m: M})
        ok, res = q.call("ttensor.reconstruct", lambda: X.reconstruct(M.copy(), m), variant="matrix")
        if ok:
            _value_ok(q, "ttensor.reconstruct", res, want, "matrix")
    if "mode" not in case and N >= 2:
        idxs = [np.array([shape[m] - 1, 0]) for m in range(N)]
        X = H.build(hd)
        want = A
        for m in range(N):
            want = np.take(want, idxs[m], axis=m)
        q = Probe(ctx, dict(case, mode="all"))
        ok, res = q.call("ttensor.reconstruct", lambda: X.reconstruct([i.copy() for i in idxs]), variant="rows_all")
        if ok:
            _value_ok(q, "ttensor.reconstruct", res, want, "rows_all")


def _run_ttt(case, ctx):
    sa, sb = tuple(case["sa"]), tuple(case["sb"])
    seed = case["vseed"]
    ha = {"kind": "tensor", "shape": list(sa), "vseed": seed}
    hb = {"kind": "tensor", "shape": list(sb), "vseed": seed + 1}
    dta, dtb = case.get("dt", [None, None])
    if dta:
        ha["dtype"] = dta
    if dtb:
        hb["dtype"] = dtb
    if case.get("mv"):
        hb["vals"] = [v * _mscale(case["mv"]) for v in space.dense_values(sb, None, seed + 1)]
    A, B = H.ref_array(ha), H.ref_array(hb)
    ctx.state()
    items = [("outer", [], [])]
    for k in range(1, min(len(sa), len(sb)) + 1):
        # both contraction lists in every order: the i-th listed mode of the receiver pairs with the i-th of the argument
        for da in itertools.permutations(range(len(sa)), k):
            for db in itertools.permutations(range(len(sb)), k):
                if all(sa[i] == sb[j] for i, j in zip(da, db)):
                    items.append(("inner" if k == len(sa) == len(sb) else "contracted", list(da), list(db)))
    items = _sel(case, "pairing", items, lambda x, d: list(x) == d)
    for label, da, db in items:
        sub = dict(case, pairing=[label, da, db])
        p = Probe(ctx, sub)
        X, Y = H.build(ha), H.build(hb)
        want = rm.ttt_outer(A, B) if label == "outer" else rm.ttt(A, B, da, db)
        if label == "outer":
            ok, res = p.call("tensor.ttt", lambda: X.ttt(Y), variant=label)
        else:
            ok, res = p.call("tensor.ttt", lambda: X.ttt(Y, np.array(da), np.array(db)), variant=label)
        if ok and _value_ok(p, "tensor.ttt", res, want, label) and A.size * B.size >= 2:
            ctx.nontriv()
        if ok and len(da) == 1:
            ok, res = p.call("tensor.ttt", lambda: H.build(ha).ttt(H.build(hb), da[0], db[0]), variant=label + "_int")
            if ok:
                _value_ok(p, "tensor.ttt", res, want, label + "_int")
        if ok and label != "outer" and da == db:
            ok, res = p.call("tensor.ttt", lambda: H.build(ha).ttt(H.build(hb), np.array(da)), variant=label + "_same")
            if ok:
                _value_ok(p, "tensor.ttt", res, want, label + "_same")


def _run_ttsv(case, ctx):
    shape = tuple(case["shape"])
    N = len(shape)
    n = prod(shape)
    pat = [1 if i % 2 else 0 for i in range(n)] if case["pat"] == "half" else None
    hd = {"kind": "tensor", "shape": list(shape), "vseed": case["vseed"], "pat": pat}
    if case.get("dtype"):
        hd["dtype"] = case["dtype"]
    A = H.ref_array(hd)
    v = np.array(space.int_vector(shape[0], salt=1, seed=case["vseed"])) * _mscale(case.get("mv"))
    ctx.state()
    items = [(sd, ver) for sd in [None] + list(range(N - 1)) for ver in (None, 1, 2)]
    items = _sel(case, "arg", items, lambda x, d: list(x) == d)
    for sd, ver in items:
        sub = dict(case, arg=[sd, ver])
        p = Probe(ctx, sub)
        X = H.build(hd)
        keep = 0 if sd is None else sd + 1
        want = rm.ttv(A, {m: v for m in range(keep, N)})
        ok, res = p.call("tensor.ttsv", lambda: X.ttsv(v.copy(), sd, ver), variant=f"v{ver}")
        if ok and _value_ok(p, "tensor.ttsv", res, want, f"v{ver}") and _nontrivial(A, want):
            ctx.nontriv()
