"""C20 - generators and aggregating constructors build what they advertise.

Sub-checks
  dense      tenones / tenzeros / tenrand / tensor.from_function over every shape
  ktfun      ktensor.from_function over every shape x rank
  diag       tendiag / sptendiag : element vectors x requested shapes (shorter, longer, None)
  eye        teneye : closed form + identity action on unit vectors; odd orders rejected
  agg        sptensor.from_aggregator : every subscript word x value word x reducer x value STORAGE dtype
             (float64 / int64 / single and half precision / narrow signed and unsigned integers with their extreme
             values / booleans); reference = the reducer applied to the values as NUMBERS (exact Python arithmetic,
             i.e. numpy's own reduction convention: a combined value may leave the storage of the inputs)
  sprand     sptenrand / sptensor.from_function under the global seed (seeded mode)
  script     the same two generators under a scripted random source (environment explorer)

The scripted random source (ScriptedRandom) lives in this module: it replaces the numpy.random draw
functions for the duration of ONE execution; every draw of a subscript row is a choice point
("which cell of the tiny index space does this draw hit").
"""

import itertools
from math import factorial, prod

import numpy as np

from mc import observe as O
from mc import refmodel as rm
from mc import space
from mc.engine import CaseTimeout, exc_symptom, short_tb

ID = "C20"
RULE = ("product explorer over (generator x argument tuple) with every argument domain enumerated completely, plus "
        "an environment explorer for the random sparse generators: numpy.random is replaced by a scripted source, "
        "each subscript-row draw is a choice point over the cells of the index space; all first-attempt draw words "
        "are enumerated (cells^k <= cap) and, from each default policy (cycle, reverse cycle, each cell twice, "
        "constant cell c, lowest/highest representable draw), every script with <= D deviations.  Non-trivial: a "
        "shape with >= 2 cells and a reference answer that is neither empty nor all-equal (dense generators: >= 2 "
        "cells; aggregator: a repeated subscript; random generators: 1 <= k, draw word with a collision or k >= 2).  "
        "Aggregator values carry a storage dtype: the complete subscript words run float64 (and, up to two subscripts, int64 "
        "and every other storage); beyond two subscripts the other storages run on one subscript word per set partition of "
        "the positions (multiplicity pattern, groups bound to unsorted cells).  Each storage has its own alphabet of exactly "
        "held values: the generic letters plus, for integer storages narrower than the platform integer, the extreme values "
        "of the dtype, so that sums/products of duplicates leave the storage; the reference combines Python numbers exactly "
        "and a case is inadmissible only when the combined value leaves the platform integer.  Diagonal generators also "
        "receive their element vector in int64 / int8 / float32 / boolean storage.")
ASSUMPTIONS = [
    "reference semantics in mc/props/C20.py and mc/refmodel.py (loops, Python dict/list reducers) are correct",
    "results are observed through their attributes (data / subs / vals / weights / factor_matrices / shape)",
    "pyttb reaches the global random stream only through attributes of the numpy.random module "
    "(uniform, random_sample, rand, choice, permutation, randint, shuffle); any other draw function raises under "
    "the scripted source and is reported",
    "seeded mode: numpy.random.seed(s) for the enumerated seed alphabet is the 'global seed' of the statement",
    "aggregator: 'combining with the reducer' is read on the values as numbers (numpy's reduction convention: sum/prod of "
    "booleans and narrow integers are taken in the platform integer); results that leave int64 are not asserted; a floating "
    "storage may round the combined value once to its own precision",
    "a request of exactly all cells through nonzeros=/from_function may be rejected with the documented "
    "AssertionError; density=1.0 is documented as admissible for sptenrand and must succeed",
]
BOUNDS = {
    "quick": "dense/ktfun: shapes order<=4,size<=3,cells<=24 (+int/list/array shape forms), ranks 1-3, layouts F/C, "
             "tenrand seeds 0-3 + scripted values; diag: element vectors length 1-3 (no zero / each single zero) x {None + "
             "every shape of order 1-3, sizes 1-3}; eye: orders 2,4,6 x sizes 1-3 x 63 integer directions, odd orders "
             "1,3,5 rejected; agg: every word of <=3 subscripts over 2x2 (explicit / inferred / larger shape), (3,), "
             "(2,1,2) x every value word over {2,-2,3,0} x 7 reducers, words of 4 subscripts over 2x2 x 9 value words; value "
             "storage: float64 everywhere, <=2 subscripts also int64 + {float32, float16, int32, int16, int8, uint64, uint32, "
             "uint16, uint8, bool} x every value word over the storage's alphabet ({2,-2|1,3,0} + dtype max/min for <64-bit "
             "integers; bool {1,0}) x 7 reducers + default argument; 3 subscripts: the 5 set-partition words over 2x2 x these "
             "10 storages x every value word; diag element storage float64/int64/int8/float32/bool; "
             "sprand (seeded): shapes order<=3,size<=3,cells<=9 x k=0..cells x {nonzeros, density k/cells, count, "
             "fraction, sub-1 density} x seeds 0-7, each twice; script: shapes (2,),(3,),(1,3),(2,2),(2,1,2) x k=1..cells "
             "x {sptenrand, from_function}: every first-attempt draw word x 2 continuations + policies {cycle, reverse "
             "cycle: <=2 deviations; each-cell-twice, lowest/highest draw, constant cell c (all c), first m batches "
             "collide (m in 1,2,3,5,9,10,11,15,19,20,21): 2 deviations while the estimate <= 8000 scripts, else 1}",
    "thorough": "dense/ktfun: order<=5,size<=3,cells<=48; diag: lengths 1-4, shapes order<=4; eye adds (8,2); agg: 2x2 "
                "explicit shape: every word of <=4 subscripts x every value word + 5 subscripts x 9 value words; other "
                "spaces (adds (2,3) inferred, (2,2,2)): <=3 complete, 4 subscripts x 9 value words (<=6 cells); value storage as in quick plus "
                "the 15 set-partition words of 4 subscripts x 10 storages x every value word; sprand: "
                "shapes order<=4,size<=4,cells<=16 x seeds 0-31 + (4,4,4),(2,3,4) at 7 fill levels; script: adds (4,),"
                "(2,3),(2,2,2),(3,3); first-attempt words complete while cells^k <= 50000 (else the first d draws); "
                "2 deviations while the estimate <= 35000 scripts, else 1",
}
CHUNK = 2


# =====================================================================================
# scripted random source (environment explorer)


class ScriptError(Exception):
    """The implementation asked the scripted source for something it does not own."""


class ScriptDiverged(Exception):
    """A recorded prefix does not fit the choice points of this execution (hard error)."""


_IMPLEMENTED = ("uniform", "random_sample", "random", "ranf", "sample", "rand", "choice", "permutation",
                "randint", "shuffle")
_LEAVE = ("seed", "get_state", "set_state", "default_rng", "get_bit_generator", "set_bit_generator", "bytes")

LOW, HIGH = -1, -2  # special answers: lowest positive / highest representable draw in every mode
_TINY = float(np.finfo(float).tiny)  # (an exact 0.0 is a measure-zero draw that would be an explicit zero VALUE)


def _edge_u(i, s, side):
    """Extreme double u in [0,1) with floor(u*s) == i (reference side decides the cell)."""
    if side == "mid":
        return (i + 0.5) / s
    if side == "lo":
        u = i / s
        while int(u * s) != i:
            u = np.nextafter(u, 1.0)
        return float(u)
    u = np.nextafter((i + 1) / s, 0.0)
    while int(u * s) != i or u >= 1.0:
        u = np.nextafter(u, 0.0)
    return float(u)


class ScriptedRandom:
    """Owns numpy.random for one execution.

    A 2-D draw of unit-uniform numbers whose second extent equals the tensor order is a batch of
    subscript-row draws: every row is a choice point with `cells` options; option c is answered with the
    mid-point of cell c (F-order), the special answers LOW/HIGH with the smallest normal / largest double below 1 in
    every mode.  All other uniform draws are value draws (a fixed sequence of distinct dyadic numbers in
    (0,1)).  choice / permutation / randint consume one choice point per pick.
    """

    def __init__(self, shape=None, prefix=(), policy=("cycle",), vseed=0):
        self.shape = None if shape is None else tuple(int(s) for s in shape)
        self.N = 0 if shape is None else len(self.shape)
        self.cells = 0 if shape is None else prod(self.shape)
        self.prefix = list(prefix)
        self.policy = tuple(policy)
        self.vseed = vseed
        self.word, self.sig, self.kinds = [], [], []
        self.ucalls = []      # per subscript-draw call: list of answers
        self.values = []      # arrays returned by value draws
        self.calls = []       # (name, size)
        self._t = 0
        self._saved = {}

    # -- choice points -----------------------------------------------------------------
    def _default(self, j, n, kind):
        p = self.policy[0]
        if p == "cycle":
            return j % n
        if p == "rcycle":
            return (n - 1 - j) % n
        if p == "twice":
            return (j // 2) % n
        if p == "const":
            return min(int(self.policy[1]), n - 1)
        if p == "failfirst":   # the first m batches of r draws all land on cell 0, then cycle
            return 0 if j < int(self.policy[1]) * int(self.policy[2]) else j % n
        if p == "low":
            return LOW if kind == "u" else 0
        if p == "high":
            return HIGH if kind == "u" else n - 1
        raise ScriptError(f"unknown policy {self.policy}")

    def _choose(self, n, kind):
        j = len(self.word)
        if j < len(self.prefix):
            a = int(self.prefix[j])
            if a < 0 and kind != "u" or a >= n or a < -2:
                raise ScriptDiverged(f"choice point {j}: recorded answer {a}, options {n}, kind {kind}")
        else:
            a = self._default(j, n, kind)
        self.word.append(a)
        self.sig.append(n)
        self.kinds.append(kind)
        return a

    # -- draws -------------------------------------------------------------------------
    def _value(self):
        t = self._t
        self._t += 1
        return (2 * ((37 * t + 5 + 11 * self.vseed) % 64) + 1) / 128.0 + (t // 64) / 1024.0

    def _unit(self, name, size):
        self.calls.append((name, None if size is None else list(np.atleast_1d(size).tolist())))
        if size is None:
            v = self._value()
            self.values.append(np.array(v))
            return v
        shp = tuple(int(x) for x in np.atleast_1d(size).tolist())
        if self.N and len(shp) == 2 and shp[1] == self.N:
            out = np.zeros(shp)
            answers = []
            for r in range(shp[0]):
                a = self._choose(self.cells, "u")
                answers.append(a)
                if a == LOW:
                    out[r, :] = _TINY
                elif a == HIGH:
                    out[r, :] = np.nextafter(1.0, 0.0)
                else:
                    sub = space.sub_f(self.shape, a)
                    out[r, :] = [_edge_u(i, s, "mid") for i, s in zip(sub, self.shape)]
            self.ucalls.append(answers)
            self.values.append(out.copy())
            return out
        out = np.array([self._value() for _ in range(prod(shp))], dtype=float).reshape(shp)
        self.values.append(out.copy())
        return out

    def uniform(self, low=0.0, high=1.0, size=None):
        u = self._unit("uniform", size)
        if low == 0.0 and high == 1.0:
            return u
        return low + (high - low) * u

    def random_sample(self, size=None):
        return self._unit("random_sample", size)

    def rand(self, *dims):
        return self._unit("rand", tuple(dims) if dims else None)

    def choice(self, a, size=None, replace=True, p=None):
        self.calls.append(("choice", None if size is None else list(np.atleast_1d(size).tolist())))
        pool = list(range(int(a))) if np.ndim(a) == 0 else list(np.asarray(a).tolist())
        n = 1 if size is None else prod(int(x) for x in np.atleast_1d(size).tolist())
        if not replace and n > len(pool):
            raise ValueError("Cannot take a larger sample than population when 'replace=False'")
        picks = []
        for _ in range(n):
            if not pool:
                raise ValueError("a must be non-empty")
            k = self._choose(len(pool), "c")
            picks.append(pool[k])
            if not replace:
                pool.pop(k)
        if size is None:
            return picks[0]
        return np.array(picks).reshape(tuple(int(x) for x in np.atleast_1d(size).tolist()))

    def permutation(self, x):
        self.calls.append(("permutation", None))
        items = list(range(int(x))) if np.ndim(x) == 0 else list(np.asarray(x))
        out = []
        while items:
            k = self._choose(len(items), "c") if len(items) > 1 else 0
            out.append(items.pop(k))
        return np.array(out)

    def shuffle(self, x):
        x[:] = self.permutation(x)

    def randint(self, low, high=None, size=None, dtype=int):
        self.calls.append(("randint", None if size is None else list(np.atleast_1d(size).tolist())))
        if high is None:
            low, high = 0, low
        n = 1 if size is None else prod(int(x) for x in np.atleast_1d(size).tolist())
        picks = [int(low) + self._choose(int(high) - int(low), "c") for _ in range(n)]
        if size is None:
            return picks[0]
        return np.array(picks, dtype=dtype).reshape(tuple(int(x) for x in np.atleast_1d(size).tolist()))

    # -- patching ----------------------------------------------------------------------
    def __enter__(self):
        import numpy.random as npr

        def raiser(name):
            def f(*a, **k):
                raise ScriptError(f"numpy.random.{name} is not owned by the scripted source")
            return f

        impl = {"uniform": self.uniform, "random_sample": self.random_sample, "random": self.random_sample,
                "ranf": self.random_sample, "sample": self.random_sample, "rand": self.rand,
                "choice": self.choice, "permutation": self.permutation, "randint": self.randint,
                "shuffle": self.shuffle}
        for name in dir(npr):
            if name.startswith("_") or name in _LEAVE:
                continue
            obj = getattr(npr, name)
            if not callable(obj) or isinstance(obj, type):
                continue
            self._saved[name] = obj
            setattr(npr, name, impl.get(name) or raiser(name))
        return self

    def __exit__(self, *exc):
        import numpy.random as npr

        for name, obj in self._saved.items():
            setattr(npr, name, obj)
        self._saved = {}
        return False


def explore_scripts(run, dev, full_depth=0, cap=None, part=(0, 1)):
    """Stateless deviation-bounded exploration (the `explore(prefix)` idiom).

    run(prefix) executes once with the recorded prefix and the policy default afterwards and returns
    (word, sig).  Positions < full_depth are branched completely; every later position may deviate from the
    policy default as long as the cumulative number of deviations stays <= dev.  Each script is run once.
    part=(i, m) keeps only every m-th child of the ROOT execution (work splitting across cases; the union
    over i = 0..m-1 is the whole tree, the root itself is re-run in every part)."""
    stack = [([], 0)]
    n = 0
    capped = False
    root = True
    while stack:
        prefix, nd = stack.pop()
        word, sig = run(prefix)
        n += 1
        if cap is not None and n >= cap:
            capped = bool(stack)
            break
        t = 0
        for j in range(len(word) - 1, len(prefix) - 1, -1):
            free = j < full_depth
            if not free and nd >= dev:
                continue
            for a in range(sig[j] - 1, -1, -1):
                if a != word[j]:
                    t += 1
                    if root and t % part[1] != part[0]:
                        continue
                    stack.append((list(word[:j]) + [a], nd + (0 if free else 1)))
        root = False
    return n, capped


# =====================================================================================
# case generation


def _diag_elements(maxlen):
    out = []
    for L in range(1, maxlen + 1):
        out.append([1] * L)
        for z in range(L):
            out.append([0 if i == z else 1 for i in range(L)])
    return out


AGG_FNS = ["sum", "max", "min", "prod", "call:max", "call:count", "call:mean"]
AGG_VALUES = (2.0, -2.0, 3.0, 0.0)   # 0.0: an explicit zero input value is a group member like any other
# value STORAGE dtypes of the aggregator ("float"/"int" are the two original ones: float64 / int64 over AGG_VALUES);
# every other storage gets its own alphabet of values it holds exactly (_letters)
AGG_STORAGE = ("float32", "float16", "int32", "int16", "int8", "uint64", "uint32", "uint16", "uint8", "bool")
_I64 = (-2 ** 63, 2 ** 63 - 1)


def _letters(vd):
    """Value alphabet of a storage dtype, as Python numbers the dtype holds exactly: the four generic letters
    (2, -2, 3, 0; an unsigned storage has 1 in place of -2; booleans are {1, 0}) plus, for the integer storages
    narrower than the platform integer, the extreme values of the dtype (a combined value can leave the storage)."""
    d = np.dtype(vd)
    if d.kind == "f":
        return [2.0, -2.0, 3.0, 0.0]
    if d.kind == "b":
        return [1, 0]
    ii = np.iinfo(d)
    if d.kind == "i":
        return [2, -2, 3, 0] + ([int(ii.max), int(ii.min)] if d.itemsize < 8 else [])
    return [2, 1, 3, 0] + ([int(ii.max)] if d.itemsize < 8 else [])


def _storage_kind(vd):
    return {"f": "float", "b": "bool", "i": "int", "u": "uint"}[np.dtype(vd).kind]


def _growth_words(L):
    """Restricted growth strings of length L: one representative per set partition of the L positions."""
    out = [[0]] if L >= 1 else [[]]
    for _ in range(L - 1):
        out = [w + [g] for w in out for g in range(max(w) + 2)]
    return out


_NINE = [(0, 0, 0, 0, 0), (0, 1, 0, 1, 0), (1, 0, 2, 0, 1), (2, 1, 0, 2, 1), (0, 1, 2, 0, 1), (2, 2, 1, 1, 0),
         (1, 1, 1, 1, 1), (0, 2, 1, 0, 2), (1, 0, 0, 1, 2)]


def _agg_spaces(tier):
    # (index space, shape argument)
    sp = [([2, 2], [2, 2]), ([2, 2], None), ([2, 2], [3, 2]), ([3], None), ([3], [3]), ([2, 1, 2], [2, 1, 2])]
    if tier == "thorough":
        sp += [([2, 3], None), ([2, 2, 2], [2, 2, 2])]
    return sp


def _script_shapes(tier):
    q = [(2,), (3,), (1, 3), (2, 2), (2, 1, 2)]
    if tier == "thorough":
        q += [(4,), (2, 3), (2, 2, 2), (3, 3)]
    return q


def _dev_estimate(cells, k, dev, L=None):
    """Upper estimate of the number of scripts with <= dev deviations from a constant policy (the longest
    executions: twenty attempts, every draw lands on one cell)."""
    L = L or 21 * k
    n = 1 + L * cells
    if dev >= 2:
        n += L * (L - 1) // 2 * cells * cells
    return n


FAIL_M = (1, 2, 3, 5, 9, 10, 11, 15, 19, 20, 21)


def _policy_plan(cells, k, budget):
    """[(policy, deviation bound, parts)].  Short default executions (no forced collisions) get 2 deviations;
    the long ones (every draw collides, 10+ attempts) get 2 only while the estimate fits the budget."""
    plan = [(["cycle"], 2, 1), (["rcycle"], 2, 1)]
    long_ = [["twice"], ["low"], ["high"]] + [["const", c] for c in (range(cells) if cells <= 4 else (0, cells // 2, cells - 1))]
    long_ += [["failfirst", m, k] for m in FAIL_M]
    for pol in long_:
        dev = 2 if _dev_estimate(cells, k, 2) <= budget else 1
        if pol[0] == "failfirst" and pol[1] <= 3:
            dev = 2 if _dev_estimate(cells, k, 2, L=(pol[1] + 2) * k) <= budget else 1
            est = _dev_estimate(cells, k, dev, L=(pol[1] + 2) * k)
        else:
            est = _dev_estimate(cells, k, dev)
        plan.append((pol, dev, max(1, -(-est // 2500))))
    return plan


def gen_cases(tier, seed):
    thorough = tier == "thorough"
    shapes = space.shapes(5, 3, 48) if thorough else space.shapes(4, 3, 24)
    for s in shapes:
        yield {"check": "dense", "shape": list(s), "vseed": seed}
    for s in shapes:
        for R in (1, 2, 3):
            yield {"check": "ktfun", "shape": list(s), "rank": R, "vseed": seed}
    # diagonal generators
    dshapes = [None] + [list(s) for s in space.shapes(4 if thorough else 3, 3, 81)]
    for el in _diag_elements(4 if thorough else 3):
        for s in dshapes:
            yield {"check": "diag", "pat": el, "shape": s, "vseed": seed}
    # identity tensors
    for m in (2, 4, 6) + ((8,) if thorough else ()):
        for size in (1, 2, 3):
            if m == 8 and size > 2:
                continue
            yield {"check": "eye", "ndims": m, "size": size}
    for m in (1, 3, 5):
        for size in (1, 2, 3):
            yield {"check": "eye", "ndims": m, "size": size}
    # random sparse generators, seeded
    rshapes = space.shapes(4, 4, 16) if thorough else space.shapes(3, 3, 9)
    nseeds = 32 if thorough else 8
    for s in rshapes:
        yield {"check": "sprand", "shape": list(s), "seeds": nseeds, "vseed": seed}
    if thorough:
        yield {"check": "sprand", "shape": [4, 4, 4], "seeds": 4, "vseed": seed, "ks": [0, 1, 8, 32, 48, 63, 64]}
        yield {"check": "sprand", "shape": [2, 3, 4], "seeds": 8, "vseed": seed, "ks": [0, 1, 5, 12, 18, 23, 24]}
    # random sparse generators, scripted (before the many small aggregator cases: better load balance)
    budget = 35000 if thorough else 8000
    wordcap = 50000 if thorough else 4096
    for s in _script_shapes(tier):
        cells = prod(s)
        for k in range(1, cells + 1):
            vias = ("density",) if k == cells else ("nonzeros", "count")
            for via in vias:
                depth = k
                while cells ** depth > wordcap and depth > 0:
                    depth -= 1
                parts = max(1, -(-cells ** depth // 2000))
                for pol in (["cycle"], ["const", 0]):
                    for i in range(parts):
                        yield {"check": "script", "shape": list(s), "k": k, "via": via, "mode": "words", "vseed": seed,
                               "depth": depth, "policy": pol, "part": [i, parts]}
                for pol, dev, parts in _policy_plan(cells, k, budget):
                    for i in range(parts):
                        yield {"check": "script", "shape": list(s), "k": k, "via": via, "mode": "dev", "dev": dev,
                               "policy": pol, "vseed": seed, "part": [i, parts]}
    # aggregating constructor
    for ispace, shp in _agg_spaces(tier):
        cl = [list(c) for c in space.cells(tuple(ispace))]
        main = ispace == [2, 2] and shp == [2, 2]
        full_len = 4 if (thorough and main) else 3          # every value word up to this length
        nine_len = full_len + 1 if (main or thorough) and len(cl) <= 6 else full_len   # 9 value words beyond
        if not thorough and ispace == [2, 2]:
            nine_len = 4
        for L in range(0, nine_len + 1):
            if L == 0 and shp is None:
                continue
            for w in itertools.product(range(len(cl)), repeat=L):
                yield {"check": "agg", "shape": shp, "subs": [cl[i] for i in w], "nd": len(ispace),
                       "vals": "all" if L <= full_len else "nine"}
    # value storage x multiplicity pattern: beyond the two subscripts of the complete words above, one subscript word per
    # set partition of the positions (groups bound to the cells in the unsorted order 3,0,2,1 of the 2x2 space)
    cl = [list(c) for c in space.cells((2, 2))]
    bind = [cl[3], cl[0], cl[2], cl[1]]
    for L in (3, 4) if thorough else (3,):
        for g in _growth_words(L):
            for vd in AGG_STORAGE if L == 4 else (None,):
                c = {"check": "agg", "shape": [2, 2], "subs": [bind[i] for i in g], "nd": 2, "vals": "storage"}
                if vd:
                    c["vdtype"] = vd
                yield c


# =====================================================================================
# helpers


def run_case(case, ctx):
    globals()["_run_" + case["check"]](case, ctx)


class Probe:
    def __init__(self, ctx, case):
        self.ctx, self.case = ctx, case

    def call(self, op, f, variant=""):
        self.ctx.tick()
        try:
            return True, f()
        except (ScriptError, ScriptDiverged, CaseTimeout):
            raise
        except Exception as e:  # noqa: BLE001
            self.ctx.fail(op, exc_symptom(e), short_tb(e), variant=variant, case=self.case)
            return False, None

    def expect(self, op, cond, symptom, detail="", variant=""):
        if not cond:
            self.ctx.fail(op, symptom, detail, variant=variant, case=self.case)
        return bool(cond)

    def again(self, op, f, first, variant=""):
        """depth 2: write into every stored value of an earlier result of the generator, call it again with the same
        arguments: the new object must be what the first one was (a generated object is nobody else's storage)."""
        try:
            snap = np.array(O.dense_of(first), dtype=float)
            buf = first.data if hasattr(first, "data") else first.vals
            if not isinstance(buf, np.ndarray) or buf.size == 0 or not buf.flags.writeable:
                return
            buf[...] = buf + 1
        except Exception:  # noqa: BLE001
            return
        ok, second = self.call(op, f, variant + ":second_call")
        if not ok:
            return
        try:
            got = np.array(O.dense_of(second), dtype=float)
        except Exception as e:  # noqa: BLE001
            self.ctx.fail(op, "malformed_result", f"{type(e).__name__}: {e}", variant=variant + ":second_call", case=self.case)
            return
        if got.shape != snap.shape or not np.array_equal(got, snap):
            self.ctx.fail(op, "history_dependent", "after writing into an earlier result the same call returns other entries",
                          variant=variant + ":second_call", case=self.case)


def _shape_ok(obj, want):
    try:
        sh = obj.shape
        return isinstance(sh, tuple) and O.pyshape(sh) == tuple(want) and all(
            isinstance(x, (int, np.integer)) and not isinstance(x, bool) for x in sh)
    except Exception:  # noqa: BLE001
        return False


def _check_dense(p, op, T, want, variant=""):
    """tensor of exactly the shape of `want` with exactly these entries."""
    import pyttb as ttb

    if not p.expect(op, isinstance(T, ttb.tensor), "wrong_type", type(T).__name__, variant):
        return False
    if not p.expect(op, _shape_ok(T, want.shape), "wrong_shape", f"{T.shape!r} want {want.shape}", variant):
        return False
    d = T.data
    if not p.expect(op, isinstance(d, np.ndarray) and O.pyshape(d.shape) == want.shape, "malformed:data_shape",
                    f"data{getattr(d, 'shape', None)} shape{T.shape}", variant):
        return False
    ok = p.expect(op, d.flags.f_contiguous, "malformed:data_not_F_ordered", str(d.flags), variant)
    ok &= p.expect(op, rm.same(d, want), "wrong_value",
                   f"got={np.asarray(d).tolist()} want={np.asarray(want).tolist()}", variant)
    return ok


def _check_sparse(p, op, S, want, variant="", nnz=None):
    import pyttb as ttb

    if not p.expect(op, isinstance(S, ttb.sptensor), "wrong_type", type(S).__name__, variant):
        return False
    probs = O.wf_sptensor(S)
    if not p.expect(op, not probs, "malformed:" + ",".join(probs), f"subs={_tl(S.subs)} vals={_tl(S.vals)}", variant):
        return False
    if not p.expect(op, _shape_ok(S, want.shape), "wrong_shape", f"{S.shape!r} want {want.shape}", variant):
        return False
    got = O.scatter(S.shape, S.subs, np.asarray(S.vals, dtype=float))   # values are compared as NUMBERS (True is 1)
    ok = p.expect(op, rm.same(got, want), "wrong_value",
                  f"subs={_tl(S.subs)} vals={_tl(S.vals)} want={np.asarray(want).tolist()}", variant)
    k = int(np.count_nonzero(want)) if nnz is None else nnz
    ok &= p.expect(op, S.nnz == k, "wrong_nnz", f"{S.nnz} != {k}", variant)
    return ok


def _tl(a):
    try:
        return np.asarray(a).tolist()
    except Exception:  # noqa: BLE001
        return repr(a)


# =====================================================================================
# dense generators


def _run_dense(case, ctx):
    import pyttb as ttb

    shape = tuple(case["shape"])
    n = prod(shape)
    vseed = case.get("vseed", 0)
    ctx.state()
    if n >= 2:
        ctx.nontriv()
    p = Probe(ctx, case)
    forms = [("tuple", shape), ("list", list(shape)), ("array", np.array(shape, dtype=int))]
    if len(shape) == 1:
        forms.append(("int", shape[0]))
    for fname, sarg in forms:
        for order in ("F", "C"):
            v = f"{fname}/{order}"
            if fname not in ("tuple", "int") and order == "C":
                continue
            ok, T = p.call("tenones", lambda: ttb.tenones(sarg, order=order), v)
            if ok:
                _check_dense(p, "tenones", T, np.ones(shape), v)
            ok, T = p.call("tenzeros", lambda: ttb.tenzeros(sarg, order=order), v)
            if ok:
                _check_dense(p, "tenzeros", T, np.zeros(shape), v)
    # default-argument forms
    ok, T = p.call("tenones", lambda: ttb.tenones(shape), "default")
    if ok:
        _check_dense(p, "tenones", T, np.ones(shape), "default")
        p.again("tenones", lambda: ttb.tenones(shape), T, "default")
    ok, T = p.call("tenzeros", lambda: ttb.tenzeros(shape), "default")
    if ok:
        _check_dense(p, "tenzeros", T, np.zeros(shape), "default")
        p.again("tenzeros", lambda: ttb.tenzeros(shape), T, "default")

    # tenrand, seeded: in [0,1), exact shape, same seed => same tensor
    for rs in range(4):
        got = []
        for _rep in range(2):
            np.random.seed(rs)
            ok, T = p.call("tenrand", lambda: ttb.tenrand(shape), "seeded")
            if not ok:
                break
            if not (p.expect("tenrand", isinstance(T, ttb.tensor), "wrong_type", type(T).__name__, "seeded")
                    and p.expect("tenrand", _shape_ok(T, shape) and O.pyshape(T.data.shape) == shape, "wrong_shape",
                                 f"{T.shape!r} data{T.data.shape}", "seeded")):
                break
            d = np.asarray(T.data)
            p.expect("tenrand", bool(np.all((d >= 0) & (d < 1))), "wrong_value", f"outside [0,1): {d.tolist()}", "seeded")
            got.append(d.copy())
        if len(got) == 2:
            p.expect("tenrand", rm.same(got[0], got[1]), "not_reproducible", f"seed {rs}", "seeded")
            ctx.outcome(got[0])
            if n >= 2:
                p.expect("tenrand", len({float(x) for x in got[0].ravel()}) > 1, "wrong_value",
                         f"all {n} entries equal under seed {rs}", "seeded")
    # tenrand, scripted: the entries are exactly the numbers the uniform source handed out
    sr = ScriptedRandom(None, vseed=vseed)
    with sr:
        ok, T = p.call("tenrand", lambda: ttb.tenrand(shape), "scripted")
    if ok and isinstance(T, ttb.tensor) and O.pyshape(T.data.shape) == shape:
        drawn = sorted(float(x) for a in sr.values for x in np.asarray(a).ravel())
        p.expect("tenrand", sorted(float(x) for x in T.data.ravel()) == drawn, "wrong_value",
                 f"entries {sorted(T.data.ravel().tolist())} != drawn {drawn}", "scripted")
    elif ok:
        p.expect("tenrand", False, "wrong_shape", f"{getattr(T, 'shape', None)!r}", "scripted")

    # tensor.from_function
    A = rm.arr(shape, space.dense_values(shape, None, vseed))
    for fv in ("F", "C", "flat"):
        args = []

        def fn(s, fv=fv, args=args):
            args.append(s)
            if fv == "F":
                return np.asfortranarray(A.copy())
            if fv == "C":
                return np.ascontiguousarray(A.copy())
            return np.array(rm.vals_f(A), dtype=float)

        for fname, sarg in forms[:2] + forms[3:]:
            del args[:]
            v = f"{fv}/{fname}"
            ok, T = p.call("tensor.from_function", lambda: ttb.tensor.from_function(fn, sarg), v)
            if ok:
                _check_dense(p, "tensor.from_function", T, A, v)
                good = len(args) == 1 and isinstance(args[0], tuple) and O.pyshape(args[0]) == shape
                p.expect("tensor.from_function", good, "wrong_callback_args", f"function called with {args!r}", v)
    ctx.outcome([shape])


def _run_ktfun(case, ctx):
    import pyttb as ttb

    shape = tuple(case["shape"])
    R = case["rank"]
    vseed = case.get("vseed", 0)
    ctx.state()
    if prod(shape) >= 2:
        ctx.nontriv()
    p = Probe(ctx, case)
    for lay in ("C", "F"):
        mats = [np.array(space.int_matrix(s, R, salt=7 * i, seed=vseed)) for i, s in enumerate(shape)]
        args = []

        def fn(s, args=args, lay=lay):
            i = len(args)
            args.append(s)
            m = mats[i] if i < len(mats) else np.zeros(s)
            return np.asfortranarray(m.copy()) if lay == "F" else np.ascontiguousarray(m.copy())

        ok, K = p.call("ktensor.from_function", lambda: ttb.ktensor.from_function(fn, shape, R), lay)
        if not ok:
            continue
        if not p.expect("ktensor.from_function", isinstance(K, ttb.ktensor), "wrong_type", type(K).__name__, lay):
            continue
        want_args = [(s, R) for s in shape]
        p.expect("ktensor.from_function", [tuple(int(x) for x in a) for a in args] == want_args, "wrong_callback_args",
                 f"{args!r} want {want_args}", lay)
        p.expect("ktensor.from_function", _shape_ok(K, shape), "wrong_shape", f"{K.shape!r}", lay)
        w = np.asarray(K.weights)
        p.expect("ktensor.from_function", w.shape == (R,) and bool(np.all(w == 1.0)), "wrong_value",
                 f"weights {w.tolist()}", lay)
        fm = K.factor_matrices
        good = len(fm) == len(shape) and all(rm.same(f, m) for f, m in zip(fm, mats))
        p.expect("ktensor.from_function", good, "wrong_value", f"factors {[_tl(f) for f in fm]}", lay)
        if good and w.shape == (R,):
            p.expect("ktensor.from_function", rm.same(O.dense_of(K), rm.kruskal(np.ones(R), mats)), "wrong_value",
                     "Kruskal value", lay)
            p.expect("ktensor.from_function", K.ncomponents == R, "wrong_value", f"ncomponents {K.ncomponents}", lay)
        ctx.outcome([w] + list(fm))


# =====================================================================================
# diagonal / identity


def _diag_ref(el, shape):
    N = len(el)
    if shape is None:
        out_shape = (N,) * N
    else:
        out_shape = tuple(max(N, d) for d in shape)   # documented: enlarged to accommodate
    A = np.zeros(out_shape)
    for i, v in enumerate(el):
        A[(i,) * len(out_shape)] = v
    return A


def _run_diag(case, ctx):
    import pyttb as ttb

    vseed = case.get("vseed", 0)
    vec = space.int_vector(len(case["pat"]), salt=1, seed=vseed)
    el = [vec[i] if b else 0.0 for i, b in enumerate(case["pat"])]
    shape = None if case["shape"] is None else tuple(case["shape"])
    A = _diag_ref(el, shape)
    ctx.state()
    if A.size >= 2 and np.count_nonzero(A):
        ctx.nontriv()
    if shape is not None and any(d < len(el) for d in shape):
        ctx.flag("diag:shape_smaller_than_vector")
    if shape is not None and any(d > len(el) for d in shape):
        ctx.flag("diag:shape_larger_than_vector")
    p = Probe(ctx, case)
    eforms = [("array", lambda: np.array(el, dtype=float)), ("list", lambda: list(el)),
              ("column", lambda: np.array(el, dtype=float).reshape(-1, 1)),
              ("row", lambda: np.array(el, dtype=float).reshape(1, -1))]   # 1 x N: flattened like the N x 1 column
    # element STORAGE: the (integer-valued) elements held as platform / narrow integers, single precision, booleans
    eforms += [("int64", lambda: np.array(el, dtype=np.int64)), ("int8", lambda: np.array(el, dtype=np.int8)),
               ("float32", lambda: np.array(el, dtype=np.float32))]
    refs = {"bool": _diag_ref([1.0 if b else 0.0 for b in case["pat"]], shape)}   # the 0/1 pattern itself as booleans
    eforms.append(("bool", lambda: np.array(case["pat"], dtype=bool)))
    for ename, mk in eforms:
        for order in ("F", "C"):
            if ename != "array" and order == "C":
                continue
            v = f"{ename}/{order}"
            if shape is None:
                ok, T = p.call("tendiag", lambda: ttb.tendiag(mk(), order=order), v)
            else:
                ok, T = p.call("tendiag", lambda: ttb.tendiag(mk(), shape, order=order), v)
            if ok:
                _check_dense(p, "tendiag", T, refs.get(ename, A), v)
                if ename == "array":
                    p.again("tendiag", (lambda: ttb.tendiag(mk(), order=order)) if shape is None else
                            (lambda: ttb.tendiag(mk(), shape, order=order)), T, v)
        v = ename
        if shape is None:
            ok, S = p.call("sptendiag", lambda: ttb.sptendiag(mk()), v)
        else:
            ok, S = p.call("sptendiag", lambda: ttb.sptendiag(mk(), shape), v)
        if ok and _check_sparse(p, "sptendiag", S, refs.get(ename, A), v):
            ctx.outcome([S.subs, S.vals, list(S.shape)])
            if ename == "array":
                p.again("sptendiag", (lambda: ttb.sptendiag(mk())) if shape is None else (lambda: ttb.sptendiag(mk(), shape)),
                        S, v)


def _eye_ref(m, size):
    """Symmetrisation of delta (x) delta (x) ... : E[i] = #{perms p: i_p(0)=i_p(1), i_p(2)=i_p(3), ...} / m!"""
    A = np.zeros((size,) * m)
    perms = list(itertools.permutations(range(m)))
    for idx in itertools.product(range(size), repeat=m):
        cnt = 0
        for pm in perms:
            if all(idx[pm[2 * j]] == idx[pm[2 * j + 1]] for j in range(m // 2)):
                cnt += 1
        A[idx] = cnt / factorial(m)
    return A


def _eye_ref_fast(m, size):
    """Same value, computed per multiset of indices (value depends only on the multiplicities)."""
    A = np.zeros((size,) * m)
    cache = {}
    perms = None
    for idx in itertools.product(range(size), repeat=m):
        key = tuple(sorted(idx))
        if key not in cache:
            if perms is None:
                perms = list(itertools.permutations(range(m)))
            cnt = 0
            for pm in perms:
                if all(key[pm[2 * j]] == key[pm[2 * j + 1]] for j in range(m // 2)):
                    cnt += 1
            cache[key] = cnt / factorial(m)
        A[idx] = cache[key]
    return A


def _directions(size):
    out = []
    for v in itertools.product((0, 1, -1, 2), repeat=size):
        if any(v):
            out.append(np.array(v, dtype=float))
    return out


def _run_eye(case, ctx):
    import pyttb as ttb

    m, size = case["ndims"], case["size"]
    ctx.state()
    p = Probe(ctx, case)
    if m % 2 == 1:
        for order in ("F", "C"):
            ctx.tick()
            try:
                T = ttb.teneye(m, size, order=order)
            except CaseTimeout:
                raise
            except Exception as e:  # noqa: BLE001
                ctx.count("eye_odd_rejected:" + type(e).__name__)
                continue
            p.expect("teneye", False, "accepted", f"odd order {m} returned {type(T).__name__} {getattr(T, 'shape', '')}",
                     "odd")
        return
    if size >= 2:
        ctx.nontriv()
    want = _eye_ref(m, size) if m <= 4 else _eye_ref_fast(m, size)
    for order in ("F", "C"):
        ok, T = p.call("teneye", lambda: ttb.teneye(m, size, order=order), order)
        if not ok:
            continue
        if not (p.expect("teneye", isinstance(T, ttb.tensor), "wrong_type", type(T).__name__, order)
                and p.expect("teneye", _shape_ok(T, (size,) * m) and O.pyshape(T.data.shape) == (size,) * m,
                             "wrong_shape", f"{T.shape!r}", order)):
            continue
        d = np.asarray(T.data, dtype=float)
        # identity action I x^(m-1) = x for unit x (reference contraction, not pyttb's ttsv)
        worst, wx = 0.0, None
        for x in _directions(size):
            x = x / np.sqrt(float(x @ x))
            y = d
            for _ in range(m - 1):
                y = np.tensordot(y, x, axes=([y.ndim - 1], [0]))
            err = float(np.max(np.abs(y - x)))
            if err > worst:
                worst, wx = err, x
        p.expect("teneye", worst <= 1e-12, "not_identity", f"max |I x^(m-1) - x| = {worst:.3e} at x={_tl(wx)}", order)
        # unit basis vectors: exact
        for i in range(size):
            idx = (slice(None),) + (i,) * (m - 1)
            e = np.zeros(size)
            e[i] = 1.0
            p.expect("teneye", rm.same(d[idx], e), "not_identity", f"I e_{i}^(m-1) = {d[idx].tolist()}", order)
        p.expect("teneye", rm.close(d, want, rtol=1e-15), "wrong_value",
                 f"differs from the symmetrised delta product, max {float(np.max(np.abs(d - want))):.3e}", order)
        ctx.outcome(d)
        p.again("teneye", lambda: ttb.teneye(m, size, order=order), T, order)


# =====================================================================================
# aggregating constructor


def _reduce(fn, vals):
    """Reference reducers on Python numbers (integers stay exact integers)."""
    if fn in ("sum", "default"):
        return sum(vals)
    if fn in ("max", "call:max"):
        return max(vals)
    if fn == "min":
        return min(vals)
    if fn == "prod":
        r = 1
        for v in vals:
            r = r * v
        return r
    if fn == "call:count":
        return len(vals)
    if fn == "call:mean":
        return sum(vals) / len(vals)
    raise ValueError(fn)


def _fn_arg(fn):
    if fn == "call:max":
        return np.max
    if fn == "call:count":
        return lambda x: len(x)
    if fn == "call:mean":
        return np.mean
    return fn


def _value_words(case, L, vd="float"):
    if "vals_list" in case:
        return [tuple(case["vals_list"])]
    if vd not in ("float", "int"):
        return list(itertools.product(_letters(vd), repeat=L))
    if case.get("vals") == "nine":
        seen, out = set(), []
        for w in _NINE:
            t = tuple(AGG_VALUES[i] for i in w[:L])
            if t not in seen:
                seen.add(t)
                out.append(t)
        return out
    return list(itertools.product(AGG_VALUES, repeat=L))


def _agg_dtypes(case, L):
    """Value storages of one subscript word: the complete words carry float64 (+ int64 and every other storage up to two
    subscripts); the multiplicity-pattern words ("storage") carry every storage other than the two original ones."""
    if "vdtype" in case:
        return [case["vdtype"]]
    if case.get("vals") == "storage":
        return list(AGG_STORAGE)
    if case.get("vals") == "all" and L <= 2:
        return ["float", "int"] + list(AGG_STORAGE)
    return ["float", "int"] if L <= 2 else ["float"]


def _check_combined(p, op, S, out_shape, want, variant):
    """Exact comparison of the stored entries with {subscript: combined value} (Python numbers; a floating storage
    may round the combined value once to its own precision)."""
    import pyttb as ttb

    if not p.expect(op, isinstance(S, ttb.sptensor), "wrong_type", type(S).__name__, variant):
        return False
    probs = O.wf_sptensor(S)
    if not p.expect(op, not probs, "malformed:" + ",".join(probs), f"subs={_tl(S.subs)} vals={_tl(S.vals)}", variant):
        return False
    if not p.expect(op, _shape_ok(S, out_shape), "wrong_shape", f"{S.shape!r} want {out_shape}", variant):
        return False
    vals = np.asarray(S.vals).reshape(-1)
    got = {} if not vals.size else {tuple(int(i) for i in r): v.item() for r, v in zip(np.asarray(S.subs), vals)}
    got = {s: (int(v) if isinstance(v, bool) else v) for s, v in got.items()}

    def eq(g, w):
        if g == w:
            return True
        return vals.dtype.kind == "f" and isinstance(w, float) and g == float(vals.dtype.type(w))

    good = set(got) == set(want) and all(eq(got[s], want[s]) for s in want)
    ok = p.expect(op, good, "wrong_value",
                  f"stored {sorted(got.items())} ({vals.dtype}) want {sorted(want.items())}", variant)
    ok &= p.expect(op, S.nnz == len(want), "wrong_nnz", f"{S.nnz} != {len(want)}", variant)
    return ok


def _run_agg(case, ctx):
    import pyttb as ttb

    subs = [tuple(r) for r in case["subs"]]
    L = len(subs)
    nd = case["nd"]
    shp = None if case["shape"] is None else tuple(case["shape"])
    out_shape = shp if shp is not None else tuple(max(r[k] for r in subs) + 1 for k in range(nd))
    ctx.state()
    dup = len(set(subs)) < L
    for vd in _agg_dtypes(case, L):
        orig = vd in ("float", "int")
        # a storage other than the two original ones is also sent through the default reducer argument
        fns = [case["fn"]] if "fn" in case else (AGG_FNS if orig else AGG_FNS + ["default"])
        npdt = float if vd == "float" else int if vd == "int" else np.dtype(vd)
        for vw in _value_words(case, L, vd):
            for fn in fns:
                sub = {"check": "agg", "shape": case["shape"], "subs": case["subs"], "nd": nd,
                       "vals_list": list(vw), "fn": fn, "vdtype": vd}
                p = Probe(ctx, sub)
                groups = {}
                for s, v in zip(subs, vw):
                    groups.setdefault(s, []).append(v)
                red = {s: _reduce(fn, vs) for s, vs in groups.items()}
                if not orig and not all(_I64[0] <= r <= _I64[1] for r in red.values()):
                    # the combined value leaves even the platform integer: outside the quantifier (run, not asserted)
                    ctx.inadm()
                    red = None
                if red is not None:
                    if dup and any(red.values()):
                        ctx.nontriv()
                    if dup and any(r == 0 for r in red.values()):
                        ctx.flag("agg:cancelling_duplicates")
                    if not orig and any(not (_storage_fits(vd, r)) for r in red.values()):
                        ctx.flag("agg:combined_value_leaves_storage")
                sa = np.array(subs, dtype=int).reshape(L, nd)
                va = np.array(vw, dtype=npdt).reshape(L, 1)
                variant = fn + "/single" if L == 1 else fn if orig else fn + "/" + _storage_kind(vd)
                if fn == "default" or (fn == "sum" and vd == "float"):
                    ok, S = p.call("sptensor.from_aggregator", lambda: ttb.sptensor.from_aggregator(sa, va, shp), variant)
                else:
                    ok, S = p.call("sptensor.from_aggregator",
                                   lambda: ttb.sptensor.from_aggregator(sa, va, shp, _fn_arg(fn)), variant)
                if ok and red is not None:
                    if orig:
                        A = np.zeros(out_shape)
                        for s, r in red.items():
                            A[s] = r
                        good = _check_sparse(p, "sptensor.from_aggregator", S, A, variant)
                    else:
                        good = _check_combined(p, "sptensor.from_aggregator", S, out_shape,
                                               {s: r for s, r in red.items() if r != 0}, variant)
                    if good:
                        ctx.outcome([S.subs, S.vals, list(S.shape)])
                if ok:
                    p.expect("sptensor.from_aggregator",
                             rm.same(sa, np.array(subs, dtype=int).reshape(L, nd))
                             and va.dtype == np.dtype(npdt) and va.reshape(-1).tolist() == np.array(vw, dtype=npdt).tolist(),
                             "operand_mutated", "subs/vals changed", variant)


def _storage_fits(vd, r):
    d = np.dtype(vd)
    if d.kind == "f":
        return True
    if d.kind == "b":
        return r in (0, 1)
    ii = np.iinfo(d)
    return r == int(r) and int(ii.min) <= r <= int(ii.max)


# =====================================================================================
# random sparse generators


def _rec_fn(vseed, log):
    """Value function for sptensor.from_function: distinct non-zero integers, arguments recorded."""

    def fn(s):
        log.append(s)
        try:
            n = int(s[0])
        except Exception:  # noqa: BLE001
            n = 0
        return np.array([space.cell_value(j, vseed) for j in range(n)], dtype=float).reshape(n, 1)

    return fn


def _request(via, shape, k, vseed, log):
    """(op name, thunk, admissible counts, may_reject) for one request."""
    import pyttb as ttb

    cells = prod(shape)
    if via == "nonzeros":
        return "sptenrand", (lambda: ttb.sptenrand(shape, nonzeros=k)), {k}, k == cells
    if via == "density":
        d = k / cells
        return "sptenrand", (lambda: ttb.sptenrand(shape, density=d)), _near(cells * d), False
    if via == "density_sub1":
        d = 1.0 / (2 * cells)
        return "sptenrand", (lambda: ttb.sptenrand(shape, density=d)), {0, 1}, False
    if via == "count":
        return "sptensor.from_function", (lambda: ttb.sptensor.from_function(_rec_fn(vseed, log), shape, k)), {k}, \
            k == cells
    if via == "frac":
        d = k / cells
        return "sptensor.from_function", (lambda: ttb.sptensor.from_function(_rec_fn(vseed, log), shape, d)), \
            _near(cells * d), False
    raise ValueError(via)


def _near(x):
    """Integer counts a density may legitimately denote (floor/ceil, immune to the last-bit rounding)."""
    r = round(x)
    if abs(x - r) < 1e-9:
        return {int(r)}
    return {int(np.floor(x)), int(np.ceil(x))}


def _check_random_result(p, op, S, shape, counts, variant, via, log, values=None):
    """Well-formed, requested shape, requested number of distinct nonzeros, values from the function."""
    import pyttb as ttb

    if not p.expect(op, isinstance(S, ttb.sptensor), "wrong_type", type(S).__name__, variant):
        return False
    probs = O.wf_sptensor(S)
    if not p.expect(op, not probs, "malformed:" + ",".join(probs), f"subs={_tl(S.subs)} vals={_tl(S.vals)}", variant):
        return False
    ok = p.expect(op, _shape_ok(S, shape), "wrong_shape", f"{S.shape!r} want {shape}", variant)
    nnz = int(S.nnz)
    if nnz < min(counts):
        ok = p.expect(op, False, "wrong_nnz:fewer", f"{nnz} distinct nonzeros, requested {sorted(counts)}", variant)
    elif nnz > max(counts):
        ok = p.expect(op, False, "wrong_nnz:more", f"{nnz} distinct nonzeros, requested {sorted(counts)}", variant)
    vals = np.asarray(S.vals, dtype=float).reshape(-1) if nnz else np.zeros(0)
    if via in ("count", "frac"):
        good = len(log) == 1 and isinstance(log[0], tuple) and tuple(int(x) for x in log[0]) == (nnz, 1)
        ok &= p.expect(op, good, "wrong_callback_args", f"value function called with {log!r}, nnz={nnz}", variant)
        want = [space.cell_value(j, p.case.get("vseed", 0)) for j in range(nnz)]
        ok &= p.expect(op, vals.tolist() == want, "wrong_value", f"vals {vals.tolist()} != returned {want}", variant)
    else:
        ok &= p.expect(op, bool(np.all((vals >= 0) & (vals < 1))), "wrong_value", f"vals outside [0,1): {vals.tolist()}",
                       variant)
        if values is not None and nnz:
            cand = [np.asarray(v, dtype=float).reshape(-1).tolist() for v in values if np.asarray(v).size == nnz]
            ok &= p.expect(op, vals.tolist() in cand, "wrong_value",
                           f"vals {vals.tolist()} are not a block handed out by the uniform source {cand}", variant)
    return ok


def _run_sprand(case, ctx):
    shape = tuple(case["shape"])
    cells = prod(shape)
    vseed = case.get("vseed", 0)
    ks = case.get("ks") or list(range(0, cells + 1))
    if "k" in case:
        ks = [case["k"]]
    seeds = [case["seed"]] if "seed" in case else list(range(case.get("seeds", 8)))
    vias = [case["via"]] if "via" in case else ["nonzeros", "density", "count", "frac", "density_sub1"]
    ctx.state()
    for k in ks:
        for via in vias:
            if via in ("density", "frac") and k == 0:
                continue
            if via == "frac" and k == cells:
                continue
            if via == "density_sub1" and k != ks[0]:
                continue
            for rs in seeds:
                sub = {"check": "sprand", "shape": list(shape), "k": k, "via": via, "seed": rs, "vseed": vseed}
                p = Probe(ctx, sub)
                obs = []
                for _rep in range(2):
                    log = []
                    op, thunk, counts, may_reject = _request(via, shape, k, vseed, log)
                    np.random.seed(rs)
                    ctx.tick()
                    try:
                        S = thunk()
                    except CaseTimeout:
                        raise
                    except AssertionError as e:
                        if may_reject and "less than the total size" in str(e):
                            ctx.count("sprand_full_request_rejected")
                            obs.append("rejected")
                            continue
                        ctx.fail(op, exc_symptom(e), short_tb(e), variant=via, case=sub)
                        break
                    except Exception as e:  # noqa: BLE001
                        ctx.fail(op, exc_symptom(e), short_tb(e), variant=via, case=sub)
                        break
                    if not _check_random_result(p, op, S, shape, counts, via, via, log):
                        break
                    obs.append((np.asarray(S.subs).copy(), np.asarray(S.vals).copy()))
                if len(obs) == 2:
                    if isinstance(obs[0], str) or isinstance(obs[1], str):
                        same = obs[0] == obs[1] if isinstance(obs[0], str) and isinstance(obs[1], str) else False
                    else:
                        same = rm.same(obs[0][0], obs[1][0]) and rm.same(obs[0][1], obs[1][1])
                    p.expect(op, same, "not_reproducible", f"seed {rs}: two runs differ", via)
                    if not isinstance(obs[0], str):
                        ctx.outcome([obs[0][0], obs[0][1]])
                        if k >= 1 and cells >= 2:
                            ctx.nontriv()
                        if k * 2 > cells:
                            ctx.flag("sprand:more_than_half_full")


def _run_script_once(ctx, base, policy, prefix):
    """One execution under the scripted source.  Returns (word, sig, failed)."""
    shape = tuple(base["shape"])
    k, via, vseed = base["k"], base["via"], base.get("vseed", 0)
    cells = prod(shape)
    sub = dict(base, mode="one", policy=list(policy), prefix=None)
    log = []
    op, thunk, counts, may_reject = _request(via, shape, k, vseed, log)
    sr = ScriptedRandom(shape, prefix=prefix, policy=policy, vseed=vseed)
    before = len(ctx.failures)
    ctx.tick()
    S, err = None, None
    with sr:
        try:
            S = thunk()
        except (ScriptError, ScriptDiverged, CaseTimeout):
            raise
        except Exception as e:  # noqa: BLE001
            err = e
    sub["prefix"] = list(sr.word)
    p = Probe(ctx, sub)
    if err is not None:
        if not (may_reject and isinstance(err, AssertionError) and "less than the total size" in str(err)):
            ctx.fail(op, exc_symptom(err), short_tb(err), variant=via, case=sub)
    else:
        good = _check_random_result(p, op, S, shape, counts, via, via, log, values=sr.values)
        if good and int(S.nnz):
            got = {tuple(int(i) for i in r) for r in np.asarray(S.subs).tolist()}
            plain = all(kd == "u" for kd in sr.kinds) and all(a >= 0 for a in sr.word)
            if plain:
                drawn = {space.sub_f(shape, a) for call in sr.ucalls for a in call}
                p.expect(op, got <= drawn, "wrong_value", f"subscripts {sorted(got)} never drawn (drawn {sorted(drawn)})",
                         via)
                first = sr.ucalls[0] if sr.ucalls else []
                if len(first) == k and len(set(first)) == k:
                    want = {space.sub_f(shape, a) for a in first}
                    p.expect(op, got == want, "wrong_value",
                             f"first draw hit {k} distinct cells {sorted(want)} but result has {sorted(got)}", via)
            ctx.outcome([np.asarray(S.subs), np.asarray(S.vals)])
        if len(sr.word) > k + (k if len(shape) == 1 and via != "count" else 0):
            ctx.flag("script:collision_forced_redraw")
    ctx.count("script_choice_points", len(sr.word))
    failed = len(ctx.failures) > before
    return list(sr.word), list(sr.sig), failed


def _run_script(case, ctx):
    shape = tuple(case["shape"])
    cells = prod(shape)
    k = case["k"]
    base = {"check": "script", "shape": list(shape), "k": k, "via": case["via"], "vseed": case.get("vseed", 0)}
    mode = case.get("mode", "one")
    ctx.state()
    if mode == "one":
        # replay of a single script: executed twice, observations must agree
        pol = tuple(case.get("policy") or ["cycle"])
        _checked_once(ctx, base, pol, case.get("prefix") or [], always_twice=True)
        return
    if k >= 1 and cells >= 2:
        ctx.nontriv()
    cap = case.get("cap", 80000)
    pol = tuple(case["policy"])
    part = tuple(case.get("part", (0, 1)))

    def run(prefix):
        return _checked_once(ctx, base, pol, prefix)

    if mode == "words":
        # every first-attempt draw word (complete on the first `depth` choice points), continued by the policy
        if case["depth"] < k:
            ctx.count("script_words_truncated_depth")
        n, capped = explore_scripts(run, dev=0, full_depth=case["depth"], cap=cap, part=part)
    else:
        n, capped = explore_scripts(run, dev=case.get("dev", 2), full_depth=0, cap=cap, part=part)
    ctx.count("script_executions", n)
    if capped:
        ctx.count("script_caps_hit")


class _ShadowCtx:
    """Minimal ctx used for the second run of a script."""

    def __init__(self):
        self.failures, self.outcomes, self.flags = [], set(), set()

    def tick(self, n=1):
        pass

    def count(self, *a, **k):
        pass

    def flag(self, k):
        self.flags.add(k)

    def outcome(self, obj):
        from mc.engine import digest

        self.outcomes.add(digest(obj))

    def fail(self, op, symptom, detail="", variant="", case=None, check=None):
        self.failures.append({"op": op, "symptom": symptom, "variant": variant})


def _checked_once(ctx, base, pol, prefix, always_twice=False):
    """Run one script; a failing (or replayed) script is executed a second time and both executions must
    give identical observations before the failure counts as a property failure."""
    n0 = len(ctx.failures)
    w, s, failed = _run_script_once(ctx, base, pol, prefix)
    if failed or always_twice:
        sh = _ShadowCtx()
        w2, s2, _ = _run_script_once(sh, base, pol, prefix)
        a = sorted((f["op"], f["symptom"], f.get("variant", "")) for f in ctx.failures[n0:])
        b = sorted((f["op"], f["symptom"], f["variant"]) for f in sh.failures)
        if (w, s, a) != (w2, s2, b):
            ctx.fail("scripted_source", "not_reproducible", f"{w}/{s}/{a} vs {w2}/{s2}/{b}", variant=base["via"],
                     case=dict(base, mode="one", policy=list(pol), prefix=list(w)))
    return w, s


def finalize(tier, seed, totals):
    if totals.counters.get("script_caps_hit"):
        totals.caps_hit.append(f"script: {totals.counters['script_caps_hit']} (shape,k,policy) explorations stopped at "
                               f"their execution cap; everything below the cap was run")
