"""C10 - HOSVD / Tucker-ALS meet their error bound and structural contract.

Product explorer over (member of a fixed family of explicit integer-valued dense tensors) x (configuration)
x (iteration horizon).  Every run is a fresh call of the REAL `pyttb.hosvd` / `pyttb.tucker_als`; the result is
observed through its attributes and compared with loop/NumPy reference semantics (mc.refmodel + the reference
HOSVD cut-off rule and reference HOOI sweep below).  Iteration horizons are observed by re-running the real
`tucker_als` with maxiters = k, k = 1..K, from the same start.
"""

import contextlib
import io
import itertools
import re
import warnings
from math import prod

import numpy as np

from mc import refmodel as rm
from mc import space
from mc.engine import exc_symptom, short_tb

ID = "C10"
RULE = ("product explorer x horizons.  hosvd: one batch case = (data member, sequential, dimorder); inside, every "
        "tolerance of the grid (automatic ranks; verbosity 0 everywhere, 1 and 10 on the default/identity orders), every "
        "rank vector within the mode sizes (given ranks, passed as list or int ndarray) and N vectors with one 0 entry "
        "(caller's array must stay unchanged) is one real hosvd call.  tucker: one case = (data member, rank scalar or "
        "vector, init, dimorder); inside, the real tucker_als is re-run with maxiters = 1..K for stoptol in {0, 1e-4} "
        "(printitn 0; printitn 1 for the last horizon) from the same start.  Asserted on every run: result types and "
        "shapes, requested ranks, orthonormal factor columns, core = X x_n U_n^T (reference ttm), error bound "
        "||X-T||^2 <= tol^2 ||X||^2 (1+1e-9) for automatic ranks, reported fit/normresidual vs the entrywise recomputed "
        "squared residual, iteration count within maxiters (= maxiters-1 for stoptol 0), returned start "
        "guess, inputs bit-unchanged, printed relative error / fit, result.full() = Tucker value; the fits printed by ONE "
        "run never decrease.  Relations between two DIFFERENT calls (squared residual non-increasing in maxiters, iteration "
        "count vs the stopping rule and the stoptol=0 horizons, printed trace vs horizons, independence of verbosity/printitn, "
        "nvecs start) and the differential oracles (reference HOSVD cut-off rule, reference HOOI from the returned start) are "
        "asserted only on admissible runs: no eigenvalue tail within 1e-9||X||^2 of the threshold, gap lambda_r - lambda_{r+1} "
        ">= 1e-6 lambda_1 and lambda_r >= 1e-9 lambda_1 at every (reference) update up to that horizon; the others are run and "
        "counted inadmissible (a gap-less basis is decided by rounding, two calls may differ).  Non-trivial: an admissible "
        "truncating run (some rank below the mode size) with a non-zero residual.  STORAGE DTYPE of the data tensor is a "
        "dimension of its own: every integer-valued member is also stored under every integer dtype (int64, int32, int16, int8, "
        "uint8) that holds its values exactly, plus per dtype one member scaled (power of two) to the full range of that dtype "
        "(its squares / sums do not fit the dtype), plus a 0/1 member (bool storage; tucker_als with random / given start only - "
        "unfolding a logical array is refused by tenmat, test-pinned); the denoted values and the float64 reference are the "
        "same, all assertions above apply unchanged, and the data tensor must keep dtype and values.  float32 storage is not "
        "enumerated (the 1e-9 identities are float64 statements; tensor.norm of float32 data is a float32 number).")
ASSUMPTIONS = ["reference semantics in mc/refmodel.py (unfolding by explicit index formula, ttm, Tucker value) and "
               "numpy.linalg.eigh are correct; reference HOSVD cut-off / HOOI sweep in mc/props/C10.py follow the definitions",
               "data are explicit small integers (or an exact power-of-two scaling of them; a storage dtype is only used when "
               "numpy casts the float64 reference values into it and back without change); residuals are compared in the "
               "squared domain scaled by ||X||^2 (1e-9 identities, 1e-8 differentials), orthonormality 1e-8 (DESIGN 4.3)",
               "ARPACK's internally random start vector (tensor.nvecs -> scipy.sparse.linalg.eigsh) is replaced by a fixed "
               "generic vector while tucker_als runs, so that cases and replays are reproducible; results are still compared "
               "up to rounding, never bitwise across different calls of the solver",
               "init='random' is run under numpy.random.seed(s), s in {0,1,2}; the start actually used is read from the "
               "returned guess",
               "printed output is captured from sys.stdout; warnings through warnings.catch_warnings"]
BOUNDS = {
    "quick": "shapes (3,4),(4,3),(2,3,4),(4,3,2),(3,3,3),(2,2,2,3),(2,3,2,2); hosvd: 7 members (generic, generic/1024, exact "
             "multilinear rank (2,..,2), rank (1,..,1)+noise, counts with an empty slice, flat super-diagonal, graded spectrum) x "
             "tol in {1e-8,.05,.1,.3,.6,.9,.99} x sequential T/F x all N! dimorders (+ default) x every rank vector within the "
             "mode sizes (list / int ndarray) x verbosity {0,1,10} (1,10 on default/identity order) + N rank vectors with a 0 entry; "
             "tucker_als: 4 members (generic, exact rank (2,..,2), rank (1,..,1)+noise, counts) x (scalar ranks 1..3 + every rank "
             "vector <= 3 per mode) x init in {random seeds 0,1,2, nvecs, given list} x dimorder in {default, reversal, one rotation} "
             "(all for N=2) x maxiters 1..3 x stoptol {0,1e-4} (printitn 0; printitn 1 at maxiters 3).  Integer storage block: "
             "hosvd: members (generic, counts, 0/1, exact rank (2,..,2), full-range generic [signed] / counts [uint8]) x every "
             "dtype of {int64,int32,int16,int8,uint8} holding them exactly (+ float64 control for the 0/1 and the 2^58-scaled "
             "member) x sequential T/F x dimorder {default, reversal, one rotation} x the 7 tolerances (verbosity 0; 1 on the "
             "default order) x rank vectors (min(r,s_n))_n, r=1..max s, and the staircase (1,2,3,1,..) + N vectors with a 0 entry "
             "(default order); tucker_als: members (generic, counts, 0/1, full-range) x the same dtypes + bool (0/1 member, "
             "random / given start) x ranks {1, 2, staircase} x init {random seed 0, nvecs, given list} x dimorder {default, "
             "reversal} x maxiters 1..3 x stoptol {0,1e-4}",
    "thorough": "same shapes; hosvd: 19-20 members (+ 4 more generic, exact rank (1,..,1), mixed rank (1,2,..,2), 3 x rank (2,..,2)+noise, "
                "single non-zero entry, 2 more graded) x the same complete configuration grid; tucker_als: 6-7 members (+ rank (2,..,2)"
                "+noise, graded, flat for N<=3) x all ranks x 6 inits (second given list) x ALL N! dimorders for N<=3 (N=4: all 24 "
                "orders for the generic member x {random seed 0, nvecs, list}, 6 orders otherwise) x maxiters 1..5 (N=4: 1..4) x "
                "stoptol {0,1e-4} (printitn 1 at the last horizon).  Integer storage block: hosvd: members (+ rank (1,..,1)+noise, "
                "flat, single entry) x every exact integer dtype x the complete hosvd configuration grid (all N! dimorders + "
                "default, every rank vector, verbosity {0,1,10}); tucker_als: members (+ exact rank (2,..,2), rank (1,..,1)+noise, "
                "flat) x dtypes (+ bool) x ranks {1,2,3, staircase, reversed staircase} x 5 inits x dimorder {default, reversal, "
                "one rotation} x maxiters 1..5 (N=4: 1..4) x stoptol {0,1e-4}",
}
CHUNK = 6

SHAPES = [(3, 4), (4, 3), (2, 3, 4), (4, 3, 2), (3, 3, 3), (2, 2, 2, 3), (2, 3, 2, 2)]
TOLS = [1e-8, 0.05, 0.1, 0.3, 0.6, 0.9, 0.99]

TOL_ORTH = 1e-8     # max |U^T U - I|
TOL_CORE = 1e-9     # max |core - X x U^T| / ||X||
TOL_R2 = 1e-9       # squared-residual identities / ||X||^2
TOL_DIFF = 1e-8     # squared-residual differentials / ||X||^2
GAP = 1e-6          # admissibility: (lambda_r - lambda_{r+1}) / lambda_1
RANKMIN = 1e-9      # admissibility: lambda_r / lambda_1
TIE = 1e-9          # admissibility: |tail - threshold| / ||X||^2


# ---------------------------------------------------------------------------
# the data family (explicit integers; no pyttb)

_CORE = [2, -1, 3, 1, -2, 1, 4, -3, 1, 2, -1, 5, 3, -2, 1, 1, -4, 2, 1, 3, -1, 2, 5, -3]


def full_rank_matrix(rows, cols, salt):
    """Integer matrix with full column rank (5*I pattern + entries in {-1,0,1}: strictly diagonally dominant
    leading block for cols <= 4)."""
    return np.array([[(5.0 if i == j else 0.0) + float(((2 * i + 3 * j + salt) % 3) - 1) for j in range(cols)]
                     for i in range(rows)])


def generic_value(l, vs):
    """Signed integers in -20..21 without structure: every unfolding of every shape used here has full rank and
    well separated singular values (verified for vs = 0..13).  (space.dense_values is an alternating arithmetic
    progression, i.e. of multilinear rank 2 - useless as the generic member of this family.)"""
    v = ((37 * l * l + 11 * l + 13 * vs * (l + 1) + 5 * vs * vs + 5) % 41) - 20
    return float(v if v else 21)


def _core_shape(d):
    shape = d["shape"]
    N = len(shape)
    kind = d["core"]
    if kind == "one":
        return [1] * N
    if kind == "two":
        return [min(2, s) for s in shape]
    if kind == "mixed":      # (1,2,..,2): valid multilinear rank for N >= 3
        return [1] + [min(2, s) for s in shape[1:]]
    raise ValueError(kind)


def data_array(d):
    """The (float64 reference) array a data descriptor denotes.  "lg": k multiplies by 2^k (exact); "dtype" (storage
    dtype of the real tensor, see _make_tensor) does not change the denoted values."""
    a = _data_array(d)
    lg = int(d.get("lg", 0))
    return a * (2.0 ** lg) if lg else a


def _data_array(d):
    fam = d["fam"]
    shape = tuple(d["shape"])
    n = prod(shape)
    vs = int(d.get("vseed", 0))
    if fam == "generic":
        a = rm.arr(shape, [generic_value(l, vs) for l in range(n)])
        return a * float(d.get("scale", 1.0))
    if fam == "mlrank":
        cs = _core_shape(d)
        nc = prod(cs)
        core = rm.arr(cs, [float(_CORE[(l + vs) % len(_CORE)]) for l in range(nc)])
        fs = [full_rank_matrix(s, c, vs + 2 * k) for k, (s, c) in enumerate(zip(shape, cs))]
        a = rm.tucker(core, fs)
        if d.get("noise"):
            a = a + rm.arr(shape, [float(((5 * l + vs) % 3) - 1) for l in range(n)])
        return a
    if fam == "graded":
        # sum of integer rank-one terms scaled by 4^-r (exact dyadic values): mode spectra decaying by ~16 per term,
        # so that the tolerance grid cuts the eigenvalue tails at different places
        a = np.zeros(shape)
        for r in range(max(shape)):
            vecs = [np.array([float(((3 * i + 2 * r + k + vs) % 5) - 2) or 3.0 for i in range(s)]) for k, s in enumerate(shape)]
            a = a + rm.kruskal([4.0 ** (-r)], [v.reshape(-1, 1) for v in vecs])
        return a
    if fam == "counts":
        a = rm.arr(shape, [float((7 * l + 3 + vs) % 4) for l in range(n)])
        a[0, ...] = 0.0
        return a
    if fam == "flat":
        a = np.zeros(shape)
        for i in range(min(shape)):
            a[(i,) * len(shape)] = 2.0 if (i + vs) % 2 == 0 else -2.0
        return a
    if fam == "single":
        a = np.zeros(shape)
        a[space.sub_f(shape, (n // 2 + vs) % n)] = 3.0
        return a
    if fam == "binary":
        # 0/1 pattern without structure (sign pattern of the generic member): the only member a bool tensor can hold
        return rm.arr(shape, [1.0 if generic_value(l, vs + 5) > 0 else 0.0 for l in range(n)])
    raise ValueError(fam)


# ---------------------------------------------------------------------------
# storage dtype of the data tensor (the denoted values stay the same; the reference side is always float64)

INT_DTYPES = ["int64", "int32", "int16", "int8", "uint8", "bool"]


def fits(A, dt):
    """dtype dt holds every entry of A exactly (decided on the reference array only)."""
    dt = np.dtype(dt)
    if dt.kind == "f":
        return True
    if not np.all(A == np.rint(A)):
        return False
    if dt.kind == "b":
        return bool(np.all((A == 0) | (A == 1)))
    info = np.iinfo(dt)
    return bool(float(A.min()) >= info.min and float(A.max()) <= info.max and np.array_equal(A.astype(dt).astype(float), A))


def full_range(d, dt):
    """The member d scaled by the largest power of two that still fits dt: entries use the full range of the storage
    dtype, so neither their squares nor their sums fit it (None if d does not fit dt at all / dt is bool)."""
    if np.dtype(dt).kind not in "iu":
        return None
    A = _data_array(d)
    if not fits(A, dt) or not A.any():
        return None
    lg = 0
    while lg < 70 and fits(A * 2.0 ** (lg + 1), dt):
        lg += 1
    return dict(d, lg=lg) if lg else None


def int_members(shape, tier, seed, algo):
    """(member, integer storage dtype) pairs: every integer-valued member of the family under every integer / boolean
    dtype that holds its values exactly, plus per dtype one member at the full range of that dtype."""
    sh = list(shape)
    N = len(shape)
    gen = {"fam": "generic", "shape": sh, "vseed": seed}
    counts = {"fam": "counts", "shape": sh, "vseed": seed}
    binary = {"fam": "binary", "shape": sh, "vseed": seed}
    two = {"fam": "mlrank", "shape": sh, "core": "two", "noise": 0, "vseed": seed}
    one_n = {"fam": "mlrank", "shape": sh, "core": "one", "noise": 1, "vseed": seed}
    flat = {"fam": "flat", "shape": sh, "vseed": seed}
    single = {"fam": "single", "shape": sh, "vseed": seed}
    gen3 = {"fam": "generic", "shape": sh, "vseed": seed + 3}
    counts3 = {"fam": "counts", "shape": sh, "vseed": seed + 3}
    base = [gen, counts, binary] + ([two] if algo == "hosvd" else [])
    if tier == "thorough":
        base += ([] if algo == "hosvd" else [two]) + [one_n, flat] + ([single] if algo == "hosvd" else [])
    out = []
    for dt in INT_DTYPES:
        if dt == "bool" and algo == "hosvd":
            continue        # unfolding a logical array is refused (tenmat: "must be a numeric numpy.ndarray", test-pinned)
        ms = [m for m in base if fits(_data_array(m), dt)]
        fr = full_range(gen3, dt) or full_range(counts3, dt)      # signed: generic; unsigned: counts
        if fr is not None:
            ms.append(fr)
        out += [dict(m, dtype=dt) for m in ms]
    # the members that exist only here also under the default float64 storage (control)
    out.append(dict(binary, dtype="float64"))
    out.append(dict(gen3, lg=full_range(gen3, "int64")["lg"], dtype="float64"))
    return out


def _diag_rank_vectors(shape):
    """Rank vectors (min(r, s_n))_n, r = 1..max size, and the staircase (min(1 + n mod 3, s_n))_n."""
    out = []
    for vec in [[min(r, s) for s in shape] for r in range(1, max(shape) + 1)] + [[min(1 + (n % 3), s) for n, s in enumerate(shape)]]:
        if vec not in out:
            out.append(vec)
    return out


def members(shape, tier, seed, algo):
    sh = list(shape)
    N = len(shape)
    gen = {"fam": "generic", "shape": sh, "vseed": seed}
    small = {"fam": "generic", "shape": sh, "vseed": seed + 1, "scale": 1.0 / 1024}
    two = {"fam": "mlrank", "shape": sh, "core": "two", "noise": 0, "vseed": seed}
    one_n = {"fam": "mlrank", "shape": sh, "core": "one", "noise": 1, "vseed": seed}
    counts = {"fam": "counts", "shape": sh, "vseed": seed}
    flat = {"fam": "flat", "shape": sh, "vseed": seed}
    gen2 = {"fam": "generic", "shape": sh, "vseed": seed + 7}
    one = {"fam": "mlrank", "shape": sh, "core": "one", "noise": 0, "vseed": seed + 1}
    mixed = {"fam": "mlrank", "shape": sh, "core": "mixed", "noise": 0, "vseed": seed}
    two_n = {"fam": "mlrank", "shape": sh, "core": "two", "noise": 1, "vseed": seed + 2}
    single = {"fam": "single", "shape": sh, "vseed": seed}
    graded = {"fam": "graded", "shape": sh, "vseed": seed}
    if algo == "hosvd":
        out = [gen, small, two, one_n, counts, flat, graded]
        if tier == "thorough":
            out += [gen2, one, two_n, single] + ([mixed] if N >= 3 else [])
            out += [{"fam": "generic", "shape": sh, "vseed": seed + v} for v in (2, 3, 4)]
            out += [{"fam": "graded", "shape": sh, "vseed": seed + v} for v in (1, 2)]
            out += [{"fam": "mlrank", "shape": sh, "core": "two", "noise": 1, "vseed": seed + v} for v in (3, 4)]
        return out
    out = [gen, two, one_n, counts]
    if tier == "thorough":
        out += [two_n, graded] + ([flat] if N <= 3 else [])
    return out


# ---------------------------------------------------------------------------
# reference


def mode_gram(A, n):
    N = A.ndim
    Xn = rm.matricize(A, [n], [m for m in range(N) if m != n])
    return Xn @ Xn.T


def spectrum(G):
    w, v = np.linalg.eigh(G)
    idx = np.argsort(-w, kind="stable")
    return np.clip(w[idx], 0.0, None), v[:, idx]


def sqnorm(a):
    a = np.asarray(a, dtype=float)
    return float(np.sum(a * a))


def gap_ok(w, r):
    """lambda_r carries energy and is separated from lambda_{r+1} (reference side only)."""
    if w[0] <= 0:
        return False
    if w[r - 1] < RANKMIN * w[0]:
        return False
    return r == len(w) or (w[r - 1] - w[r]) >= GAP * w[0]


def ref_hosvd(A, tol, seq, order, ranks=None):
    """Truncated HOSVD from its definition.  ranks None -> smallest rank per mode whose discarded eigenvalue tail
    is <= tol^2 ||X||^2 / d.  Returns (ranks, factors, squared residual, admissible_ranks, admissible_subspaces)."""
    d = A.ndim
    normx2 = sqnorm(A)
    thresh = tol * tol * normx2 / d
    Y = A
    U = [None] * d
    out_ranks = [0] * d
    adm_rank, adm_sub = True, True
    for k in order:
        w, V = spectrum(mode_gram(Y, k))
        size = len(w)
        if ranks is None or ranks[k] == 0:
            tails = [float(np.sum(w[i:])) for i in range(size)]
            r = size
            for i in range(1, size):
                if tails[i] <= thresh:
                    r = i
                    break
            if any(abs(t - thresh) < TIE * normx2 for t in tails):
                adm_rank = False
        else:
            r = int(ranks[k])
        out_ranks[k] = r
        if not gap_ok(w, r):
            adm_sub = False
        U[k] = V[:, :r]
        if seq:
            Y = rm.ttm(Y, {k: U[k]}, transpose=True)
    core = rm.ttm(A, {n: U[n] for n in range(d)}, transpose=True)
    res2 = sqnorm(A - rm.tucker(core, U))
    return out_ranks, U, res2, adm_rank, adm_sub


def ref_hooi(A, ranks, order, U0, K):
    """Reference HOOI: U_n <- leading r_n eigenvectors of the Gram matrix of the mode-n unfolding of
    X x_{m != n} U_m^T.  Returns per sweep (squared residual, admissible so far)."""
    N = A.ndim
    U = list(U0)
    out = []
    adm = True
    for _ in range(K):
        for n in order:
            Ut = rm.ttm(A, {m: U[m] for m in range(N) if m != n}, transpose=True)
            w, V = spectrum(mode_gram(Ut, n))
            r = int(ranks[n])
            if not gap_ok(w, r):
                adm = False
            U[n] = V[:, :r]
        core = rm.ttm(A, {n: U[n] for n in range(N)}, transpose=True)
        out.append((sqnorm(A - rm.tucker(core, U)), adm))
    return out


# ---------------------------------------------------------------------------
# cases


def _rank_vectors(shape, cap=None):
    rs = [range(1, (s if cap is None else min(s, cap)) + 1) for s in shape]
    return [list(v) for v in itertools.product(*rs)]


def _rform(vec):
    return "array" if sum(vec) % 2 == 0 else "list"


def gen_cases(tier, seed):
    thorough = tier == "thorough"
    yield from _rerun_cases(tier, seed)
    for shape in SHAPES:
        N = len(shape)
        perms = [list(p) for p in itertools.permutations(range(N))]
        # ---- hosvd
        for d in members(shape, tier, seed, "hosvd"):
            for seq in (True, False):
                for dimorder in [None] + perms:
                    ident = dimorder is None or dimorder == list(range(N))
                    yield {"check": "hosvd", "data": d, "shape": list(shape), "seq": seq, "dimorder": dimorder,
                           "dform": "array" if (dimorder and dimorder[0] % 2) else "list",
                           "tols": TOLS, "verbs": [0, 1, 10] if ident else [0],
                           "rankvecs": [] if dimorder is None else "all",
                           "mixed": bool(ident and dimorder is not None)}
        # ---- hosvd, integer / boolean storage of the data tensor
        few = [None] + ([perms[-1]] if N == 2 else [perms[-1], list(range(1, N)) + [0]])
        for d in int_members(shape, tier, seed, "hosvd"):
            for seq in (True, False):
                for dimorder in ([None] + perms) if thorough else few:
                    ident = dimorder is None or dimorder == list(range(N))
                    yield {"check": "hosvd", "data": d, "shape": list(shape), "seq": seq, "dimorder": dimorder,
                           "dform": "array" if (dimorder and dimorder[0] % 2) else "list",
                           "tols": TOLS, "verbs": ([0, 1, 10] if thorough else [0, 1]) if ident else [0],
                           "rankvecs": ([] if dimorder is None else "all") if thorough else _diag_rank_vectors(shape),
                           "mixed": bool(ident and (dimorder is not None or not thorough))}
        # ---- tucker_als
        K = (5 if N <= 3 else 4) if thorough else 3
        ranks = [r for r in (1, 2, 3) if r <= min(shape)] + _rank_vectors(shape, 3)
        inits = [{"kind": "random", "seed": s} for s in (0, 1, 2)] + [{"kind": "nvecs"}, {"kind": "list", "salt": 0}]
        few = [None] + ([perms[-1]] if N == 2 else [perms[-1], list(range(1, N)) + [0]])
        if thorough:
            inits.append({"kind": "list", "salt": 4})
            allp = [None] + perms[1:]
            some = few + [p for p in (perms[1], perms[min(N, len(perms) - 1)], [N - 1] + list(range(N - 1))) if p not in few]
        for mi, d in enumerate(members(shape, tier, seed, "tucker")):
            for rank in ranks:
                for ii, init in enumerate(inits):
                    if not thorough:
                        orders = few
                    elif N <= 3 or (mi == 0 and init in ({"kind": "random", "seed": 0}, {"kind": "nvecs"},
                                                          {"kind": "list", "salt": 0})):
                        orders = allp
                    else:
                        orders = some
                    for dimorder in orders:
                        yield {"check": "tucker", "data": d, "shape": list(shape), "rank": rank,
                               "rkform": "scalar" if isinstance(rank, int) else _rform(rank),
                               "init": init, "dimorder": dimorder,
                               "dform": "array" if (dimorder and dimorder[0] % 2) else "list",
                               "ks": list(range(1, K + 1)), "stoptols": [0, 1e-4],
                               "printitns": [0], "print_last": True}
        # ---- tucker_als, integer / boolean storage of the data tensor
        stair = [min(1 + (n % 3), s) for n, s in enumerate(shape)]
        iranks = [r for r in ((1, 2, 3) if thorough else (1, 2)) if r <= min(shape)] + [stair] + ([stair[::-1]] if thorough and stair[::-1] != stair and all(r <= s for r, s in zip(stair[::-1], shape)) else [])
        iinits = [{"kind": "random", "seed": 0}, {"kind": "nvecs"}, {"kind": "list", "salt": 0}]
        if thorough:
            iinits += [{"kind": "random", "seed": 1}, {"kind": "list", "salt": 4}]
        for d in int_members(shape, tier, seed, "tucker"):
            for rank in iranks:
                for init in iinits:
                    if d["dtype"] == "bool" and init["kind"] == "nvecs":
                        continue        # tensor.nvecs unfolds the data: refused for a logical array (see int_members)
                    for dimorder in (few if thorough else few[:2]):
                        yield {"check": "tucker", "data": d, "shape": list(shape), "rank": rank,
                               "rkform": "scalar" if isinstance(rank, int) else _rform(rank),
                               "init": init, "dimorder": dimorder,
                               "dform": "array" if (dimorder and dimorder[0] % 2) else "list",
                               "ks": list(range(1, K + 1)), "stoptols": [0, 1e-4],
                               "printitns": [0], "print_last": True}


def run_case(case, ctx):
    globals()["_run_" + case["check"]](case, ctx)


# ---------------------------------------------------------------------------
# depth-2 histories on the data object: decompose, edit one entry of the same tensor object in place, decompose again.
# The second result must be the one a fresh tensor holding the edited array gets (nothing derived from the data
# before the edit - a memoised norm, Gram matrix, unfolding - may survive it).


def _rerun_cases(tier, seed):
    for shape in SHAPES:
        N = len(shape)
        for d in members(shape, tier, seed, "tucker")[: (3 if tier == "thorough" else 1)]:
            for alg in ("hosvd", "hosvd_ranks", "tucker_list", "tucker_nvecs"):
                for cell in ("first", "last"):
                    yield {"check": "rerun", "data": d, "shape": list(shape), "alg": alg, "cell": cell}


def _rerun_call(T, A, alg):
    import pyttb as ttb

    N = A.ndim
    rvec = [min(2, s) for s in A.shape]
    buf = io.StringIO()
    with warnings.catch_warnings(record=True), contextlib.redirect_stdout(buf):
        warnings.simplefilter("always")
        if alg == "hosvd":
            R = ttb.hosvd(T, 0.3, verbosity=0)
            return [np.array(R.core.data)] + [np.array(f) for f in R.factor_matrices], None
        if alg == "hosvd_ranks":
            R = ttb.hosvd(T, 1e-8, verbosity=0, ranks=list(rvec))
            return [np.array(R.core.data)] + [np.array(f) for f in R.factor_matrices], None
        if alg == "tucker_nvecs":
            M, _, out = ttb.tucker_als(T, list(rvec), init="nvecs", maxiters=2, stoptol=0, printitn=0)
        else:
            iobj, _ = _init_objects({"kind": "list", "salt": 0}, A.shape, rvec, list(range(N)))
            M, _, out = ttb.tucker_als(T, list(rvec), init=iobj, maxiters=2, stoptol=0, printitn=0)
        return [np.array(M.core.data)] + [np.array(f) for f in M.factor_matrices], float(out["fit"])


def _run_rerun(case, ctx):
    A = data_array(case["data"])
    alg = case["alg"]
    cell = tuple(0 for _ in A.shape) if case["cell"] == "first" else tuple(s - 1 for s in A.shape)
    B = A.copy()
    B[cell] = B[cell] + 3.0
    ctx.state()
    op = "hosvd" if alg.startswith("hosvd") else "tucker_als"
    try:
        with FixedArpackStart(ctx):
            T = _make_tensor(A, None)
            ctx.tick()
            _rerun_call(T, A, alg)
            T[cell] = float(B[cell])
            ctx.tick()
            got, gfit = _rerun_call(T, B, alg)
            ctx.tick()
            want, wfit = _rerun_call(_make_tensor(B, None), B, alg)
    except Exception as e:  # noqa: BLE001
        ctx.inadm()
        ctx.count("rerun_raised_" + type(e).__name__)
        return
    ctx.nontriv()
    same = len(got) == len(want) and all(g.shape == w.shape and np.array_equal(g, w) for g, w in zip(got, want))
    if not same or gfit != wfit:
        dev = max((float(np.max(np.abs(g - w))) if g.shape == w.shape and g.size else float("nan")) for g, w in zip(got, want))
        ctx.fail(op, "history_dependent",
                 f"{alg} on a tensor edited in place after an earlier {alg} differs from {alg} on a fresh tensor with the "
                 f"same entries: max deviation {dev!r}, fit {gfit!r} vs {wfit!r}", variant="rerun:" + alg, case=case)
    ctx.outcome(got)


# ---------------------------------------------------------------------------
# helpers on the real side


class FixedArpackStart:
    """While the real algorithm runs, scipy.sparse.linalg.eigsh gets a fixed generic start vector unless the caller
    passes one (ARPACK's own generator keeps state between calls -> runs would not be reproducible)."""

    def __init__(self, ctx, salt=0):
        self.ctx, self.salt = ctx, salt

    def __enter__(self):
        import scipy.sparse.linalg as sla

        self.sla, self.orig = sla, sla.eigsh
        orig, salt, ctx = self.orig, self.salt, self.ctx

        def eigsh(A, k=6, *args, **kw):
            ctx.flag("tucker:nvecs_arpack_path")
            if not args and kw.get("v0") is None:
                n = A.shape[0]
                kw["v0"] = np.array([1.0 + 0.5 * np.sin(1.0 + 2.3 * i + 0.7 * salt) for i in range(n)])
            return orig(A, k, *args, **kw)

        sla.eigsh = eigsh
        return self

    def __exit__(self, *exc):
        self.sla.eigsh = self.orig
        return False


def _make_tensor(A, d=None):
    """Fresh real tensor holding the values of A, stored with the dtype of the data descriptor d (default float64)."""
    import pyttb as ttb

    dt = np.dtype((d or {}).get("dtype") or "float64")
    if not fits(A, dt):
        raise ValueError(f"harness: dtype {dt} does not hold the member {d}")
    return ttb.tensor(np.asfortranarray(A.astype(dt)))


def _data_unchanged(T, A, d):
    return (T.shape == A.shape and isinstance(T.data, np.ndarray) and T.data.dtype == np.dtype((d or {}).get("dtype") or "float64")
            and np.array_equal(T.data, A))


def _as_form(vec, form):
    if vec is None:
        return None
    if form == "array":
        return np.array(vec, dtype=int)
    return list(vec)


def _unchanged(obj, vec):
    if vec is None:
        return obj is None
    if isinstance(obj, np.ndarray):
        return obj.dtype.kind == "i" and obj.shape == (len(vec),) and obj.tolist() == list(vec)
    return isinstance(obj, list) and obj == list(vec) and all(type(x) is int for x in obj)


def _inspect(ctx, op, variant, sub, R, A, want_ranks):
    """Structural contract of a returned Tucker tensor.  Returns (factors, core array, ranks, squared residual)
    or None when the object is too malformed to go on."""
    import pyttb as ttb

    shape = A.shape
    N = A.ndim
    normx = np.sqrt(sqnorm(A))
    if not isinstance(R, ttb.ttensor):
        ctx.fail(op, "wrong_type", f"result is {type(R).__name__}", variant=variant, case=sub)
        return None
    if not isinstance(R.core, ttb.tensor):
        ctx.fail(op, "wrong_type", f"core is {type(R.core).__name__}", variant=variant, case=sub)
        return None
    Us = [np.asarray(u, dtype=float) for u in R.factor_matrices]
    G = np.asarray(R.core.data, dtype=float)
    if len(Us) != N or any(u.ndim != 2 or u.shape[0] != shape[n] for n, u in enumerate(Us)):
        ctx.fail(op, "wrong_shape", f"factor shapes {[u.shape for u in Us]} for data {shape}", variant=variant, case=sub)
        return None
    ranks = tuple(int(u.shape[1]) for u in Us)
    if tuple(int(x) for x in R.core.shape) != ranks or G.shape != ranks:
        ctx.fail(op, "malformed:core_shape", f"core {tuple(R.core.shape)} vs factor columns {ranks}", variant=variant, case=sub)
        return None
    if want_ranks is not None and ranks != tuple(int(r) for r in want_ranks):
        ctx.fail(op, "wrong_shape", f"requested ranks {list(want_ranks)} but factors have {list(ranks)} columns "
                 f"(data shape {shape})", variant=variant, case=sub)
    if not (np.all(np.isfinite(G)) and all(np.all(np.isfinite(u)) for u in Us)):
        ctx.fail(op, "not_finite", "non-finite entries in the result", variant=variant, case=sub)
        return None
    for n, u in enumerate(Us):
        dev = float(np.max(np.abs(u.T @ u - np.eye(u.shape[1])))) if u.shape[1] else 0.0
        if dev > TOL_ORTH:
            ctx.fail(op, "not_orthonormal", f"mode {n}: max|U^T U - I| = {dev:.3e}, ranks {ranks}", variant=variant, case=sub)
    want_core = rm.ttm(A, {n: Us[n] for n in range(N)}, transpose=True)
    dev = float(np.max(np.abs(G - want_core))) if G.size else 0.0
    if dev > TOL_CORE * normx:
        ctx.fail(op, "core_relation", f"max|core - X x_n U_n^T| = {dev:.3e} (||X|| = {normx:.3e}), ranks {ranks}",
                 variant=variant, case=sub)
    model = rm.tucker(G, Us)
    res2 = sqnorm(A - model)
    # the library's own reconstruction (ttensor.full) denotes the same array
    try:
        F = R.full()
        fd = np.asarray(F.data, dtype=float)
        if tuple(fd.shape) != tuple(shape) or float(np.max(np.abs(fd - model))) > TOL_CORE * max(normx, float(np.sqrt(sqnorm(model)))):
            ctx.fail(op, "full_mismatch", f"result.full() differs from sum_j G[j] prod_n U_n[i_n, j_n] (ranks {ranks})",
                     variant=variant, case=sub)
    except Exception as e:  # noqa: BLE001
        ctx.fail(op, "full_" + exc_symptom(e), short_tb(e), variant=variant, case=sub)
    return Us, G, ranks, res2


# ---------------------------------------------------------------------------
# hosvd

_RE_REL = re.compile(r"\|\|X-T\|\|/\|\|X\|\| =\s*(\S+)\s*([<>]=)")
_RE_CORE = re.compile(r"Shape of core: \(([^)]*)\)")


def _hosvd_call(A, sub, tol, verb, ranks, rform):
    """One real call.  Returns (result, printed text, warnings, holders of the caller's arguments)."""
    import pyttb as ttb

    T = _make_tensor(A, sub["data"])
    kw = {"verbosity": verb, "sequential": sub["seq"]}
    dimorder = sub["dimorder"]
    dobj = _as_form(dimorder, sub.get("dform", "list"))
    if dobj is not None:
        kw["dimorder"] = dobj
    robj = _as_form(ranks, rform)
    if robj is not None:
        kw["ranks"] = robj
    buf = io.StringIO()
    with warnings.catch_warnings(record=True) as wl, contextlib.redirect_stdout(buf):
        warnings.simplefilter("always")
        R = ttb.hosvd(T, tol, **kw)
    return R, buf.getvalue(), [str(w.message) for w in wl], (T, dobj, robj)


def _run_hosvd(case, ctx):
    d = case["data"]
    A = data_array(d)
    shape = A.shape
    N = A.ndim
    normx2 = sqnorm(A)
    dimorder = case["dimorder"]
    order = list(range(N)) if dimorder is None else list(dimorder)
    base = {k: case[k] for k in ("check", "data", "shape", "seq", "dimorder")}
    base["dform"] = case.get("dform", "list")
    ctx.state()
    ctx.count("hosvd:fam:" + d["fam"])
    ctx.count("hosvd:dtype:" + d.get("dtype", "float64"))
    rankvecs = case.get("rankvecs") or []
    if rankvecs == "all":
        rankvecs = _rank_vectors(shape)
    nontrivial = False
    # --- automatic ranks
    for tol in case.get("tols", []):
        ref = ref_hosvd(A, tol, case["seq"], order, None)
        base_res = None
        for verb in case.get("verbs", [0]):
            sub = dict(base, tols=[tol], verbs=[verb], rankvecs=[], mixed=False)
            got = _hosvd_one(ctx, A, sub, tol, verb, None, "list", "auto", ref, order)
            if got is None:
                continue
            Us, G, ranks, res2 = got
            if verb == 0:
                base_res = got
            else:
                if base_res is None:        # narrowed replay: silent baseline
                    try:
                        R0 = _hosvd_call(A, sub, tol, 0, None, "list")[0]
                        base_res = ([np.asarray(u) for u in R0.factor_matrices], np.asarray(R0.core.data), None, None)
                    except Exception:  # noqa: BLE001
                        base_res = None
                if base_res is not None and ref[4]:      # gap-less spectra: the basis is decided by rounding
                    same = (len(base_res[0]) == len(Us) and all(a.shape == b.shape and np.allclose(a, b, rtol=0, atol=1e-12)
                                                               for a, b in zip(base_res[0], Us))
                            and base_res[1].shape == G.shape
                            and np.allclose(base_res[1], G, rtol=0, atol=1e-12 * np.sqrt(normx2)))
                    if not same:
                        ctx.fail("hosvd", "verbosity_dependent", f"result with verbosity={verb} differs from verbosity=0 "
                                 f"(tol={tol})", variant="auto", case=sub)
            if any(r < s for r, s in zip(ranks, shape)) and res2 > 1e-12 * normx2:
                nontrivial = True
    # --- given ranks
    for vec in rankvecs:
        rform = case.get("rform") or _rform(vec)
        sub = dict(base, tols=[], verbs=[0], rankvecs=[list(vec)], rform=rform, mixed=False)
        ref = ref_hosvd(A, 0.1, case["seq"], order, vec)
        got = _hosvd_one(ctx, A, sub, 0.1, 0, list(vec), rform, "ranks", ref, order)
        if got is not None and any(r < s for r, s in zip(vec, shape)) and got[3] > 1e-12 * normx2:
            nontrivial = True
    # --- rank vectors with a 0 entry (undocumented "choose this mode automatically"): only the caller's array
    mixed = case.get("mixed")
    if mixed:
        vecs = mixed if isinstance(mixed, list) else [[0 if m == k else min(2, s) for m, s in enumerate(shape)]
                                                      for k in range(N)]
        for vec in vecs:
            sub = dict(base, tols=[], verbs=[0], rankvecs=[], mixed=[list(vec)])
            ctx.tick()
            try:
                R, _, _, (T, dobj, robj) = _hosvd_call(A, sub, 0.3, 0, list(vec), "array")
            except Exception as e:  # noqa: BLE001  (rejecting a 0 rank would be legitimate)
                ctx.count("hosvd:mixed_rejected:" + type(e).__name__)
                continue
            if not _unchanged(robj, vec):
                ctx.fail("hosvd", "operand_mutated", f"caller's ranks array {list(vec)} became {np.asarray(robj).tolist()}",
                         variant="mixed", case=sub)
            if not _data_unchanged(T, A, d):
                ctx.fail("hosvd", "operand_mutated", "data tensor changed", variant="mixed", case=sub)
            got = _inspect(ctx, "hosvd", "mixed", sub, R, A, None)
            if got is not None:
                bad = [m for m in range(N) if vec[m] and got[2][m] != vec[m]]
                if bad:
                    ctx.fail("hosvd", "wrong_shape", f"requested ranks {list(vec)} (0 = automatic) but factors have "
                             f"{list(got[2])} columns", variant="mixed", case=sub)
    if nontrivial:
        ctx.nontriv()


def _hosvd_one(ctx, A, sub, tol, verb, ranks, rform, variant, ref, order):
    shape = A.shape
    normx2 = sqnorm(A)
    ctx.tick()
    try:
        R, text, warns, (T, dobj, robj) = _hosvd_call(A, sub, tol, verb, ranks, rform)
    except Exception as e:  # noqa: BLE001
        ctx.fail("hosvd", exc_symptom(e), short_tb(e), variant=variant, case=sub)
        return None
    # inputs
    if not _data_unchanged(T, A, sub["data"]):
        ctx.fail("hosvd", "operand_mutated", "data tensor changed", variant=variant, case=sub)
    if not _unchanged(dobj, sub["dimorder"]):
        ctx.fail("hosvd", "operand_mutated", f"caller's dimorder {sub['dimorder']} became {dobj!r}", variant=variant, case=sub)
    if not _unchanged(robj, ranks):
        ctx.fail("hosvd", "operand_mutated", f"caller's ranks {ranks} became {robj!r}", variant=variant, case=sub)
    got = _inspect(ctx, "hosvd", variant, sub, R, A, ranks)
    if got is None:
        return None
    Us, G, got_ranks, res2 = got
    ref_ranks, _, ref_res2, adm_rank, adm_sub = ref
    if ranks is None:
        bound = tol * tol * normx2 * (1 + 1e-9)
        if res2 > bound:
            ctx.fail("hosvd", "tolerance_exceeded",
                     f"||X-T||/||X|| = {np.sqrt(res2 / normx2):.9g} > tol = {tol} with automatic ranks {list(got_ranks)} "
                     f"(shape {shape}, sequential={sub['seq']}, dimorder={sub['dimorder']})", variant=variant, case=sub)
        if res2 > 0.5 * bound:
            ctx.flag("hosvd:bound_more_than_half_used")
        ctx.flag("hosvd:truncated" if any(r < s for r, s in zip(got_ranks, shape)) else "hosvd:full_rank_kept")
        if adm_rank and adm_sub:
            if list(got_ranks) != list(ref_ranks):
                ctx.fail("hosvd", "wrong_rank_choice",
                         f"automatic ranks {list(got_ranks)} but the smallest ranks with discarded tail <= tol^2||X||^2/d "
                         f"are {list(ref_ranks)} (tol={tol}, sequential={sub['seq']}, order {order})", variant=variant, case=sub)
            elif abs(res2 - ref_res2) > TOL_DIFF * normx2:
                ctx.fail("hosvd", "wrong_value", f"squared residual {res2:.9g} vs reference truncated HOSVD {ref_res2:.9g}",
                         variant=variant, case=sub)
            ctx.count("hosvd:auto_differential_asserted")
        else:
            ctx.inadm()
            ctx.count("hosvd:auto_inadmissible_" + ("tie" if not adm_rank else "gap"))
    else:
        if tuple(got_ranks) == tuple(ranks):
            if adm_sub:
                ctx.count("hosvd:ranks_differential_asserted")
                if abs(res2 - ref_res2) > TOL_DIFF * normx2:
                    ctx.fail("hosvd", "wrong_value",
                             f"ranks {list(ranks)}: squared residual {res2:.9g} vs reference truncated HOSVD {ref_res2:.9g} "
                             f"(||X||^2 = {normx2:.9g}): not the leading mode vectors", variant=variant, case=sub)
            else:
                ctx.inadm()
                ctx.count("hosvd:ranks_inadmissible_gap")
    # printed report
    if verb > 0:
        m = _RE_REL.search(text)
        mc_ = _RE_CORE.search(text)
        if m is None or mc_ is None or "Computing HOSVD" not in text:
            ctx.fail("hosvd", "print_missing", f"verbosity={verb}: no relative-error / core-shape report in {text[-200:]!r}",
                     variant=variant, case=sub)
        else:
            try:
                printed = float(m.group(1))
            except ValueError:
                printed = float("nan")
            rel = float(np.sqrt(res2 / normx2))
            okp = abs(printed - rel) <= 1e-5 * rel + 1e-7
            if not okp:
                ctx.fail("hosvd", "print_wrong", f"printed ||X-T||/||X|| = {m.group(1)} but recomputed {rel:.9g}",
                         variant=variant, case=sub)
            pshape = tuple(int(x) for x in mc_.group(1).replace(" ", "").split(",") if x)
            if pshape != tuple(got_ranks):
                ctx.fail("hosvd", "print_wrong", f"printed core shape {pshape} vs {got_ranks}", variant=variant, case=sub)
            claims_ok = m.group(2) == "<="
            if ranks is None and (not claims_ok or any("not achieved" in w for w in warns) or "not satisfied" in text):
                ctx.fail("hosvd", "tolerance_exceeded", f"the routine itself reports: {text[text.find('Shape of core'):][:160]!r}",
                         variant=variant, case=sub)
            if claims_ok != (printed <= tol):
                ctx.fail("hosvd", "print_wrong", f"report claims {m.group(2)} for {printed} vs tol {tol}", variant=variant, case=sub)
        if verb > 5 and ranks is None and text.count("<-- Cutoff") != len(shape):
            ctx.fail("hosvd", "print_wrong", f"{text.count('<-- Cutoff')} cut-off marks for {len(shape)} modes",
                     variant=variant, case=sub)
        ctx.flag("hosvd:verbosity_%d" % verb)
    elif text:
        ctx.fail("hosvd", "print_wrong", f"verbosity=0 printed {text[:80]!r}", variant=variant, case=sub)
    ctx.outcome([variant, list(got_ranks), round(res2 / normx2, 9)])
    return got


# ---------------------------------------------------------------------------
# tucker_als

_RE_ITER = re.compile(r"^ Iter\s+(\d+): fit = (\S+) fitdelta = (\S+)", re.M)


def _init_objects(init, shape, rvec, order):
    """Fresh caller-side init argument (+ reference copies for the unchanged check)."""
    if init["kind"] == "list":
        mats = [full_rank_matrix(s, r, init.get("salt", 0) + 3 * n) for n, (s, r) in enumerate(zip(shape, rvec))]
        return [m.copy() for m in mats], mats
    return ("random" if init["kind"] == "random" else "nvecs"), None


def _tucker_call(A, case, rvec, order, k, st, pr):
    import pyttb as ttb

    T = _make_tensor(A, case["data"])
    shape = A.shape
    init = case["init"]
    rank = case["rank"]
    rkform = case.get("rkform", "scalar" if isinstance(rank, int) else "list")
    robj = int(rank) if isinstance(rank, int) else _as_form(rank, rkform)
    dobj = _as_form(case["dimorder"], case.get("dform", "list"))
    iobj, imats = _init_objects(init, shape, rvec, order)
    kw = {"stoptol": st, "maxiters": k, "init": iobj, "printitn": pr}
    if dobj is not None:
        kw["dimorder"] = dobj
    if init["kind"] == "random":
        np.random.seed(int(init["seed"]))
    buf = io.StringIO()
    with warnings.catch_warnings(record=True), contextlib.redirect_stdout(buf):
        warnings.simplefilter("always")
        M, Uinit, out = ttb.tucker_als(T, robj, **kw)
    return M, Uinit, out, buf.getvalue(), (T, robj, dobj, iobj, imats)


def _run_tucker(case, ctx):
    d = case["data"]
    A = data_array(d)
    shape = A.shape
    N = A.ndim
    normx2 = sqnorm(A)
    normx = np.sqrt(normx2)
    rank = case["rank"]
    rvec = [int(rank)] * N if isinstance(rank, int) else [int(r) for r in rank]
    dimorder = case["dimorder"]
    order = list(range(N)) if dimorder is None else list(dimorder)
    init = case["init"]
    variant = init["kind"]
    ks = sorted(case.get("ks", [1, 2, 3]))
    stoptols = case.get("stoptols", [0])
    printitns = case.get("printitns", [0])
    base = {k: case[k] for k in ("check", "data", "shape", "rank", "init", "dimorder")}
    base["rkform"] = case.get("rkform", "scalar" if isinstance(rank, int) else "list")
    base["dform"] = case.get("dform", "list")

    def narrowed(ks_, sts_, prs_):
        return dict(base, ks=sorted(set(ks_)), stoptols=list(dict.fromkeys(sts_)), printitns=list(dict.fromkeys(prs_)),
                    print_last=False)

    ctx.state()
    ctx.count("tucker:fam:" + d["fam"])
    ctx.count("tucker:dtype:" + d.get("dtype", "float64"))
    ctx.count("tucker:init:" + variant)
    runs = {}        # (k, st, pr) -> dict(res2, fit, iters, Uinit)
    plan = []
    for st in stoptols:
        for pr in printitns:
            for k in ks:
                plan.append((k, st, pr))
    if case.get("print_last") and 1 not in printitns:
        plan += [(ks[-1], st, 1) for st in stoptols]
    with FixedArpackStart(ctx, 0):
        for (k, st, pr) in plan:
            sub = narrowed([k], [st], [pr])
            ctx.tick()
            try:
                M, Uinit, out, text, (T, robj, dobj, iobj, imats) = _tucker_call(A, case, rvec, order, k, st, pr)
            except Exception as e:  # noqa: BLE001
                ctx.fail("tucker_als", exc_symptom(e), short_tb(e), variant=variant, case=sub)
                continue
            # inputs unchanged
            if not _data_unchanged(T, A, d):
                ctx.fail("tucker_als", "operand_mutated", "data tensor changed", variant=variant, case=sub)
            if not isinstance(rank, int) and not _unchanged(robj, rank):
                ctx.fail("tucker_als", "operand_mutated", f"caller's rank {rank} became {robj!r}", variant=variant, case=sub)
            if not _unchanged(dobj, dimorder):
                ctx.fail("tucker_als", "operand_mutated", f"caller's dimorder {dimorder} became {dobj!r}", variant=variant, case=sub)
            if imats is not None:
                if (not isinstance(iobj, list) or len(iobj) != N
                        or any(not isinstance(x, np.ndarray) or x.shape != m.shape or not np.array_equal(x, m)
                               for x, m in zip(iobj, imats))):
                    ctx.fail("tucker_als", "operand_mutated", "caller's init list changed", variant=variant, case=sub)
            got = _inspect(ctx, "tucker_als", variant, sub, M, A, rvec)
            if got is None:
                continue
            Us, G, got_ranks, res2 = got
            # output dictionary
            if not isinstance(out, dict) or any(key not in out for key in ("params", "iters", "normresidual", "fit")):
                ctx.fail("tucker_als", "malformed:output", f"output = {out!r}"[:300], variant=variant, case=sub)
                continue
            fit = float(out["fit"])
            nres = float(out["normresidual"])
            iters = int(out["iters"])
            r2_a = nres * nres
            r2_b = ((1.0 - fit) * normx) ** 2
            if not (abs(r2_a - res2) <= TOL_R2 * normx2):
                ctx.fail("tucker_als", "normresidual_mismatch",
                         f"reported normresidual^2 = {r2_a:.12g}, recomputed ||X-T||^2 = {res2:.12g} (||X||^2 = {normx2:.12g}, k={k})",
                         variant=variant, case=sub)
            if not (abs(r2_b - res2) <= TOL_R2 * normx2) or nres < 0 or fit > 1 + 1e-12:
                ctx.fail("tucker_als", "fit_mismatch",
                         f"reported fit = {fit:.12g} -> ((1-fit)||X||)^2 = {r2_b:.12g}, recomputed ||X-T||^2 = {res2:.12g} "
                         f"(||X||^2 = {normx2:.12g}, k={k})", variant=variant, case=sub)
            if not (0 <= iters <= k - 1):
                ctx.fail("tucker_als", "iters_out_of_range", f"iters = {iters} with maxiters = {k}", variant=variant, case=sub)
            elif st == 0 and iters != k - 1:
                ctx.fail("tucker_als", "stopped_early", f"stoptol=0 but iters = {iters} with maxiters = {k}", variant=variant, case=sub)
            try:
                p = out["params"]
                okp = (p[0] == st and p[1] == k and p[2] == pr and list(np.asarray(p[3]).tolist()) == order)
            except Exception:  # noqa: BLE001
                okp = False
            if not okp:
                ctx.fail("tucker_als", "malformed:output", f"params = {out['params']!r}", variant=variant, case=sub)
            # returned start guess
            good_init = isinstance(Uinit, list) and len(Uinit) == N and all(
                isinstance(Uinit[n], np.ndarray) and Uinit[n].shape == (shape[n], rvec[n]) for n in order[1:])
            if not good_init:
                ctx.fail("tucker_als", "malformed:init", f"returned guess {[getattr(u, 'shape', None) for u in Uinit] if isinstance(Uinit, list) else type(Uinit)}",
                         variant=variant, case=sub)
            elif imats is not None and any(not np.array_equal(Uinit[n], imats[n]) for n in range(N)):
                ctx.fail("tucker_als", "init_not_returned", "returned guess differs from the given list", variant=variant, case=sub)
            # printed trace
            lines = _RE_ITER.findall(text)
            if pr == 0 and lines:
                ctx.fail("tucker_als", "print_wrong", "printitn=0 printed iteration lines", variant=variant, case=sub)
            if pr == 1:
                if len(lines) != iters + 1 or [int(x[0]) for x in lines] != list(range(iters + 1)):
                    ctx.fail("tucker_als", "print_wrong", f"{len(lines)} iteration lines for iters = {iters}", variant=variant, case=sub)
                elif abs(float(lines[-1][1]) - fit) > 1e-5 * max(1.0, abs(fit)):
                    ctx.fail("tucker_als", "print_wrong", f"last printed fit {lines[-1][1]} vs returned {fit!r}", variant=variant, case=sub)
            runs[(k, st, pr)] = {"res2": res2, "fit": fit, "iters": iters, "Uinit": Uinit if good_init else None,
                                 "trace": [float(x[1]) for x in lines] if pr == 1 else None}
            ctx.flag("tucker:stopped_early" if iters < k - 1 else "tucker:ran_to_maxiters")
            ctx.outcome([variant, rvec, k, st, iters, round(res2 / normx2, 9)])

        # --- admissibility of everything that relates two DIFFERENT calls (reference side only).  With a gap-less
        # or rank-deficient eigenproblem anywhere on the way the chosen basis is decided by rounding, two calls on the
        # same input may legitimately follow different trajectories (observed: results depend on buffer alignment).
        adm0 = True
        if variant == "nvecs":
            adm0 = all(gap_ok(spectrum(mode_gram(A, n))[0], rvec[n]) for n in order[1:])
        first = None
        for key in sorted(runs, key=str):
            if runs[key]["Uinit"] is not None:
                first = (key, runs[key]["Uinit"])
                break
        ref = None
        kmax = max([k for (k, _, _) in runs], default=0)
        if first is not None and kmax:
            try:
                ref = ref_hooi(A, rvec, order, first[1], kmax)
            except Exception as e:  # noqa: BLE001
                ctx.fail("tucker_als", "malformed:init", f"reference sweep from the returned guess failed: {e!r}"[:200],
                         variant=variant, case=narrowed([first[0][0]], [first[0][1]], [first[0][2]]))
        adm = {0: adm0}
        for k in range(1, kmax + 1):
            adm[k] = bool(adm0 and ref is not None and ref[k - 1][1])

        # --- the start guess is the same for every horizon
        if first is not None and (variant != "nvecs" or adm0):
            tol0 = 0.0 if variant != "nvecs" else 1e-10
            for key in sorted(runs, key=str):
                U0 = runs[key]["Uinit"]
                if U0 is None or key == first[0]:
                    continue
                if any(np.max(np.abs(U0[n] - first[1][n])) > tol0 for n in order[1:]):
                    ctx.fail("tucker_als", "init_not_reproducible",
                             f"returned start guess of run {key} differs from run {first[0]}", variant=variant,
                             case=narrowed([key[0], first[0][0]], [key[1], first[0][1]], [key[2], first[0][2]]))
                    break
        # --- nvecs start = leading mode vectors of the data (same real routine, same start vector)
        if variant == "nvecs" and first is not None and adm0:
            T = _make_tensor(A, d)
            for n in order[1:]:
                try:
                    want = T.nvecs(n, rvec[n])
                except Exception:  # noqa: BLE001
                    continue
                if want.shape != first[1][n].shape or np.max(np.abs(want - first[1][n])) > 1e-10:
                    ctx.fail("tucker_als", "init_wrong", f"returned nvecs start for mode {n} is not X.nvecs({n},{rvec[n]})",
                             variant=variant, case=narrowed([first[0][0]], [first[0][1]], [first[0][2]]))
                    break

    # --- ONE run: the fits it prints per iteration never decrease (asserted on every run, admissible or not)
    for (k, st, pr), r in sorted(runs.items(), key=str):
        tr = r.get("trace")
        if tr:
            for i in range(len(tr) - 1):
                r2a, r2b = ((1 - tr[i]) ** 2), ((1 - tr[i + 1]) ** 2)
                if tr[i + 1] < tr[i] - 2e-6 and r2b > r2a + 1e-9:
                    ctx.fail("tucker_als", "fit_decreased",
                             f"one run (maxiters={k}, stoptol={st}) printed fit {tr[i]!r} at iteration {i} and {tr[i + 1]!r} at {i + 1}",
                             variant=variant, case=narrowed([k], [st], [pr]))
                    break
            ctx.count("tucker:single_run_trace_checked")
    # --- horizons: squared residual non-increasing in maxiters, per (stoptol, printitn) series
    for st in stoptols:
        for pr in sorted({p for (_, s, p) in runs if s == st}):
            seq = [(k, runs[(k, st, pr)]["res2"]) for k in ks if (k, st, pr) in runs]
            for (k1, a), (k2, b) in zip(seq, seq[1:]):
                if not adm.get(k2):
                    ctx.count("tucker:horizon_pair_inadmissible")
                    continue
                ctx.count("tucker:horizon_pair_asserted")
                if b > a + TOL_R2 * normx2:
                    ctx.fail("tucker_als", "fit_decreased",
                             f"squared residual rose from {a:.12g} (maxiters={k1}) to {b:.12g} (maxiters={k2}); ||X||^2 = {normx2:.12g}",
                             variant=variant, case=narrowed([k1, k2], [st], [pr]))
                    break
    # --- stopping rule (stoptol > 0) against the fits of the stoptol = 0 series
    B = {0: 0.0}
    for k in range(1, kmax + 1):
        if (k, 0, 0) in runs:
            B[k] = runs[(k, 0, 0)]["fit"]
    for (k, st, pr), r in sorted(runs.items(), key=str):
        if not adm.get(k):
            if st != 0 or pr != 0:
                ctx.inadm()
                ctx.count("tucker:stopping_rule_inadmissible_gap")
            continue
        if st == 0:
            if pr != 0 and (k, 0, 0) in runs:
                r0 = runs[(k, 0, 0)]
                if r["iters"] != r0["iters"] or abs(r["res2"] - r0["res2"]) > TOL_R2 * normx2:
                    ctx.fail("tucker_als", "printitn_dependent", f"maxiters={k}: iters/residual differ between printitn=0 and {pr}",
                             variant=variant, case=narrowed([k], [0], [0, pr]))
            continue
        if any(j not in B for j in range(1, k + 1)):
            continue
        deltas = [abs(B[j] - B[j + 1]) for j in range(0, k)]
        if any(abs(dl - st) < 1e-9 for dl in deltas):
            ctx.inadm()
            ctx.count("tucker:stopping_rule_inadmissible_tie")
            continue
        ctx.count("tucker:stopping_rule_asserted")
        istar = next((j for j, dl in enumerate(deltas) if dl < st), k - 1)
        want_iters = min(k - 1, istar)
        want_res2 = runs[(want_iters + 1, 0, 0)]["res2"]
        if r["iters"] != want_iters:
            ctx.fail("tucker_als", "stopping_rule",
                     f"stoptol={st}, maxiters={k}: iters = {r['iters']} but the fits of the stoptol=0 horizons "
                     f"{[round(B[j], 8) for j in range(1, k + 1)]} give {want_iters}",
                     variant=variant, case=narrowed(range(1, k + 1), [0, st], [0, pr]))
        elif abs(r["res2"] - want_res2) > TOL_R2 * normx2:
            ctx.fail("tucker_als", "horizon_mismatch",
                     f"stoptol={st}, maxiters={k}: residual {r['res2']:.12g} vs horizon {want_iters + 1} run {want_res2:.12g}",
                     variant=variant, case=narrowed(range(1, k + 1), [0, st], [0, pr]))
    # --- the per-iteration fits printed by ONE run are the fits returned by the shorter horizons
    for (k, st, pr), r in sorted(runs.items(), key=str):
        tr = r.get("trace")
        if not tr:
            continue
        for i, f in enumerate(tr):
            if (i + 1) in B and i + 1 <= k and adm.get(i + 1) and abs(f - B[i + 1]) > 2e-6 * max(1.0, abs(B[i + 1])):
                ctx.fail("tucker_als", "trace_mismatch",
                         f"maxiters={k}: fit printed for iteration {i} is {f!r} but the run with maxiters={i + 1} returned {B[i + 1]!r}",
                         variant=variant, case=narrowed(range(1, k + 1), [0, st], [0, pr]))
                break
    # --- differential: reference HOOI from the returned start guess
    nontrivial = False
    if ref is not None:
        for k in ks:
            r = runs.get((k, 0, 0))
            if r is None:
                continue
            ref2 = ref[k - 1][0]
            if not adm[k]:
                ctx.inadm()
                ctx.count("tucker:differential_inadmissible:" + d["fam"])
                continue
            ctx.count("tucker:differential_asserted:" + d["fam"])
            if abs(r["res2"] - ref2) > TOL_DIFF * normx2:
                ctx.fail("tucker_als", "wrong_value",
                         f"maxiters={k}: squared residual {r['res2']:.12g} vs reference HOOI {ref2:.12g} (||X||^2 = {normx2:.12g}, "
                         f"ranks {rvec}, order {order})", variant=variant, case=narrowed([k], [0], [0]))
                break
            if any(a < s_ for a, s_ in zip(rvec, shape)) and ref2 > 1e-12 * normx2:
                nontrivial = True
    if nontrivial:
        ctx.nontriv()
