"""C19 - ill-formed requests are rejected, not answered, and leave the receiver unchanged.

A catalogue of precondition violators.  Every case is ONE call of a public operation, written in a
small JSON call language (receiver descriptor, argument descriptors) so that every case is a
self-contained replayable artefact.  Each generator yields, for every shape of the scope, the valid
call(s) ("control": must NOT raise) and every way of breaking one stated precondition of that call
(must raise - any exception type - and leave the receiver and all arguments bit-unchanged).
"""

import itertools
import operator
import os
import tempfile
from math import prod

import numpy as np

from mc import holders as H
from mc import observe as O
from mc import space
from mc.engine import short_tb

ID = "C19"
RULE = ("product explorer: a case is one call of a public operation described by (receiver holder, argument "
        "descriptors).  For every operation of the catalogue and every shape of the scope the generator emits the "
        "well-formed call(s) (variant 'control', must not raise) and one case per way of violating one stated "
        "precondition (shape mismatches incl. permuted / broadcast-compatible / same-count shapes, wrong lengths "
        "incl. 0 (no elements at all), 1 and multiples, every out-of-range / negative / repeated mode position, every non-permutation, every "
        "count-changing reshape, inconsistent constructor components (length domains start at 0 and the shape domain of "
        "the dense constructor at the empty shape ()), column counts of factor lists as a lattice (every non-constant "
        "assignment over {1, R, R+1} to the factors that take part, on shapes up to order 4 so that a list with one "
        "skipped mode still has a first / interior / last position), inconsistent algorithm options - the latter as "
        "a lattice of jointly given options, e.g. per-mode ranks x processing order x truncation scheme; in-place "
        "updates over every non-decreasing mode list incl. repeated entries x every way of being one block short).  "
        "Invariant: a "
        "violator raises and a bit-level snapshot of receiver and arguments is unchanged afterwards.  Non-trivial: "
        "every violator case (the verdict depends on the real call raising).")
ASSUMPTIONS = [
    "the precondition oracle (which call is ill-formed) is written in this module from the property statement and "
    "the docstrings; only preconditions named by the statement are asserted (dense-dense element-wise "
    "broadcasting and value-domain conditions such as rank<=0, tol<0, negative data are not)",
    "any exception type counts as a rejection",
    "receiver/argument state is observed through every ndarray reachable from the objects (mc/observe.py leaves) "
    "plus the shape attribute",
    "holders are built by mc/holders.py from explicit descriptors",
]
BOUNDS = {
    "quick": "shapes order<=3,size<=3,cells<=12 (35 shapes) for every group; second-operand shapes: every permutation, "
             "+/- a singleton mode, one mode->1, one mode+1, flattened / merged (same count); holders tensor / sptensor "
             "(all cells stored, one stored, none stored) / ktensor rank 2 / ttensor core 2..2 / sumtensor(tensor+ktensor); "
             "ttv lengths 0, size+1, 1, 2*size per mode, every single/pair mode selection, out-of-range/negative/repeated "
             "position, wrong multiplicand counts; ttm matrices free extent 1..4 x matching extent 0..4 per mode, both "
             "transposes; mttkrp on the 2-3 way shapes plus every 4-way shape with size<=2 (16 shapes): lists "
             "short/long, rows 0 / +1 / 1 / 2*size per used factor, every non-constant column-count vector over "
             "{1, R, R+1} for the used factors, n = N / -1; ttt: all shape pairs with "
             "cells product <= 36, all single and ordered pairs of contracted modes; permute: all sequences over "
             "{-1..N} of length N plus all N-1 / N+1 extensions; matricization: all (rdims, cdims) sequence pairs over "
             "range(N) of total length <= N, rdims-only up to N+1, -1 / N insertions; reshape targets all shapes "
             "order<=3,size<=4,cells<=16; constructors: dense data lengths 0..16 x shapes incl. () x copy on/off, data arrays "
             "with one extent 0; coordinate lists with 0 / k coordinates x 0 / k-1 / k / k+1 values, coordinate lists with each coordinate -1 / "
             "extent, column and count mismatches, Kruskal/Tucker column counts R+1 / 1 per factor, weight "
             "vectors of length 0 / 1 / R+1 / 2R, every (rdims | cdims) "
             "split x every divisor matrix shape for tenmat/sptenmat, Khatri-Rao 2-3 matrices; algorithms (1 iteration) "
             "on the 2-3 way shapes with >= 4 cells and on (2,2,2,2): every dimorder permutation / 5 non-permutations, guesses with each "
             "mode +1 / ->1, rank +-1, order +-1, reversed; hosvd / tucker_als option lattice: every per-mode rank "
             "vector over {1, size, size+1} x every dimorder permutation (x sequential on/off for hosvd); import_data "
             "files for shapes cells<=8; in-place: every non-decreasing update list of <= 3 entries over {-1..N-1} "
             "(entries may repeat) x data exact / -1 / -R / minus one whole block of each listed entry / 1 / 0, region "
             "writes on shapes order<=2,size<=3 "
             "x every region [0,hi) hi<=size+2 x every right-hand-side shape",
    "thorough": "adds every 4-way shape with size<=3,cells<=16 to all shape/mode groups (N=4: 6^4 permute sequences, "
                "(rdims, cdims) pairs of total length <= N+1 for every N), ttensor operands with an all-ones core, "
                "sparse second operands with one stored entry, scale factors over every increasing mode pair, ttt "
                "pairs up to cells product 64, mttkrp on all 50 4-way shapes, algorithms also on (3,2,1,2), region writes "
                "on (2,2,2)",
}
CHUNK = 150

SP_PATS = ("full", "one", "empty")


# ---------------------------------------------------------------------------------------------
# descriptors


def hd(kind, shape, seed=0, salt=0, core=None):
    """holder descriptor; kind in tensor | sp_full | sp_one | sp_empty | sp_emptied | ktensor | ttensor | sumtensor"""
    shape = list(shape)
    n = prod(shape)
    if kind == "tensor":
        return {"kind": "tensor", "shape": shape, "vseed": seed + salt}
    if kind.startswith("sp_"):
        if kind == "sp_emptied":      # all-zero, reached by removing every entry of a full tensor in place
            return {"kind": "sptensor", "shape": shape, "pat": [1] * n, "vseed": seed + salt, "order": None, "emptied": True}
        pat = {"full": [1] * n, "one": [0] * (n - 1) + [1], "empty": [0] * n}[kind[3:]]
        return {"kind": "sptensor", "shape": shape, "pat": pat, "vseed": seed + salt, "order": None}
    if kind == "ktensor":
        return {"kind": "ktensor", "shape": shape, "rank": 2, "weights": [2.0, -1.0], "salt": salt, "vseed": seed}
    if kind in ("ttensor", "ttensor_c1"):
        if kind == "ttensor_c1":
            core = [1] * len(shape)
        return {"kind": "ttensor", "shape": shape, "core_shape": list(core) if core else [2] * len(shape),
                "core": "dense", "core_pat": None, "salt": salt, "vseed": seed}
    if kind == "sumtensor":
        return {"kind": "sumtensor", "parts": [hd("tensor", shape, seed, salt), hd("ktensor", shape, seed, salt + 1)]}
    raise ValueError(kind)


def cname(kind):
    return "sptensor" if kind.startswith("sp_") else "ttensor" if kind.startswith("ttensor") else kind


def A_h(kind, shape, seed=0, salt=0):
    return {"h": hd(kind, shape, seed, salt)}


def A_vec(n, salt=0):
    return {"vec": int(n), "salt": salt}


def A_mat(r, c, salt=0):
    return {"mat": [int(r), int(c)], "salt": salt}


def A_ints(v):
    return {"ints": [int(x) for x in v]}


def A_list(items):
    return {"list": list(items)}


def A_py(v):
    return {"py": v}


def mk_arg(a, seed):
    """argument descriptor -> fresh real object"""
    import pyttb as ttb

    if not isinstance(a, dict):
        return a
    if "h" in a:
        return H.build(a["h"])
    if "vec" in a:
        return np.array(space.int_vector(a["vec"], a.get("salt", 0), seed), dtype=float)
    if "mat" in a:
        r, c = a["mat"]
        return np.array(space.int_matrix(r, c, a.get("salt", 0), seed), dtype=float).reshape(r, c)
    if "ints" in a:
        v = np.array(a["ints"], dtype=int)
        if "shape" in a:
            v = v.reshape(a["shape"])
        return v
    if "floats" in a:
        v = np.array(a["floats"], dtype=float)
        if "shape" in a:
            v = v.reshape(a["shape"])
        return v
    if "list" in a:
        return [mk_arg(x, seed) for x in a["list"]]
    if "tuple" in a:
        return tuple(mk_arg(x, seed) for x in a["tuple"])
    if "py" in a:
        return a["py"]
    if "tenmat" in a:
        d = a["tenmat"]
        return H.build(hd("tensor", d["shape"], seed, d.get("salt", 0))).to_tenmat(
            rdims=np.array(d["rdims"], dtype=int))
    if "obj" in a:
        return _named_object(a["obj"])
    if "file" in a:
        fd, path = tempfile.mkstemp(prefix="c19_", suffix=".tns")
        with os.fdopen(fd, "w") as fh:
            fh.write(a["file"])
        _TMPFILES.append(path)
        return path
    if "nofile" in a:
        return "/nonexistent_c19/none.tns"
    raise ValueError(f"bad arg descriptor {a}")


_TMPFILES = []


def _named_object(name):
    from pyttb.gcp.handles import Objectives
    from pyttb.gcp.optimizers import LBFGSB, SGD

    if name == "LBFGSB":
        return LBFGSB(maxiter=1, maxfun=3)
    if name == "SGD":
        return SGD(max_iters=1, epoch_iters=1, printitn=0)
    if name == "GAUSSIAN":
        return Objectives.GAUSSIAN
    if name == "gauss_pair":   # a 2-tuple where a 3-tuple (f, g, lower bound) is required
        return (lambda d, m: (m - d) ** 2, lambda d, m: 2 * (m - d))
    if name == "gauss_triple":
        return (lambda d, m: (m - d) ** 2, lambda d, m: 2 * (m - d), -np.inf)
    raise ValueError(name)


def _funcs():
    import pyttb as ttb

    return {
        "ttb.tensor": ttb.tensor, "ttb.sptensor": ttb.sptensor, "sptensor.from_aggregator": ttb.sptensor.from_aggregator,
        "ttb.ktensor": ttb.ktensor, "ktensor.from_vector": ttb.ktensor.from_vector, "ttb.ttensor": ttb.ttensor,
        "ttb.tenmat": ttb.tenmat, "ttb.sptenmat": ttb.sptenmat, "sptenmat.from_array": ttb.sptenmat.from_array,
        "ttb.sumtensor": ttb.sumtensor, "ttb.khatrirao": ttb.khatrirao, "ttb.cp_als": ttb.cp_als,
        "ttb.cp_apr": ttb.cp_apr, "ttb.hosvd": ttb.hosvd, "ttb.tucker_als": ttb.tucker_als,
        "ttb.gcp_opt": ttb.gcp_opt, "ttb.import_data": ttb.import_data,
    }


BINOPS = {"__add__": operator.add, "__sub__": operator.sub, "__mul__": operator.mul, "__truediv__": operator.truediv,
          "__eq__": operator.eq, "__ne__": operator.ne, "__lt__": operator.lt, "__le__": operator.le,
          "__gt__": operator.gt, "__ge__": operator.ge}


def C(check, op, variant, recv, args=(), kw=None, **info):
    """case constructor; variant 'control' = well-formed call"""
    c = {"check": check, "op": op, "variant": variant, "recv": recv, "args": list(args), "kw": kw or {}}
    c.update(info)
    return c


# ---------------------------------------------------------------------------------------------
# shape domains


def _shapes(tier):
    s = space.shapes(3, 3, 12)
    if tier == "thorough":
        s = s + [x for x in space.shapes(4, 3, 16) if len(x) == 4]
    return s


def mismatches(s):
    """(kind, other shape) for every way a second operand's shape can differ in this scope"""
    s = tuple(s)
    out, seen = [], {s}

    def add(k, t):
        t = tuple(int(x) for x in t)
        if t not in seen and len(t) >= 1:
            seen.add(t)
            out.append((k, t))

    for p in itertools.permutations(range(len(s))):
        add("perm", tuple(s[i] for i in p))
    add("append1", s + (1,))
    add("prepend1", (1,) + s)
    for k in range(len(s)):
        if s[k] > 1:
            add("to1", s[:k] + (1,) + s[k + 1:])
    for k in range(len(s)):
        add("plus1", s[:k] + (s[k] + 1,) + s[k + 1:])
    for k in range(len(s)):
        if s[k] == 1 and len(s) > 1:
            add("drop1", s[:k] + s[k + 1:])
    if len(s) > 1:
        add("flat", (prod(s),))
    if len(s) == 3:
        add("merge", (s[0] * s[1], s[2]))
        add("merge", (s[0], s[1] * s[2]))
    return out


def mode_seq_kind(seq, n):
    """classification of a sequence that should be a selection of distinct modes of range(n)"""
    if any(x < 0 for x in seq):
        return "mode_neg"
    if any(x >= n for x in seq):
        return "mode_oor"
    if len(set(seq)) != len(seq):
        return "mode_rep"
    return None


# ---------------------------------------------------------------------------------------------
# generators


def g_innerprod(tier, seed):
    recvs = ["tensor", "sp_full", "sp_one", "sp_empty", "sp_emptied", "ktensor", "ttensor", "sumtensor"]
    others = ["tensor", "sp_full", "sp_empty", "ktensor", "ttensor"]
    if tier == "thorough":   # Tucker operands whose core is smaller than the tensor (other code path)
        recvs.append("ttensor_c1")
        others.append("ttensor_c1")
    for s in _shapes(tier):
        alts = [("control", s)] + [("shape", t) for _, t in mismatches(s)]
        mks = [None] + [k for k, _ in mismatches(s)]
        for rk in recvs:
            for ok in others:
                for (var, t), mk in zip(alts, mks):
                    yield C("innerprod", cname(rk) + ".innerprod", var, hd(rk, s, seed), [A_h(ok, t, seed, 1)],
                            rk=rk, other=ok, shape=list(s), shape2=list(t), mk=mk)


SP_EW = {
    "__add__": ("sptensor", "tensor"), "__sub__": ("sptensor", "tensor"),
    "__mul__": ("sptensor", "tensor", "ktensor"), "__truediv__": ("sptensor", "tensor", "ktensor"),
    "__eq__": ("sptensor", "tensor"), "__ne__": ("sptensor", "tensor"), "__lt__": ("sptensor", "tensor"),
    "__le__": ("sptensor", "tensor"), "__gt__": ("sptensor", "tensor"), "__ge__": ("sptensor", "tensor"),
    "logical_and": ("sptensor", "tensor"), "logical_or": ("sptensor", "tensor"),
    "logical_xor": ("sptensor", "tensor"),
}


def g_elementwise(tier, seed):
    thorough = tier == "thorough"
    for s in _shapes(tier):
        mm = mismatches(s)
        alts = [("control", s, None)] + [("shape", t, k) for k, t in mm]
        # sparse receiver
        for rk in ("sp_full", "sp_one", "sp_empty", "sp_emptied"):
            for opn, oks in SP_EW.items():
                for okc in oks:
                    okinds = {"sptensor": ["sp_full", "sp_empty"] + (["sp_one"] if thorough else []),
                              "tensor": ["tensor"], "ktensor": ["ktensor"]}[okc]
                    for ok in okinds:
                        for var, t, mk in alts:
                            c = C("elementwise", "sptensor." + opn, var, hd(rk, s, seed), [A_h(ok, t, seed, 1)],
                                  rk=rk, other=ok, shape=list(s), shape2=list(t), mk=mk)
                            yield c
            # mask: the mask may be smaller but not bigger in any mode, and must have the same order
            for ok in ("sp_full", "sp_one", "sp_empty"):
                yield C("elementwise", "sptensor.mask", "control", hd(rk, s, seed), [A_h(ok, s, seed, 1)],
                        rk=rk, other=ok, shape=list(s), shape2=list(s), mk=None)
                for k, t in mm:
                    if len(t) == len(s) and all(a <= b for a, b in zip(t, s)):
                        continue
                    yield C("elementwise", "sptensor.mask", "shape", hd(rk, s, seed), [A_h(ok, t, seed, 1)],
                            rk=rk, other=ok, shape=list(s), shape2=list(t), mk=k)
        # Kruskal receiver
        for opn in ("__add__", "__sub__"):
            for var, t, mk in alts:
                yield C("elementwise", "ktensor." + opn, var, hd("ktensor", s, seed), [A_h("ktensor", t, seed, 1)],
                        rk="ktensor", other="ktensor", shape=list(s), shape2=list(t), mk=mk)
        for var, t, mk in alts:
            yield C("elementwise", "ktensor.score", var, hd("ktensor", s, seed), [A_h("ktensor", t, seed, 1)],
                    rk="ktensor", other="ktensor", shape=list(s), shape2=list(t), mk=mk)
        for ok in ("tensor", "sp_full", "sp_empty"):
            yield C("elementwise", "ktensor.mask", "control", hd("ktensor", s, seed), [A_h(ok, s, seed, 1)],
                    rk="ktensor", other=ok, shape=list(s), shape2=list(s), mk=None)
            for k, t in mm:
                if len(t) == len(s) and all(a <= b for a, b in zip(t, s)):
                    continue
                yield C("elementwise", "ktensor.mask", "shape", hd("ktensor", s, seed), [A_h(ok, t, seed, 1)],
                        rk="ktensor", other=ok, shape=list(s), shape2=list(t), mk=k)
        # sum of tensors: constructor and +
        kinds = ("tensor", "sp_full", "ktensor", "ttensor")
        for k1 in kinds:
            for k2 in kinds:
                for var, t, mk in alts:
                    yield C("elementwise", "ttb.sumtensor", var, None,
                            [A_list([A_h(k1, s, seed), A_h(k2, t, seed, 1)])],
                            rk=k1, other=k2, shape=list(s), shape2=list(t), mk=mk)
                    yield C("elementwise", "sumtensor.__add__", var, hd("sumtensor", s, seed) if k1 == "tensor"
                            else {"kind": "sumtensor", "parts": [hd(k1, s, seed)]}, [A_h(k2, t, seed, 1)],
                            rk=k1, other=k2, shape=list(s), shape2=list(t), mk=mk)
    # matricized operands: every pair of matrix shapes 1..3 x 1..3
    dims = [(a, b) for a in (1, 2, 3) for b in (1, 2, 3)]
    for (a, b) in dims:
        for (c, d) in dims:
            for opn in ("__add__", "__sub__"):
                yield C("elementwise", "tenmat." + opn, "control" if (a, b) == (c, d) else "shape",
                        None, [{"tenmat": {"shape": [a, b], "rdims": [0]}},
                               {"tenmat": {"shape": [c, d], "rdims": [0], "salt": 1}}],
                        shape=[a, b], shape2=[c, d], recv_arg=0)
            yield C("elementwise", "tenmat.__mul__", "control" if b == c else "shape",
                    None, [{"tenmat": {"shape": [a, b], "rdims": [0]}},
                           {"tenmat": {"shape": [c, d], "rdims": [0], "salt": 1}}],
                    shape=[a, b], shape2=[c, d], recv_arg=0)
    # the same tensor shape unfolded two ways: an n x 1 and a 1 x n matrix (NumPy would broadcast them to n x n)
    for sh in ([2], [3], [1, 2], [2, 1], [2, 2], [1, 3], [2, 1, 2]):
        allm = list(range(len(sh)))
        for opn in ("__add__", "__sub__"):
            for r1, r2 in ((allm, []), ([], allm)):
                yield C("elementwise", "tenmat." + opn, "split",
                        None, [{"tenmat": {"shape": sh, "rdims": r1}}, {"tenmat": {"shape": sh, "rdims": r2, "salt": 1}}],
                        shape=sh, shape2=sh, recv_arg=0)
            yield C("elementwise", "tenmat." + opn, "control",
                    None, [{"tenmat": {"shape": sh, "rdims": allm}}, {"tenmat": {"shape": sh, "rdims": allm, "salt": 1}}],
                    shape=sh, shape2=sh, recv_arg=0)


TTV_HOLDERS = ("tensor", "sp_full", "sp_empty", "sp_emptied", "ktensor", "ttensor", "sumtensor")


def _wrong_lengths(sn):
    """wrong lengths for a component that must have length sn: none at all, one more, 1, a multiple"""
    out = [0, sn + 1]
    if sn > 1:
        out += [1, 2 * sn]
    return out


def _shapes_multi(tier):
    """shapes for operations that skip one mode of a per-mode operand list (mttkrp): the remaining operands have a
    first / interior / last position only from order 4 on, so 4-way shapes belong to every tier (quick: sizes <= 2)"""
    if tier == "thorough":
        return _shapes(tier)
    return space.shapes(3, 3, 12) + [x for x in space.shapes(4, 2, 16) if len(x) == 4]


def g_ttv(tier, seed):
    for s in _shapes(tier):
        n = len(s)
        for hk in TTV_HOLDERS + (("ttensor_c1",) if tier == "thorough" else ()):
            op = cname(hk) + ".ttv"
            r = hd(hk, s, seed)
            info = dict(hk=hk, shape=list(s))
            allv = [A_vec(s[k], k) for k in range(n)]
            yield C("ttv", op, "control", r, [A_list(allv)], form="all", **info)
            for k in range(n):
                yield C("ttv", op, "control", r, [A_vec(s[k], k), k], form="int", mode=k, **info)
                yield C("ttv", op, "control", r, [A_list([A_vec(s[k], k)]), A_ints([k])], form="list", mode=k, **info)
                for L in _wrong_lengths(s[k]):
                    yield C("ttv", op, "length", r, [A_vec(L, k), k], form="int", mode=k, length=L, **info)
                    bad = list(allv)
                    bad[k] = A_vec(L, k)
                    yield C("ttv", op, "length", r, [A_list(bad)], form="all", mode=k, length=L, **info)
                # the same mode twice, both multiplicands of the right length
                yield C("ttv", op, "mode_rep", r, [A_list([A_vec(s[k], 0), A_vec(s[k], 1)]), A_ints([k, k])],
                        form="list", mode=k, **info)
            if n >= 2:
                # a mode listed twice with another mode in between (not adjacent in the list)
                for i, j in itertools.permutations(range(n), 2):
                    yield C("ttv", op, "mode_rep", r,
                            [A_list([A_vec(s[i], 0), A_vec(s[j], 1), A_vec(s[i], 2)]), A_ints([i, j, i])],
                            form="list", modes=[i, j, i], **info)
                for i, j in itertools.permutations(range(n), 2):
                    yield C("ttv", op, "control", r, [A_list([A_vec(s[i], 0), A_vec(s[j], 1)]), A_ints([i, j])],
                            form="list", modes=[i, j], **info)
                yield C("ttv", op, "both_dims", r, [A_vec(s[0])], {"dims": 0, "exclude_dims": 1}, form="kw", **info)
                # the complementary designation: every mode except the excluded one(s); one multiplicand per remaining
                # mode or one per mode of the tensor
                for k in range(n):
                    rest = [allv[j] for j in range(n) if j != k]
                    for ex, fm in ((k, "int"), (A_ints([k]), "array")):
                        yield C("ttv", op, "control", r, [A_list(rest)], {"exclude_dims": ex}, form="excl:" + fm,
                                mode=k, **info)
                        yield C("ttv", op, "control", r, [A_list(allv)], {"exclude_dims": ex}, form="excl_all:" + fm,
                                mode=k, **info)
                for bad, var in ((n, "mode_oor"), (-1, "mode_neg"), (-2, "mode_neg")):
                    for ex, fm in ((bad, "int"), (A_ints([bad]), "array")):
                        yield C("ttv", op, var, r, [A_list(allv)], {"exclude_dims": ex}, form="excl_all:" + fm,
                                mode=bad, **info)
                        yield C("ttv", op, var, r, [A_list(allv[:-1])], {"exclude_dims": ex}, form="excl:" + fm,
                                mode=bad, **info)
            # out of range / negative position, the multiplicand fits the last mode
            yield C("ttv", op, "mode_oor", r, [A_vec(s[-1]), n], form="int", mode=n, **info)
            yield C("ttv", op, "mode_oor", r, [A_list([A_vec(s[-1])]), A_ints([n])], form="list", mode=n, **info)
            yield C("ttv", op, "mode_neg", r, [A_vec(s[-1]), -1], form="int", mode=-1, **info)
            yield C("ttv", op, "mode_neg", r, [A_list([A_vec(s[-1])]), A_ints([-1])], form="list", mode=-1, **info)
            if n >= 2:
                yield C("ttv", op, "mode_oor", r, [A_list([A_vec(s[0]), A_vec(s[-1])]), A_ints([0, n])],
                        form="list", mode=n, **info)
            # number of multiplicands neither len(dims) nor the order
            m = 2 if n != 2 else 3
            yield C("ttv", op, "count", r, [A_list([A_vec(s[0], j) for j in range(m)]), A_ints([0])],
                    form="list", m=m, **info)
            if n >= 2:
                yield C("ttv", op, "count", r, [A_list([A_vec(s[0])]), A_ints([0, 1])], form="list", m=1, **info)
            yield C("ttv", op, "count", r, [A_list(allv + [A_vec(s[-1])])], form="all", m=n + 1, **info)


TTM_HOLDERS = ("tensor", "sp_full", "sp_empty", "sp_emptied", "ttensor")


def g_ttm(tier, seed):
    for s in _shapes(tier):
        n = len(s)
        for hk in TTM_HOLDERS + (("ttensor_c1",) if tier == "thorough" else ()):
            op = cname(hk) + ".ttm"
            r = hd(hk, s, seed)
            info = dict(hk=hk, shape=list(s))
            for k in range(n):
                for tr in (False, True):
                    for (a, b) in itertools.product((0, 1, 2, 3, 4), repeat=2):
                        rel = a if tr else b
                        if (b if tr else a) == 0:
                            continue   # a result mode of extent 0: no inconsistency, outside this property
                        yield C("ttm", op, "control" if rel == s[k] else "size", r, [A_mat(a, b), k],
                                {"transpose": tr}, mode=k, mat=[a, b], transpose=tr, **info)
                sq = A_mat(s[k], s[k])
                yield C("ttm", op, "mode_rep", r, [A_list([sq, A_mat(s[k], s[k], 1)]), A_ints([k, k])],
                        mode=k, **info)
            for tr in (False, True):
                mats = [A_mat(2, s[k], k) if not tr else A_mat(s[k], 2, k) for k in range(n)]
                yield C("ttm", op, "control", r, [A_list(mats)], {"transpose": tr}, form="all", transpose=tr, **info)
                for k in range(n):
                    bad = list(mats)
                    bad[k] = A_mat(2, s[k] + 1, k) if not tr else A_mat(s[k] + 1, 2, k)
                    yield C("ttm", op, "size", r, [A_list(bad)], {"transpose": tr}, form="all", mode=k,
                            transpose=tr, **info)
            if n >= 2:
                for i, j in itertools.permutations(range(n), 2):
                    yield C("ttm", op, "mode_rep", r,
                            [A_list([A_mat(s[i], s[i]), A_mat(s[j], s[j], 1), A_mat(s[i], s[i], 2)]), A_ints([i, j, i])],
                            form="list", modes=[i, j, i], **info)
                for i, j in itertools.permutations(range(n), 2):
                    yield C("ttm", op, "control", r, [A_list([A_mat(2, s[i]), A_mat(3, s[j], 1)]), A_ints([i, j])],
                            form="list", modes=[i, j], **info)
                yield C("ttm", op, "both_dims", r, [A_mat(2, s[0])], {"dims": 0, "exclude_dims": 1}, form="kw", **info)
                allm = [A_mat(2, s[k], k) for k in range(n)]
                for k in range(n):
                    rest = [allm[j] for j in range(n) if j != k]
                    for ex, fm in ((k, "int"), (A_ints([k]), "array")):
                        yield C("ttm", op, "control", r, [A_list(rest)], {"exclude_dims": ex}, form="excl:" + fm,
                                mode=k, **info)
                        yield C("ttm", op, "control", r, [A_list(allm)], {"exclude_dims": ex}, form="excl_all:" + fm,
                                mode=k, **info)
                for bad, var in ((n, "mode_oor"), (-1, "mode_neg"), (-2, "mode_neg")):
                    for ex, fm in ((bad, "int"), (A_ints([bad]), "array")):
                        yield C("ttm", op, var, r, [A_list(allm)], {"exclude_dims": ex}, form="excl_all:" + fm,
                                mode=bad, **info)
                        yield C("ttm", op, var, r, [A_list(allm[:-1])], {"exclude_dims": ex}, form="excl:" + fm,
                                mode=bad, **info)
            yield C("ttm", op, "mode_oor", r, [A_mat(2, s[-1]), n], mode=n, **info)
            yield C("ttm", op, "mode_neg", r, [A_mat(2, s[-1]), -1], mode=-1, **info)
            yield C("ttm", op, "mode_oor", r, [A_list([A_mat(2, s[-1])]), A_ints([n])], form="list", mode=n, **info)
            yield C("ttm", op, "mode_neg", r, [A_list([A_mat(2, s[-1])]), A_ints([-1])], form="list", mode=-1, **info)
            m = 2 if n != 2 else 3
            yield C("ttm", op, "count", r, [A_list([A_mat(2, s[0], j) for j in range(m)]), A_ints([0])],
                    form="list", m=m, **info)
            if n >= 2:
                yield C("ttm", op, "count", r, [A_list([A_mat(2, s[0])]), A_ints([0, 1])], form="list", m=1, **info)


MTTKRP_HOLDERS = ("tensor", "sp_full", "sp_empty", "sp_emptied", "ktensor", "ttensor", "sumtensor")


def g_mttkrp(tier, seed):
    R = 2
    for s in _shapes_multi(tier):
        n = len(s)
        if n < 2:
            continue
        for hk in MTTKRP_HOLDERS + (("ttensor_c1",) if tier == "thorough" else ()):
            op = cname(hk) + ".mttkrp"
            r = hd(hk, s, seed)
            info = dict(hk=hk, shape=list(s))
            U = [A_mat(s[k], R, k) for k in range(n)]
            for k in range(n):
                yield C("mttkrp", op, "control", r, [A_list(U), k], mode=k, form="list", **info)
                yield C("mttkrp", op, "control", r, [A_h("ktensor", s, seed, 1), k], mode=k, form="ktensor", **info)
                yield C("mttkrp", op, "count", r, [A_list(U[:-1]), k], mode=k, m=n - 1, **info)
                yield C("mttkrp", op, "count", r, [A_list(U + [A_mat(2, R)]), k], mode=k, m=n + 1, **info)
                for i in range(n):
                    if i == k:
                        continue   # the factor of the skipped mode does not take part in the product
                    for rows in _wrong_lengths(s[i]):
                        bad = list(U)
                        bad[i] = A_mat(rows, R, i)
                        yield C("mttkrp", op, "rows", r, [A_list(bad), k], mode=k, pos=i, rows=rows, **info)
                    t = list(s)
                    t[i] += 1
                    yield C("mttkrp", op, "shape", r, [A_h("ktensor", t, seed, 1), k], mode=k, pos=i,
                            form="ktensor", **info)
                if n >= 3:
                    # two or more factors take part and their column counts must all agree: every assignment of
                    # column counts over {1, R, R+1} to the participating factors that is not constant (one or
                    # several deviating factors, at the first / an interior / the last position of the product)
                    part = [i for i in range(n) if i != k]
                    for cv in itertools.product((R, R + 1, 1), repeat=len(part)):
                        if len(set(cv)) == 1:
                            continue
                        bad = list(U)
                        for i, c in zip(part, cv):
                            bad[i] = A_mat(s[i], c, i)
                        yield C("mttkrp", op, "cols", r, [A_list(bad), k], mode=k, cols=list(cv), **info)
            yield C("mttkrp", op, "mode_oor", r, [A_list(U), n], mode=n, **info)
            yield C("mttkrp", op, "mode_neg", r, [A_list(U), -1], mode=-1, **info)


def g_ttt(tier, seed):
    """dense tensor times tensor: the contracted modes must have equal sizes"""
    shapes = space.shapes(3, 3, 12)
    for s in shapes:
        for t in shapes:
            if prod(s) * prod(t) > (64 if tier == "thorough" else 36):
                continue
            r = hd("tensor", s, seed)
            o = A_h("tensor", t, seed, 1)
            info = dict(shape=list(s), shape2=list(t))
            yield C("ttt", "tensor.ttt", "control", r, [o], **info)
            for i in range(len(s)):
                for j in range(len(t)):
                    yield C("ttt", "tensor.ttt", "control" if s[i] == t[j] else "size", r, [o, i, j],
                            selfdims=[i], otherdims=[j], **info)
            for a in itertools.permutations(range(len(s)), 2):
                for b in itertools.permutations(range(len(t)), 2):
                    ok = all(s[i] == t[j] for i, j in zip(a, b))
                    yield C("ttt", "tensor.ttt", "control" if ok else "size", r, [o, A_ints(a), A_ints(b)],
                            selfdims=list(a), otherdims=list(b), **info)
            # contraction lists of different lengths pair nothing with something: ill-formed whatever the sizes
            # (in particular when the unpaired mode is a singleton and broadcasting would let it through)
            for a in itertools.permutations(range(len(s)), 2):
                for j in range(len(t)):
                    yield C("ttt", "tensor.ttt", "count", r, [o, A_ints(a), A_ints([j])], selfdims=list(a),
                            otherdims=[j], **info)
            for b in itertools.permutations(range(len(t)), 2):
                for i in range(len(s)):
                    yield C("ttt", "tensor.ttt", "count", r, [o, A_ints([i]), A_ints(b)], selfdims=[i],
                            otherdims=list(b), **info)
            if s[-1] == t[-1]:
                yield C("ttt", "tensor.ttt", "mode_neg", r, [o, -1, -1], selfdims=[-1], otherdims=[-1], **info)
                yield C("ttt", "tensor.ttt", "mode_neg", r, [o, A_ints([-1]), A_ints([-1])], selfdims=[-1],
                        otherdims=[-1], form="array", **info)
            yield C("ttt", "tensor.ttt", "mode_oor", r, [o, len(s), 0], selfdims=[len(s)], otherdims=[0], **info)
            yield C("ttt", "tensor.ttt", "mode_oor", r, [o, 0, len(t)], selfdims=[0], otherdims=[len(t)], **info)
            if s[0] == t[0]:
                yield C("ttt", "tensor.ttt", "mode_rep", r, [o, A_ints([0, 0]), A_ints([0, 0])], selfdims=[0, 0],
                        otherdims=[0, 0], **info)
                yield C("ttt", "tensor.ttt", "count", r, [o, A_ints([0]), A_ints([0, 0])], selfdims=[0],
                        otherdims=[0, 0], **info)


def g_modes(tier, seed):
    """scale / collapse / contract / nvecs / permute / reshape / matricization / element reads"""
    thorough = tier == "thorough"
    targets = space.shapes(3, 4, 16)
    for s in _shapes(tier):
        n = len(s)
        info = dict(shape=list(s))
        # ---- scale
        for hk in ("tensor", "sp_full", "sp_one", "sp_empty"):
            op, r = cname(hk) + ".scale", hd(hk, s, seed)
            for k in range(n):
                yield C("modes", op, "control", r, [A_vec(s[k]), k], hk=hk, mode=k, **info)
                yield C("modes", op, "control", r, [A_h("tensor", (s[k],), seed, 1), A_ints([k])], hk=hk, mode=k,
                        factor="tensor", **info)
                for L in _wrong_lengths(s[k]):
                    yield C("modes", op, "length", r, [A_vec(L), k], hk=hk, mode=k, length=L, **info)
                    yield C("modes", op, "length", r, [A_h("tensor", (L,), seed, 1), A_ints([k])], hk=hk, mode=k,
                            length=L, factor="tensor", **info)
            yield C("modes", op, "mode_oor", r, [A_vec(s[-1]), n], hk=hk, mode=n, **info)
            yield C("modes", op, "mode_neg", r, [A_vec(s[-1]), -1], hk=hk, mode=-1, **info)
            pairs = list(itertools.permutations(range(n), 2)) if thorough else [(0, 1)] if n >= 2 else []
            for i, j in pairs:
                if i > j:
                    continue
                yield C("modes", op, "control", r, [A_h("tensor", (s[i], s[j]), seed, 1), A_ints([i, j])], hk=hk,
                        modes=[i, j], factor="tensor", **info)
                for k, t in mismatches((s[i], s[j])):
                    yield C("modes", op, "shape", r, [A_h("tensor", t, seed, 1), A_ints([i, j])], hk=hk,
                            modes=[i, j], factor="tensor", shape2=list(t), mk=k, **info)
                if hk != "tensor":
                    yield C("modes", op, "control", r, [A_h("sp_full", (s[i], s[j]), seed, 1), A_ints([i, j])],
                            hk=hk, modes=[i, j], factor="sptensor", **info)
                    for k, t in mismatches((s[i], s[j])):
                        yield C("modes", op, "shape", r, [A_h("sp_full", t, seed, 1), A_ints([i, j])], hk=hk,
                                modes=[i, j], factor="sptensor", shape2=list(t), mk=k, **info)
            for k in range(n):
                yield C("modes", op, "mode_rep", r, [A_h("tensor", (s[k], s[k]), seed, 1), A_ints([k, k])], hk=hk,
                        mode=k, factor="tensor", **info)
        # ---- collapse
        for hk in ("tensor", "sp_full", "sp_one", "sp_empty"):
            op, r = cname(hk) + ".collapse", hd(hk, s, seed)
            yield C("modes", op, "control", r, [], hk=hk, **info)
            for sel in space.subsets(range(n), 1):
                yield C("modes", op, "control", r, [A_ints(sel)], hk=hk, modes=list(sel), **info)
            for k in range(n):
                yield C("modes", op, "mode_rep", r, [A_ints([k, k])], hk=hk, modes=[k, k], **info)
            yield C("modes", op, "mode_oor", r, [A_ints([n])], hk=hk, modes=[n], **info)
            yield C("modes", op, "mode_neg", r, [A_ints([-1])], hk=hk, modes=[-1], **info)
            if n >= 2:
                yield C("modes", op, "mode_oor", r, [A_ints([0, n])], hk=hk, modes=[0, n], **info)
                yield C("modes", op, "mode_neg", r, [A_ints([-1, 0])], hk=hk, modes=[-1, 0], **info)
        # ---- contract
        if n >= 2:
            for hk in ("tensor", "sp_full", "sp_one", "sp_empty"):
                op, r = cname(hk) + ".contract", hd(hk, s, seed)
                for i in range(n):
                    for j in range(n):
                        var = "mode_rep" if i == j else ("control" if s[i] == s[j] else "size")
                        yield C("modes", op, var, r, [i, j], hk=hk, modes=[i, j], **info)
                    yield C("modes", op, "mode_oor", r, [i, n], hk=hk, modes=[i, n], **info)
                    yield C("modes", op, "mode_oor", r, [n, i], hk=hk, modes=[n, i], **info)
                    yield C("modes", op, "mode_neg", r, [i, -1], hk=hk, modes=[i, -1], **info)
                    yield C("modes", op, "mode_neg", r, [-1, i], hk=hk, modes=[-1, i], **info)
        # ---- nvecs
        for hk in ("tensor", "sp_full", "ktensor", "ttensor"):
            if hk == "sp_full" and all(x == 1 for x in s):
                continue   # documented: rejected for all-singleton sparse tensors
            op, r = cname(hk) + ".nvecs", hd(hk, s, seed)
            for k in range(n):
                for rr in range(1, s[k] + 1):
                    yield C("modes", op, "control", r, [k, rr], hk=hk, mode=k, r=rr, **info)
            yield C("modes", op, "mode_oor", r, [n, 1], hk=hk, mode=n, r=1, **info)
            yield C("modes", op, "mode_neg", r, [-1, 1], hk=hk, mode=-1, r=1, **info)
        # ---- permute
        alphabet = list(range(-1, n + 1))
        seqs = [list(q) for q in itertools.product(alphabet, repeat=n)]
        seqs += [list(q) for q in itertools.permutations(range(n), n - 1)] if n >= 2 else []
        seqs += [list(q) + [x] for q in itertools.permutations(range(n)) for x in range(n + 1)]
        for hk in ("tensor", "sp_full", "sp_empty", "ktensor", "ttensor"):
            op, r = cname(hk) + ".permute", hd(hk, s, seed)
            for q in seqs:
                if len(q) == n and sorted(q) == list(range(n)):
                    var = "control"
                elif len(q) != n:
                    var = "length"
                else:
                    var = mode_seq_kind(q, n)
                yield C("modes", op, var, r, [A_ints(q)], hk=hk, order=q, **info)
        # ---- reshape
        for hk in ("tensor", "sp_full", "sp_empty"):
            op, r = cname(hk) + ".reshape", hd(hk, s, seed)
            for t in targets:
                yield C("modes", op, "control" if prod(t) == prod(s) else "count", r, [A_py(list(t))],
                        hk=hk, target=list(t), **info)
        # ---- matricization
        maxtot = n + 1 if thorough else n
        seqs_r = [list(q) for L in range(0, n + 2) for q in itertools.product(range(n), repeat=L)]
        pairs = [(list(a), list(b)) for la in range(0, n + 1) for lb in range(0, n + 1) if la + lb <= maxtot
                 for a in itertools.product(range(n), repeat=la) for b in itertools.product(range(n), repeat=lb)]
        special = []
        for bad in (-1, n):
            special.append(([bad], None))
            special.append((None, [bad]))
            if n >= 2:
                special.append(([0, bad], None))
            rest = list(range(1, n))
            special.append(([bad], rest))
            special.append((rest, [bad]))
            special.append(([bad] + rest, []))
        for hk, meth in (("tensor", "to_tenmat"), ("sp_full", "to_sptenmat"), ("sp_empty", "to_sptenmat"),
                         ("ktensor", "to_tenmat")):
            op, r = cname(hk) + "." + meth, hd(hk, s, seed)

            def mat_case(rd, cd):
                both = (rd or []) + (cd or [])
                var = mode_seq_kind(both, n)
                if var is None and rd is not None and cd is not None and sorted(both) != list(range(n)):
                    var = "missing"
                kw = {}
                if rd is not None:
                    kw["rdims"] = A_ints(rd)
                if cd is not None:
                    kw["cdims"] = A_ints(cd)
                return C("modes", op, var or "control", r, [], kw, hk=hk, rdims=rd, cdims=cd, **info)

            yield C("modes", op, "missing", r, [], {}, hk=hk, rdims=None, cdims=None, **info)
            for q in seqs_r:
                yield mat_case(q, None)
                if len(q) <= n:
                    yield mat_case(None, q)
            for a, b in pairs:
                yield mat_case(a, b)
            for rd, cd in special:
                yield mat_case(rd, cd)
        # ---- element reads
        cells = space.cells(s)
        for hk in ("sp_full", "sp_one", "sp_empty"):
            r = hd(hk, s, seed)
            yield C("modes", "sptensor.extract", "control", r, [{"ints": [x for c in cells for x in c],
                                                               "shape": [len(cells), n]}], hk=hk, **info)
            for k in range(n):
                for bad, var in ((s[k], "sub_oor"), (-1, "sub_neg")):
                    sub = [0] * n
                    sub[k] = bad
                    rows = [list(cells[-1]), sub]
                    yield C("modes", "sptensor.extract", var, r, [{"ints": [x for c in rows for x in c],
                                                                 "shape": [2, n]}], hk=hk, mode=k, **info)
    # Kruskal component selection
    for s in _shapes(tier):
        r = hd("ktensor", s, seed)
        for idx, var in (([0], "control"), ([1, 0], "control"), ([2], "comp_oor"), ([-1], "comp_neg"),
                         ([0, 1, 0], "count"), ([0, 2], "comp_oor")):
            yield C("modes", "ktensor.extract", var, r, [A_py(idx)], hk="ktensor", shape=list(s), idx=idx)


def g_ctor(tier, seed):
    shapes = _shapes(tier)
    # dense: data size against shape.  The length domain starts at 0 (no data at all) and the shape domain at the
    # empty shape (), whose only consistent content is no data ("Empty tensor cannot contain any elements"); both
    # storage options (copied / referenced data)
    for s in [()] + shapes:
        p = prod(s) if len(s) else 0
        for L in range(0, 17):
            for cp in (True, False):
                yield C("ctor", "ttb.tensor", "control" if L == p else "size", None, [A_vec(L), A_py(list(s))],
                        {"copy": cp}, shape=list(s), length=L, copy=cp)
        for k, t in mismatches(s):
            if prod(t) != p:
                yield C("ctor", "ttb.tensor", "size", None, [{"h_data": list(t)}, A_py(list(s))], shape=list(s),
                        shape2=list(t), mk=k)
        # multi-way data arrays without elements: one mode of the requested shape at extent 0
        for k in range(len(s)):
            t = list(s)
            t[k] = 0
            for cp in (True, False):
                yield C("ctor", "ttb.tensor", "size", None, [{"empty": t}, A_py(list(s))], {"copy": cp},
                        shape=list(s), shape2=t, mk="to0", copy=cp)
    # sparse: coordinate list against shape
    for s in shapes:
        n = len(s)
        cells = space.cells(s)
        base = [list(cells[0]), list(cells[-1])] if len(cells) > 1 else [list(cells[0])]
        k = len(base)

        def subs_arg(rows, cols):
            return {"ints": [x for r_ in rows for x in r_], "shape": [len(rows), cols]}

        def vals_arg(m):
            return {"floats": [float(3 + 2 * i) for i in range(m)], "shape": [m, 1]}

        for op in ("ttb.sptensor", "sptensor.from_aggregator"):
            info = dict(shape=list(s))
            yield C("ctor", op, "control", None, [subs_arg(base, n), vals_arg(k), A_py(list(s))], **info)
            for j in range(n):
                for bad, var in ((s[j], "sub_oor"), (-1, "sub_neg")):
                    rows = [list(r_) for r_ in base]
                    rows[-1][j] = bad
                    yield C("ctor", op, var, None, [subs_arg(rows, n), vals_arg(k), A_py(list(s))], mode=j, **info)
            wide = [r_ + [0] for r_ in base]
            yield C("ctor", op, "cols", None, [subs_arg(wide, n + 1), vals_arg(k), A_py(list(s))], cols=n + 1, **info)
            if n >= 2:
                narrow = [r_[:-1] for r_ in base]
                yield C("ctor", op, "cols", None, [subs_arg(narrow, n - 1), vals_arg(k), A_py(list(s))],
                        cols=n - 1, **info)
            for m in sorted({k + 1, k - 1, 0}):   # one more / one less / no values at all
                yield C("ctor", op, "count", None, [subs_arg(base, n), vals_arg(m), A_py(list(s))], nvals=m,
                        nsubs=k, **info)
            # no coordinates at all: consistent with no values only
            yield C("ctor", op, "control", None, [subs_arg([], n), vals_arg(0), A_py(list(s))], nvals=0, nsubs=0, **info)
            yield C("ctor", op, "count", None, [subs_arg([], n), vals_arg(k), A_py(list(s))], nvals=k, nsubs=0, **info)
            if op == "ttb.sptensor":
                yield C("ctor", op, "one_missing", None, [subs_arg(base, n), None, A_py(list(s))], **info)
                yield C("ctor", op, "one_missing", None, [None, vals_arg(k), A_py(list(s))], **info)
    # Kruskal
    for s in shapes:
        n = len(s)
        R = 2
        fm = [A_mat(s[i], R, i) for i in range(n)]
        info = dict(shape=list(s))
        yield C("ctor", "ttb.ktensor", "control", None, [A_list(fm)], **info)
        yield C("ctor", "ttb.ktensor", "control", None, [A_list(fm), A_vec(R)], **info)
        for i in range(n):
            if n == 1:
                break
            for cols in (R + 1, 1):
                bad = list(fm)
                bad[i] = A_mat(s[i], cols, i)
                yield C("ctor", "ttb.ktensor", "cols", None, [A_list(bad)], pos=i, cols=cols, **info)
                yield C("ctor", "ttb.ktensor", "cols", None, [A_list(bad), A_vec(R)], pos=i, cols=cols, **info)
        for L in (0, R + 1, 1, 2 * R):
            yield C("ctor", "ttb.ktensor", "count", None, [A_list(fm), A_vec(L)], nweights=L, **info)
        yield C("ctor", "ttb.ktensor", "one_missing", None, [None, A_vec(R)], **info)
        tot = sum(s)
        for cw in (False, True):
            unit = tot + (1 if cw else 0)
            for L in range(1, 2 * unit + 2):
                yield C("ctor", "ktensor.from_vector", "control" if L % unit == 0 else "length", None,
                        [A_vec(L), A_py(list(s)), cw], length=L, contains_weights=cw, **info)
    # Tucker
    for s in shapes:
        n = len(s)
        cs = [2] * n
        fm = [A_mat(s[i], cs[i], i) for i in range(n)]
        info = dict(shape=list(s))
        core = A_h("tensor", cs, seed)
        yield C("ctor", "ttb.ttensor", "control", None, [core, A_list(fm)], **info)
        yield C("ctor", "ttb.ttensor", "control", None, [A_h("sp_full", cs, seed), A_list(fm)], **info)
        yield C("ctor", "ttb.ttensor", "count", None, [core, A_list(fm + [A_mat(2, 2)])], nfactors=n + 1, **info)
        if n >= 2:
            yield C("ctor", "ttb.ttensor", "count", None, [core, A_list(fm[:-1])], nfactors=n - 1, **info)
        for i in range(n):
            for cols in (3, 1):
                bad = list(fm)
                bad[i] = A_mat(s[i], cols, i)
                yield C("ctor", "ttb.ttensor", "cols", None, [core, A_list(bad)], pos=i, cols=cols, **info)
                yield C("ctor", "ttb.ttensor", "cols", None, [A_h("sp_full", cs, seed), A_list(bad)], pos=i,
                        cols=cols, core="sparse", **info)
        yield C("ctor", "ttb.ttensor", "one_missing", None, [core, None], **info)
        yield C("ctor", "ttb.ttensor", "one_missing", None, [None, A_list(fm)], **info)
    # matricized dense / sparse
    for s in shapes:
        n = len(s)
        p = prod(s)
        info = dict(shape=list(s))
        for rd in space.subsets(range(n)):
            cdl = [i for i in range(n) if i not in rd]
            for rdo in ([list(rd)] if len(rd) < 2 else [list(rd), list(reversed(rd))]):
                pr = prod(s[i] for i in rdo)
                pc = prod(s[i] for i in cdl)
                for a in range(1, p + 1):
                    if p % a:
                        continue
                    b = p // a
                    yield C("ctor", "ttb.tenmat", "control" if (a, b) == (pr, pc) else "rows_cols", None,
                            [{"arr": [a, b]}, A_ints(rdo), A_ints(cdl), A_py(list(s))], rdims=rdo, cdims=cdl,
                            mat=[a, b], **info)
                yield C("ctor", "ttb.tenmat", "size", None, [{"arr": [pr, pc + 1]}, A_ints(rdo), A_ints(cdl),
                                                               A_py(list(s))], rdims=rdo, cdims=cdl,
                        mat=[pr, pc + 1], **info)
                yield C("ctor", "ttb.tenmat", "size", None, [{"arr": [pr + 1, pc]}, A_ints(rdo), A_ints(cdl),
                                                               A_py(list(s))], rdims=rdo, cdims=cdl,
                        mat=[pr + 1, pc], **info)
                # sparse matricized: one stored entry at (i, j)
                for (i, j, var) in ((pr - 1, pc - 1, "control"), (pr, 0, "sub_oor"), (0, pc, "sub_oor"),
                                    (pr + 1, 0, "sub_oor"), (0, pc + 1, "sub_oor"), (-1, 0, "sub_neg"),
                                    (0, -1, "sub_neg")):
                    yield C("ctor", "ttb.sptenmat", var, None,
                            [{"ints": [i, j], "shape": [1, 2]}, {"floats": [5.0], "shape": [1, 1]}, A_ints(rdo),
                             A_ints(cdl), {"tuple": list(s)}], rdims=rdo, cdims=cdl, sub=[i, j], **info)
                yield C("ctor", "ttb.sptenmat", "count", None,
                        [{"ints": [0, 0], "shape": [1, 2]}, {"floats": [5.0, 7.0], "shape": [2, 1]}, A_ints(rdo),
                         A_ints(cdl), {"tuple": list(s)}], rdims=rdo, cdims=cdl, **info)
                # a subscript outside the matrix is outside whatever value it carries: an exact zero, or a pair of
                # entries that cancel, next to a valid entry
                for (i, j, var) in ((pr, 0, "sub_oor"), (0, pc, "sub_oor"), (-1, 0, "sub_neg")):
                    yield C("ctor", "ttb.sptenmat", var, None,
                            [{"ints": [0, 0, i, j], "shape": [2, 2]}, {"floats": [5.0, 0.0], "shape": [2, 1]}, A_ints(rdo),
                             A_ints(cdl), {"tuple": list(s)}], rdims=rdo, cdims=cdl, sub=[i, j], value="zero", **info)
                    yield C("ctor", "ttb.sptenmat", var, None,
                            [{"ints": [i, j, 0, 0, i, j], "shape": [3, 2]}, {"floats": [2.5, 5.0, -2.5], "shape": [3, 1]},
                             A_ints(rdo), A_ints(cdl), {"tuple": list(s)}], rdims=rdo, cdims=cdl, sub=[i, j],
                            value="cancelling", **info)
                for (a, b, var) in ((pr, pc, "control"), (pr + 1, pc, "size"), (pr, pc + 1, "size")):
                    yield C("ctor", "sptenmat.from_array", var, None,
                            [{"arr": [a, b]}, A_ints(rdo), A_ints(cdl), {"tuple": list(s)}], rdims=rdo, cdims=cdl,
                            mat=[a, b], **info)
        # invalid mode partitions (data of the right size)
        bads = [([0, 0], list(range(1, n)), "mode_rep"), ([n], list(range(n)), "mode_oor"),
                ([-1], list(range(n - 1)), "mode_neg")]
        if n >= 2:
            bads += [([0], list(range(2, n)), "missing"), (list(range(n)), [0], "mode_rep")]
        for rd, cd, var in bads:
            yield C("ctor", "ttb.tenmat", var, None, [{"arr": [1, p]}, A_ints(rd), A_ints(cd), A_py(list(s))],
                    rdims=rd, cdims=cd, mat=[1, p], **info)
            yield C("ctor", "ttb.sptenmat", var, None,
                    [{"ints": [0, 0], "shape": [1, 2]}, {"floats": [5.0], "shape": [1, 1]}, A_ints(rd), A_ints(cd),
                     {"tuple": list(s)}], rdims=rd, cdims=cd, **info)
    # Khatri-Rao: column counts
    for m in (2, 3):
        for rows in itertools.product((1, 2, 3), repeat=m):
            if prod(rows) > 12:
                continue
            for rev in (False, True):
                mats = [A_mat(rows[i], 2, i) for i in range(m)]
                yield C("ctor", "ttb.khatrirao", "control", None, mats, {"reverse": rev}, rows=list(rows))
                for i in range(m):
                    for cols in (3, 1, 4):
                        bad = list(mats)
                        bad[i] = A_mat(rows[i], cols, i)
                        yield C("ctor", "ttb.khatrirao", "cols", None, bad, {"reverse": rev}, rows=list(rows),
                                pos=i, cols=cols)
                    bad = list(mats)
                    bad[i] = A_vec(rows[i])
                    yield C("ctor", "ttb.khatrirao", "not_matrix", None, bad, {"reverse": rev}, rows=list(rows), pos=i)


def _tns(kind, s, body):
    return f"{kind}\n{len(s)}\n{' '.join(str(x) for x in s)}\n{body}"


def g_algo(tier, seed):
    shapes = [s for s in space.shapes(3, 3, 12) if len(s) >= 2 and prod(s) >= 4]
    # one 4-way shape in every tier: tucker_als never reads the guess of the first processed mode, so the guesses that
    # are checked have a first / interior / last position only from order 4 on
    shapes = shapes + [(2, 2, 2, 2)] + ([(3, 2, 1, 2)] if tier == "thorough" else [])
    for s in shapes:
        n = len(s)
        # rank 2 needs every mode >= 2 (else the normal equations of the valid control calls are singular)
        R = 2 if min(s) >= 2 else 1
        info = dict(shape=list(s), rank=R)
        kgood = {"h": dict(hd("ktensor", s, seed, 1), rank=R, weights=[2.0, -1.0][:R])}
        kw0 = {"printitn": 0, "maxiters": 1}
        nonperms = [([0] * n, "perm_rep"), (list(range(n - 1)), "perm_short"), (list(range(1, n + 1)), "perm_oor"),
                    (list(range(n)) + [0], "perm_long"), ([-1] + list(range(1, n)), "perm_neg")]
        # ---- cp_als
        for dk in ("tensor", "sp_full"):
            data = A_h(dk, s, seed)
            yield C("algo", "ttb.cp_als", "control", None, [data, R], dict(kw0, init=kgood), dk=dk, **info)
            yield C("algo", "ttb.cp_als", "control", None, [data, R], dict(kw0, init="random"), dk=dk, **info)
            for p in itertools.permutations(range(n)):
                yield C("algo", "ttb.cp_als", "control", None, [data, R], dict(kw0, init=kgood, dimorder=A_py(list(p))),
                        dk=dk, dimorder=list(p), **info)
            for q, var in nonperms:
                yield C("algo", "ttb.cp_als", var, None, [data, R], dict(kw0, init=kgood, dimorder=A_py(q)),
                        dk=dk, dimorder=q, **info)
            for var, init in _bad_guesses(s, R, seed):
                yield C("algo", "ttb.cp_als", var, None, [data, R], dict(kw0, init=init), dk=dk, **info)
            yield C("algo", "ttb.cp_als", "init_unknown", None, [data, R], dict(kw0, init="foo"), dk=dk, **info)
            for sel in space.subsets(range(n), 1):
                yield C("algo", "ttb.cp_als", "control", None, [data, R], dict(kw0, init=kgood, optdims=A_py(list(sel))),
                        dk=dk, optdims=list(sel), **info)
            # (optdims is documented as "whether the factor of the corresponding mode is optimized": entries
            #  outside range(ndims) are silently ignored; not a stated precondition, not asserted)
        # ---- cp_apr (non-negative data: absolute values of the dense holder)
        for alg in ("mu", "pdnr"):
            data = {"h_abs": list(s)}
            kpos = {"k_pos": list(s), "rank": R}
            kwa = {"printitn": 0, "maxiters": 1, "algorithm": alg}
            yield C("algo", "ttb.cp_apr", "control", None, [data, R], dict(kwa, init=kpos), alg=alg, **info)
            for var, init in _bad_guesses(s, R, seed, positive=True):
                yield C("algo", "ttb.cp_apr", var, None, [data, R], dict(kwa, init=init), alg=alg, **info)
            yield C("algo", "ttb.cp_apr", "init_unknown", None, [data, R], dict(kwa, init="foo"), alg=alg, **info)
        yield C("algo", "ttb.cp_apr", "alg_unknown", None, [{"h_abs": list(s)}, R],
                {"printitn": 0, "maxiters": 1, "algorithm": "foo", "init": {"k_pos": list(s), "rank": R}}, **info)
        # ---- hosvd
        data = A_h("tensor", s, seed)
        kwh = {"verbosity": 0}
        ranks = [min(2, x) for x in s]
        yield C("algo", "ttb.hosvd", "control", None, [data, 0.1], dict(kwh), **info)
        yield C("algo", "ttb.hosvd", "control", None, [data, 0.1], dict(kwh, ranks=A_py(ranks)), ranks=ranks, **info)
        for p in itertools.permutations(range(n)):
            yield C("algo", "ttb.hosvd", "control", None, [data, 0.1], dict(kwh, dimorder=A_py(list(p))),
                    dimorder=list(p), **info)
        for q, var in nonperms:
            yield C("algo", "ttb.hosvd", var, None, [data, 0.1], dict(kwh, dimorder=A_py(q)), dimorder=q, **info)
        yield C("algo", "ttb.hosvd", "ranks_length", None, [data, 0.1], dict(kwh, ranks=A_py(ranks[:-1])),
                ranks=ranks[:-1], **info)
        yield C("algo", "ttb.hosvd", "ranks_length", None, [data, 0.1], dict(kwh, ranks=A_py(ranks + [1])),
                ranks=ranks + [1], **info)
        for k in range(n):
            rk = list(ranks)
            rk[k] = s[k] + 1
            yield C("algo", "ttb.hosvd", "rank_above_size", None, [data, 0.1], dict(kwh, ranks=A_py(rk)), ranks=rk,
                    mode=k, **info)
        # option lattice: every rank vector over {1, size, size+1} per mode x every processing order x both
        # truncation schemes (ranks are per MODE, whatever the order in which the modes are processed)
        for rk in _rank_vectors(s):
            var = "control" if all(a <= b for a, b in zip(rk, s)) else "rank_above_size"
            for p in itertools.permutations(range(n)):
                for sq in (True, False):
                    yield C("algo", "ttb.hosvd", var, None, [data, 0.1],
                            dict(kwh, ranks=A_py(rk), dimorder=A_py(list(p)), sequential=sq), ranks=rk,
                            dimorder=list(p), sequential=sq, **info)
        # ---- tucker_als
        kwt = {"printitn": 0, "maxiters": 1}
        guess = [A_mat(s[i], ranks[i], i) for i in range(n)]
        yield C("algo", "ttb.tucker_als", "control", None, [data, A_py(ranks)], dict(kwt, init=A_list(guess)),
                ranks=ranks, **info)
        yield C("algo", "ttb.tucker_als", "control", None, [data, 1], dict(kwt), ranks=[1], **info)
        for p in itertools.permutations(range(n)):
            yield C("algo", "ttb.tucker_als", "control", None, [data, A_py(ranks)],
                    dict(kwt, init=A_list(guess), dimorder=A_py(list(p))), ranks=ranks, dimorder=list(p), **info)
        for q, var in nonperms:
            yield C("algo", "ttb.tucker_als", var, None, [data, A_py(ranks)],
                    dict(kwt, init=A_list(guess), dimorder=A_py(q)), ranks=ranks, dimorder=q, **info)
        if n > 2:
            yield C("algo", "ttb.tucker_als", "ranks_length", None, [data, A_py(ranks[:-1])], dict(kwt),
                    ranks=ranks[:-1], **info)
        yield C("algo", "ttb.tucker_als", "ranks_length", None, [data, A_py(ranks + [1])], dict(kwt),
                ranks=ranks + [1], **info)
        for k in range(n):
            rk = list(ranks)
            rk[k] = s[k] + 1
            yield C("algo", "ttb.tucker_als", "rank_above_size", None, [data, A_py(rk)], dict(kwt), ranks=rk,
                    mode=k, **info)
            for p in ([list(range(n))] + ([list(reversed(range(n)))] if n > 1 else [])):
                if p[0] == k:
                    # the factor of the first mode of dimorder is never read (it is solved for first; the
                    # upstream tests pass None there), so its shape is not a precondition
                    continue
                for (rows, cols, var) in ((s[k] + 1, ranks[k], "init_shape"), (s[k], ranks[k] + 1, "init_rank")):
                    bad = list(guess)
                    bad[k] = A_mat(rows, cols, k)
                    yield C("algo", "ttb.tucker_als", var, None, [data, A_py(ranks)],
                            dict(kwt, init=A_list(bad), dimorder=A_py(p)), ranks=ranks, pos=k, dimorder=p, **info)
        # the same rank-vector x processing-order lattice (default random guess)
        for rk in _rank_vectors(s):
            var = "control" if all(a <= b for a, b in zip(rk, s)) else "rank_above_size"
            for p in itertools.permutations(range(n)):
                yield C("algo", "ttb.tucker_als", var, None, [data, A_py(rk)], dict(kwt, dimorder=A_py(list(p))),
                        ranks=rk, dimorder=list(p), **info)
        yield C("algo", "ttb.tucker_als", "init_length", None, [data, A_py(ranks)], dict(kwt, init=A_list(guess[:-1])),
                ranks=ranks, **info)
        yield C("algo", "ttb.tucker_als", "init_length", None, [data, A_py(ranks)],
                dict(kwt, init=A_list(guess + [A_mat(2, 1)])), ranks=ranks, **info)
        yield C("algo", "ttb.tucker_als", "init_unknown", None, [data, A_py(ranks)], dict(kwt, init="foo"),
                ranks=ranks, **info)
        # ---- gcp_opt
        kwg = {"printitn": 0}
        gauss, lb, sgd = {"obj": "GAUSSIAN"}, {"obj": "LBFGSB"}, {"obj": "SGD"}
        sp = A_h("sp_one", s, seed)
        yield C("algo", "ttb.gcp_opt", "control", None, [data, R, gauss, lb], dict(kwg, init=kgood), **info)
        yield C("algo", "ttb.gcp_opt", "control", None, [data, R, {"obj": "gauss_triple"}, lb], dict(kwg, init=kgood),
                **info)
        yield C("algo", "ttb.gcp_opt", "control", None, [data, R, gauss, lb],
                dict(kwg, init=kgood, mask=A_h("tensor", s, seed, 2)), **info)
        if prod(s) >= 8:   # the stochastic samplers need room to draw zeros (C13's business on tiny tensors)
            yield C("algo", "ttb.gcp_opt", "control", None, [sp, R, gauss, sgd], dict(kwg, init=kgood), **info)
        yield C("algo", "ttb.gcp_opt", "data_type", None, [{"h_data": list(s)}, R, gauss, lb], dict(kwg, init=kgood),
                **info)
        yield C("algo", "ttb.gcp_opt", "sparse_lbfgsb", None, [sp, R, gauss, lb], dict(kwg, init=kgood), **info)
        yield C("algo", "ttb.gcp_opt", "mask_stochastic", None, [data, R, gauss, sgd],
                dict(kwg, init=kgood, mask=A_h("tensor", s, seed, 2)), **info)
        yield C("algo", "ttb.gcp_opt", "mask_sparse", None, [sp, R, gauss, sgd],
                dict(kwg, init=kgood, mask=A_h("tensor", s, seed, 2)), **info)
        yield C("algo", "ttb.gcp_opt", "objective_tuple", None, [data, R, {"obj": "gauss_pair"}, lb],
                dict(kwg, init=kgood), **info)
        yield C("algo", "ttb.gcp_opt", "optimizer_type", None, [data, R, gauss, None], dict(kwg, init=kgood), **info)
        yield C("algo", "ttb.gcp_opt", "init_unknown", None, [data, R, gauss, lb], dict(kwg, init="foo"), **info)
        for var, init in _bad_guesses(s, R, seed):
            yield C("algo", "ttb.gcp_opt", var, None, [data, R, gauss, lb], dict(kwg, init=init), **info)
    # ---- import_data
    yield C("algo", "ttb.import_data", "no_file", None, [{"nofile": 1}])
    for s in [x for x in space.shapes(3, 3, 8)]:
        n = len(s)
        p = prod(s)
        info = dict(shape=list(s))
        vals = "\n".join(f"{float(i + 1):.1f}" for i in range(p)) + "\n"
        yield C("algo", "ttb.import_data", "control", None, [{"file": _tns("tensor", s, vals)}], kind="tensor", **info)
        yield C("algo", "ttb.import_data", "type_unknown", None, [{"file": _tns("tensr", s, vals)}], **info)
        yield C("algo", "ttb.import_data", "header_ndims", None,
                [{"file": f"tensor\n{n + 1}\n{' '.join(map(str, s))}\n{vals}"}], kind="tensor", **info)
        short = "\n".join(f"{float(i + 1):.1f}" for i in range(p - 1)) + "\n"
        if p > 1:
            yield C("algo", "ttb.import_data", "size", None, [{"file": _tns("tensor", s, short)}], kind="tensor",
                    **info)
        last = " ".join(str(x) for x in s)           # 1-based subscript of the last cell
        yield C("algo", "ttb.import_data", "control", None,
                [{"file": _tns("sptensor", s, f"1\n{last} 2.5\n")}], kind="sptensor", **info)
        for k in range(n):
            sub = list(s)
            sub[k] += 1
            yield C("algo", "ttb.import_data", "sub_oor", None,
                    [{"file": _tns("sptensor", s, f"1\n{' '.join(map(str, sub))} 2.5\n")}], kind="sptensor", mode=k,
                    **info)
            sub[k] = 0   # below the index base
            yield C("algo", "ttb.import_data", "sub_neg", None,
                    [{"file": _tns("sptensor", s, f"1\n{' '.join(map(str, sub))} 2.5\n")}], kind="sptensor", mode=k,
                    **info)
        yield C("algo", "ttb.import_data", "header_ndims", None,
                [{"file": f"sptensor\n{n + 1}\n{' '.join(map(str, s))}\n1\n{last} 2.5\n"}], kind="sptensor", **info)

        def ktext(cols_of):
            out = f"ktensor\n{n}\n{' '.join(map(str, s))}\n2\n1.0 2.0\n"
            for i in range(n):
                c = cols_of(i)
                out += f"matrix\n2\n{s[i]} {c}\n" + "\n".join(
                    " ".join(f"{float(a + b + 1):.1f}" for b in range(c)) for a in range(s[i])) + "\n"
            return out

        yield C("algo", "ttb.import_data", "control", None, [{"file": ktext(lambda i: 2)}], kind="ktensor", **info)
        for k in range(n):
            if n == 1:
                # single factor whose column count differs from the number of weights
                yield C("algo", "ttb.import_data", "cols", None, [{"file": ktext(lambda i: 3)}], kind="ktensor",
                        pos=k, **info)
            else:
                yield C("algo", "ttb.import_data", "cols", None, [{"file": ktext(lambda i, k=k: 3 if i == k else 2)}],
                        kind="ktensor", pos=k, **info)


def _rank_vectors(s):
    """every per-mode rank vector over {1, size, size + 1} (smallest / largest admissible / first inadmissible)"""
    return [list(q) for q in itertools.product(*[sorted({1, x, x + 1}) for x in s])]


def _bad_guesses(s, R, seed, positive=False):
    """Kruskal guesses that do not fit data of shape s and rank R"""
    n = len(s)

    def K(shape, rank):
        if positive:
            return {"k_pos": list(shape), "rank": rank}
        d = hd("ktensor", shape, seed, 1)
        d["rank"] = rank
        d["weights"] = [2.0, -1.0, 3.0][:rank]
        return {"h": d}

    out = [("init_rank", K(s, R + 1))] + ([("init_rank", K(s, R - 1))] if R > 1 else [])
    for k in range(n):
        t = list(s)
        t[k] += 1
        out.append(("init_shape", K(t, R)))
        if s[k] > 1:
            t = list(s)
            t[k] = 1
            out.append(("init_shape", K(t, R)))
    out.append(("init_ndims", K(list(s) + [1], R)))
    out.append(("init_ndims", K(list(s)[:-1], R)))
    if list(reversed(s)) != list(s):
        out.append(("init_shape", K(list(reversed(s)), R)))
    return out


def g_inplace(tier, seed):
    """operations that modify their receiver: a rejected call must leave it as it was"""
    R = 2
    for s in _shapes(tier):
        n = len(s)
        info = dict(shape=list(s))
        r = hd("ktensor", s, seed)
        op = "ktensor.update"
        # every ascending (non-decreasing: the documented requirement is "ascending order" and the check is <=, so an
        # entry may be listed more than once and then consumes one data block per listing) mode list of <= 3 entries
        # (weights = -1 first), data exactly right / one short / one rank short / one whole block short per listed
        # mode / far too short
        sels = [list(q) for L in (1, 2, 3) for q in itertools.combinations_with_replacement(range(-1, n), L)]
        for sel in sels:
            blocks = [R if k == -1 else s[k] * R for k in sel]
            need = sum(blocks)
            repeated = len(set(sel)) != len(sel)
            c = C("inplace", op, "control", r, [A_ints(sel), A_vec(need)], modes=sel, length=need, **info)
            if repeated:
                # whether a mode listed twice (with enough data) is well-formed is not stated: run, not asserted;
                # too little data is ill-formed under either reading
                c["inadm"] = "repeated mode with enough data: acceptance not stated"
            yield c
            for L in sorted(({need - 1, need - R, 1, 0} | {need - b for b in blocks}) - {need}):
                if L >= 0:
                    yield C("inplace", op, "length", r, [A_ints(sel), A_vec(L)], modes=sel, length=L, need=need,
                            repeated=repeated, **info)
            rev = list(reversed(sel))
            if len(sel) >= 2 and sel[0] != -1 and rev != sel:
                yield C("inplace", op, "order", r, [A_ints(rev), A_vec(need)], modes=rev, length=need, **info)
        for first in ([], [0], [-1, 0]):
            sel = first + [n]
            need = sum(R if k == -1 else s[k] * R for k in first) + 2 * R
            yield C("inplace", op, "mode_oor", r, [A_ints(sel), A_vec(need)], modes=sel, length=need, **info)
        # -1 designates the weights; any lower number designates nothing (and must not wrap around to a factor)
        for sel in ([-2], [-2, -1], [-2, 0], [-n - 1], [-n - 1, -1]):
            if sel == sorted(set(sel)):
                need = sum(R if k == -1 else s[k % n] * R for k in sel)
                yield C("inplace", op, "mode_neg", r, [A_ints(sel), A_vec(need)], modes=sel, length=need, **info)
        # arrange
        op = "ktensor.arrange"
        yield C("inplace", op, "control", r, [], {}, **info)
        for k in range(n):
            yield C("inplace", op, "control", r, [], {"weight_factor": k}, weight_factor=k, **info)
        yield C("inplace", op, "mode_oor", r, [], {"weight_factor": n}, weight_factor=n, **info)
        yield C("inplace", op, "mode_neg", r, [], {"weight_factor": -1}, weight_factor=-1, **info)
        for p, var in (([0, 1], "control"), ([1, 0], "control"), ([0], "length"), ([0, 1, 0], "length"),
                       ([0, 0], "perm_rep"), ([1, 1], "perm_rep"), ([0, 2], "perm_oor"), ([-1, 0], "perm_neg")):
            for form in ("list", "array"):
                yield C("inplace", op, var, r, [], {"permutation": A_py(p) if form == "list" else A_ints(p)},
                        permutation=p, form=form, **info)
        yield C("inplace", op, "both", r, [], {"weight_factor": 0, "permutation": A_py([1, 0])}, **info)
        # normalize / redistribute / tolist
        op = "ktensor.normalize"
        yield C("inplace", op, "control", r, [], {}, **info)
        yield C("inplace", op, "control", r, [], {"weight_factor": "all"}, **info)
        for k in range(n):
            yield C("inplace", op, "control", r, [], {"mode": k}, mode=k, **info)
            yield C("inplace", op, "control", r, [], {"weight_factor": k}, weight_factor=k, **info)
            yield C("inplace", "ktensor.redistribute", "control", r, [k], mode=k, **info)
            yield C("inplace", "ktensor.tolist", "control", r, [k], mode=k, **info)
        for bad, var in ((n, "mode_oor"), (-1, "mode_neg")):
            yield C("inplace", op, var, r, [], {"mode": bad}, mode=bad, **info)
            yield C("inplace", op, var, r, [], {"weight_factor": bad}, weight_factor=bad, **info)
            yield C("inplace", "ktensor.redistribute", var, r, [bad], mode=bad, **info)
            yield C("inplace", "ktensor.tolist", var, r, [bad], mode=bad, **info)
    # region writes whose right-hand side does not fit the region: only "if rejected then unchanged" is asserted
    wshapes = [s for s in space.shapes(2, 3, 9)] + ([(2, 2, 2)] if tier == "thorough" else [])
    for s in wshapes:
        n = len(s)
        for hk in ("tensor", "sp_full", "sp_empty"):
            r = hd(hk, s, seed)
            regions = []
            for lo_hi in itertools.product(*[[(0, x) for x in range(1, sz + 3)] for sz in s]):
                regions.append([list(x) for x in lo_hi])
            for reg in regions:
                rs = [b - a for a, b in reg]
                grows = any(b > sz for (a, b), sz in zip(reg, s))
                for t in space.shapes(n, 3, 9, min_order=n):
                    if list(t) == rs:
                        continue
                    yield C("inplace", cname(hk) + ".__setitem__", "rhs_shape", r,
                            [{"slices": reg}, {"rhs": list(t), "sparse": hk != "tensor"}], hk=hk, region=reg,
                            rhs=list(t), grows=grows, shape=list(s))
                yield C("inplace", cname(hk) + ".__setitem__", "control", r,
                        [{"slices": reg}, {"rhs": rs, "sparse": hk != "tensor"}], hk=hk, region=reg, rhs=rs,
                        grows=grows, shape=list(s))
                # a right-hand side of another kind (plain array, the other tensor class), fitting or not, and the
                # same writes through a key with one more entry than the receiver has modes (the order would grow)
                for reg2, og in ((reg, False), (reg + [[0, 1]], True), (reg + [[0, 2]], True)):
                    rs2 = [b - a for a, b in reg2]
                    for t in (rs2, [x + 1 for x in rs2]):
                        for rk, rhs in (("ndarray", {"h_data": list(t)}),
                                        ("other_class", {"rhs": list(t), "sparse": hk == "tensor"})) + (
                                (("same_class", {"rhs": list(t), "sparse": hk != "tensor"}),) if og else ()):
                            yield C("inplace", cname(hk) + ".__setitem__", "rhs_type", r, [{"slices": reg2}, rhs], hk=hk,
                                    region=reg2, rhs=list(t), rhs_kind=rk, grows=grows or og, shape=list(s))


def g_symm(tier, seed):
    """symmetry groups: the grouped modes have equal sizes, exist, and no mode belongs to two groups (nor twice to one);
    receivers: generic entries and a constant tensor (already symmetric under every group, so that no early exit for
    'nothing to do' may answer an ill-formed request)"""
    shapes = [(2, 2), (2, 2, 2), (2, 3, 2), (2, 2, 2, 2)] + ([(3, 3, 3), (3, 2, 2, 3)] if tier == "thorough" else [])
    for s in shapes:
        n = len(s)
        for rk, r in (("generic", hd("tensor", s, seed)),
                      ("constant", {"kind": "tensor", "shape": list(s), "vals": [2.0] * prod(s)})):
            info = dict(shape=list(s), data=rk)
            for op, kws in (("tensor.symmetrize", ({}, {"version": 1})),
                            ("tensor.issymmetric", ({}, {"version": 1}, {"return_details": True}))):
                for kw in kws:
                    vname = ",".join(f"{k}={v}" for k, v in kw.items()) or "default"
                    # issymmetric is a question: "symmetric in modes of different sizes?" (no), "... under two
                    # overlapping swaps?" or "... under swapping a mode with itself?" are well-formed questions with an
                    # answer, so only symmetrize (which must BUILD the symmetric tensor) has these as preconditions
                    build = op == "tensor.symmetrize"
                    pairs = [(i, j) for i in range(n) for j in range(i + 1, n)]
                    for i, j in pairs:
                        g = {"ints": [i, j], "shape": [1, 2]}
                        if s[i] == s[j] or build:
                            yield C("symm", op, "control" if s[i] == s[j] else "size", r, [g], dict(kw), grps=[[i, j]],
                                    opt=vname, **info)
                    if n >= 3 and build:
                        for (a, b), (c, d) in itertools.permutations(pairs, 2):
                            if {a, b} & {c, d} and s[a] == s[b] and s[c] == s[d]:
                                yield C("symm", op, "mode_rep", r, [{"ints": [a, b, c, d], "shape": [2, 2]}], dict(kw),
                                        grps=[[a, b], [c, d]], opt=vname, **info)
                    if n >= 4 and s[0] == s[1] and s[2] == s[3]:
                        yield C("symm", op, "control", r, [{"ints": [0, 1, 2, 3], "shape": [2, 2]}], dict(kw),
                                grps=[[0, 1], [2, 3]], opt=vname, **info)
                    if build:
                        yield C("symm", op, "mode_rep", r, [{"ints": [0, 0], "shape": [1, 2]}], dict(kw), grps=[[0, 0]],
                                opt=vname, **info)
                    yield C("symm", op, "mode_oor", r, [{"ints": [0, n], "shape": [1, 2]}], dict(kw), grps=[[0, n]],
                            opt=vname, **info)


GROUPS = [g_innerprod, g_elementwise, g_ttv, g_ttm, g_mttkrp, g_ttt, g_modes, g_ctor, g_algo, g_inplace, g_symm]


def gen_cases(tier, seed):
    for g in GROUPS:
        for c in g(tier, seed):
            if c["variant"] == "skip":
                continue
            c["seed"] = seed
            yield c


# ---------------------------------------------------------------------------------------------
# execution


def _mk(a, seed):
    """extra descriptors needing pyttb-side helpers"""
    import pyttb as ttb

    if isinstance(a, dict):
        if "h_data" in a:      # plain ndarray of a shape
            return H.build(hd("tensor", a["h_data"], seed)).data.copy()
        if "h_abs" in a:       # non-negative dense tensor
            t = H.build(hd("tensor", a["h_abs"], seed))
            return ttb.tensor(np.abs(t.data))
        if "k_pos" in a:
            shape, rank = a["k_pos"], a["rank"]
            fm = [np.abs(np.array(space.int_matrix(x, rank, i, seed), dtype=float)).reshape(x, rank) + 1.0
                  for i, x in enumerate(shape)]
            return ttb.ktensor(fm, np.arange(1.0, rank + 1.0))
        if "empty" in a:       # plain ndarray without elements (some extent is 0)
            return np.zeros(tuple(a["empty"]), order="F")
        if "arr" in a:
            r, c = a["arr"]
            return np.arange(1.0, r * c + 1.0).reshape((r, c), order="F")
        if "slices" in a:
            return tuple(slice(lo, hi) for lo, hi in a["slices"])
        if "rhs" in a:
            t = H.build(hd("tensor", a["rhs"], seed, 3))
            return t.to_sptensor() if a.get("sparse") else t
        if "list" in a:
            return [_mk(x, seed) for x in a["list"]]
        if "tuple" in a:
            return tuple(_mk(x, seed) for x in a["tuple"])
    return mk_arg(a, seed)


def _shape_of(obj):
    try:
        return tuple(int(x) for x in obj.shape)
    except Exception:  # noqa: BLE001
        return None


def run_case(case, ctx):
    seed = case.get("seed", 0)
    np.random.seed(12345)
    op = case["op"]
    variant = case["variant"]
    cls, _, meth = op.partition(".")
    recv = H.build(case["recv"]) if case.get("recv") is not None else None
    args = [_mk(a, seed) for a in case["args"]]
    kw = {k: _mk(v, seed) for k, v in case["kw"].items()}
    if cls == "ttb" or op in ("sptensor.from_aggregator", "ktensor.from_vector", "sptenmat.from_array"):
        f = _funcs()[op]
        thunk = lambda: f(*args, **kw)  # noqa: E731
    elif recv is None:       # receiver is the first argument (matricized operands)
        recv = args[0]
        rest = args[1:]
        thunk = (lambda: BINOPS[meth](recv, *rest)) if meth in BINOPS else (lambda: getattr(recv, meth)(*rest, **kw))
    elif meth in BINOPS:
        thunk = lambda: BINOPS[meth](recv, args[0])  # noqa: E731
    elif meth == "__getitem__":
        thunk = lambda: recv[args[0]]  # noqa: E731
    elif meth == "__setitem__":
        def thunk():
            recv[args[0]] = args[1]
    else:
        thunk = lambda: getattr(recv, meth)(*args, **kw)  # noqa: E731

    watched = {"recv": recv, "args": args, "kw": kw}
    before = O.snapshot(watched)
    shape_before = _shape_of(recv)
    ctx.state()
    ctx.tick()
    raised = None
    res = None
    try:
        res = thunk()
    except Exception as e:  # noqa: BLE001
        raised = e
    finally:
        while _TMPFILES:
            try:
                os.unlink(_TMPFILES.pop())
            except OSError:
                pass

    if variant == "control":
        if case.get("inadm"):
            ctx.inadm()
            return
        if raised is not None and case["check"] == "algo" and isinstance(raised, np.linalg.LinAlgError):
            # numerical breakdown inside a solver (singular normal equations for this guess): not a rejection
            # of the request and outside the property (DESIGN appendix A.5)
            ctx.inadm()
            ctx.count("algo_control_singular")
        elif raised is not None:
            ctx.fail(op, "rejected_valid:" + type(raised).__name__, short_tb(raised), variant="control")
        else:
            ctx.flag("control_accepted")
        ctx.outcome((op, "control", raised is None))
        return
    ctx.nontriv()
    soft = case["check"] == "inplace" and meth == "__setitem__"   # rejection itself is not asserted
    if raised is None:
        if soft:
            ctx.inadm()
            ctx.count("setitem_rhs_accepted")
        else:
            what = type(res).__name__ + (f" shape {_shape_of(res)}" if _shape_of(res) is not None else "")
            ctx.fail(op, "accepted", f"{_describe(case)} returned {what}", variant=variant)
        ctx.outcome((op, variant, "accepted"))
        return
    ctx.flag("raised:" + type(raised).__name__)
    ctx.outcome((op, variant, type(raised).__name__))
    changed = O.diff_snapshot(before, watched)
    if shape_before != _shape_of(recv):
        changed.append("recv.shape")
    if changed:
        rc = [p for p in changed if p.startswith("['recv']") or p == "recv.shape"]
        sym = "receiver_changed" if rc else "operand_mutated"
        ctx.fail(op, sym, f"{_describe(case)} raised {short_tb(raised)} but changed {changed[:4]}", variant=variant)


def _describe(case):
    keys = [k for k in case if k not in ("check", "op", "variant", "recv", "args", "kw", "seed")]
    return case["op"] + "[" + case["variant"] + "] " + ", ".join(f"{k}={case[k]}" for k in keys)
