"""C09 - CP-ALS returns a model consistent with everything it reports.

State space.  The transition is ONE real ALS sweep.  It is observed (no source hook) by
  * re-running the real `cp_als` with maxiters = k, k = 1..K, from the same guess (state k = what the library
    returns after k sweeps), and
  * a duck-typed recording wrapper around the data object that logs every factor list handed to `mttkrp`
    (and the MTTKRP that came back), so every single mode update of every sweep is visible.
Every reachable state is compared with a reference ALS written in numpy (no pyttb) and with the invariants the
property states: normal form, reported fit / residual recomputed entrywise from the returned model, monotone
squared residual, normal equations (last update from the returned model, every other update from the recording),
iteration count / stopping rule, returned guess = guess used, data and guess untouched.
"""

import contextlib
import io
import itertools
from math import prod

import numpy as np

from mc import holders as H
from mc import observe as O
from mc import refmodel as rm
from mc import space
from mc.engine import exc_symptom, short_tb

ID = "C09"
RULE = ("product explorer over configurations x iteration horizons: a case is (member of the explicit integer data "
        "family D, holder of that array, storage dtype of the holder's cells, rank); the storage dtype dimension is "
        "float64 or an integer dtype that represents every stored value exactly (decided on the reference side; the "
        "reference array is always float64), applied to every cell collection the holder stores (dense array, sparse "
        "value column, Tucker core, each dense / sparse part of a sum); inside, every trajectory key T = (starting guess, dimorder, optdims) of "
        "the tier's option lattice is one state sequence: the real cp_als is re-run with maxiters = 1..K from the same "
        "guess (base options fixsigns=True, printitn=0, stoptol=0, data wrapped in a recording proxy), and again "
        "on the bare data object for the other (fixsigns, printitn, stoptol) combinations of the tier.  A trajectory "
        "is admissible when every unfolding of the data has rank >= the requested rank and the reference ALS keeps "
        "cond(Hadamard-Gram) <= 1e8; inadmissible ones are run (crash detection, structural checks) but their numeric "
        "verdict is not asserted.  The starting-guess alphabet has a weight dimension (explicit integer guess with unit "
        "weights / with non-unit mixed-sign weights) and a history dimension (warm restart: the guess is the very "
        "ktensor a real earlier cp_als call of j sweeps returned, in normal form with data-dependent weights); the "
        "reference ALS starts from the factor matrices of the guess, and the guess object is snapshotted before and "
        "compared after every run.  Non-trivial: admissible and the reference model after the sweep is non-zero.")
ASSUMPTIONS = [
    "reference ALS, Kruskal evaluation and MTTKRP in mc/props/C09.py / mc/refmodel.py (einsum on the explicit array, "
    "numpy.linalg.solve) are correct",
    "data are small explicit integers, so ||X||^2, <X,M> and the reference MTTKRP carry no data rounding; squared "
    "residuals are compared with 1e-9*||X||^2, normal equations with 1e-8*||X||*max(1,|H|), trajectories with "
    "1e-8*max|X| when the reference conditioning is <= 1e6 (DESIGN 4.3)",
    "the recording proxy forwards ndims/shape/norm/mttkrp/innerprod/nvecs unchanged (checked: bare-object runs must "
    "reach the same states)",
    "random starts: numpy's global stream seeded by np.random.seed(s), s in an enumerated alphabet of three seeds; "
    "ARPACK's internal start vector (nvecs start, r < size-1) is replaced by a fixed vector so that runs repeat",
    "holders are built by mc/holders.py from the explicit array (Tucker holders: identity factors or the exact "
    "integer CP factors with a superdiagonal core; sum holders: cell-wise splits or Kruskal part + sparse noise)",
]
BOUNDS = {
    "quick": "shapes (3,4),(4,3),(2,3,4),(4,3,2),(2,2,2,3),(3,3,3); 5 data members per shape (exact rank 1, exact rank 2, "
             "rank 2 + integer noise, generic, counts with an empty slice); holders tensor, sptensor, ttensor "
             "(identity factors; native CP factors for the exact members), sumtensor (dense+sparse split; Kruskal + "
             "sparse noise); storage dtype float64 on every (holder, rank) plus the integer dtypes int64 and narrowest "
             "exact of the member (int8 / int16, uint8 for the non-negative counts) as a pairwise covering: every holder "
             "with each of them, every rank with each of them (one integer dtype per (holder, rank), rotating); rank "
             "1..3; K = 3 horizons; guesses: given integer ktensor x dimorder {identity, reversal, "
             "3-cycle} x optdims {all, drop-first, single}, the given guess with non-unit mixed-sign weights x {(identity, "
             "all), (reversal, drop-first)}, warm restarts (guess = model returned by an earlier call of j sweeps) "
             "(j=2, identity, all) and (j=1, reversal, drop-first), random seeds {0,1,2} and nvecs with default "
             "order; options: "
             "4 covering (fixsigns, printitn, stoptol) combinations on every trajectory, all 18 of "
             "{T,F}x{0,1,2}x{0,1e-4,1} on the default trajectory; dimorder/optdims as lists or left at their defaults",
    "thorough": "same shapes plus (1,4) and (3,1,4) with three members each; 9 members per shape (more value seeds, rank 3 + noise, exact rank 3, empty last slice); "
                "holders additionally tensor from a C buffer, sptensor stored in reverse, ttensor with sparse core, "
                "three-part sumtensor (these four layouts with float64 storage only); storage dtypes int64 and narrowest exact on "
                "the quick-tier holders x every rank (full product), every other exact dtype of int32/int16/int8/uint8 on tensor and sptensor (integer storage "
                "for the five quick-tier members of each shape); K = 6 horizons; given guess x ALL N! dimorders x ALL non-empty optdims subsets "
                "(order 4: all 24 dimorders with all modes optimised + 3 dimorders x all 15 subsets), a second given "
                "guess with non-unit weights, warm restarts j in {1,2,3} on 5 (dimorder, optdims) keys, random seeds "
                "{0,1,2} and nvecs x 3 dimorders x {all, drop-first}; the "
                "full 18-combination option lattice on 4 trajectories, base + one rotating combination elsewhere",
}
CHUNK = 1

KMAX = {"quick": 3, "thorough": 6}
SHAPES = [(3, 4), (4, 3), (2, 3, 4), (4, 3, 2), (2, 2, 2, 3), (3, 3, 3)]
SINGLETON_SHAPES = [(1, 4), (3, 1, 4)]      # thorough only, three members each (only rank 1 is admissible)

COND_MAX = 1e8        # admissibility (DESIGN 4.4), decided on the reference trajectory
COND_TRAJ = 1e6       # the differential trajectory oracle is asserted below this conditioning only
TOL_R2 = 1e-9         # * ||X||^2
TOL_NE = 1e-8         # * ||X|| * max(1, |H|max)
TOL_TRAJ = 1e-8       # * max|X|
TOL_UNIT = 1e-8
TOL_TIE = 1e-9

_STATS = None            # debugging aid: set to a list to collect (oracle, cond, error/limit, k)

BASE = (True, 0, 0.0)                                  # fixsigns, printitn, stoptol
P_LIGHT = [(False, 1, 0.0), (False, 0, 1e-4), (True, 2, 1.0)]
P_FULL = [(f, p, s) for f in (True, False) for p in (0, 1, 2) for s in (0.0, 1e-4, 1.0)]


# ---------------------------------------------------------------------------
# the data family D (explicit small integers) and its holders


def members(shape, tier, seed):
    sh = list(shape)
    out = [
        {"fam": "lowrank", "shape": sh, "rank": 1, "noise": 0, "vseed": seed},
        {"fam": "lowrank", "shape": sh, "rank": 2, "noise": 0, "vseed": seed},
        {"fam": "lowrank", "shape": sh, "rank": 2, "noise": 1, "vseed": seed},
        {"fam": "generic", "shape": sh, "vseed": seed},
        {"fam": "counts", "shape": sh, "slice": "first", "vseed": seed},
    ]
    if tier == "thorough":
        out += [
            {"fam": "lowrank", "shape": sh, "rank": 3, "noise": 1, "vseed": seed + 2},
            {"fam": "lowrank", "shape": sh, "rank": 3, "noise": 0, "vseed": seed + 1},
            {"fam": "generic", "shape": sh, "vseed": seed + 7},
            {"fam": "counts", "shape": sh, "slice": "last", "vseed": seed + 1},
        ]
    return out


def lowrank_parts(d):
    R, vs = d["rank"], d.get("vseed", 0)
    w = np.array([3.0, -1.0, 2.0][:R])
    fs = [np.array(space.int_matrix(s, R, salt=vs + 4 * k, seed=vs)) for k, s in enumerate(d["shape"])]
    return w, fs


def noise_array(d):
    shape = tuple(d["shape"])
    vs = d.get("vseed", 0)
    return rm.arr(shape, [float(((5 * l + vs) % 3) - 1) for l in range(prod(shape))])


# small non-negative integers with many zeros, no arithmetic pattern in the cell index (27 entries, stride 5)
_COUNTS = [3, 0, 1, 2, 0, 4, 1, 0, 2, 5, 1, 0, 0, 2, 3, 1, 0, 1, 4, 0, 2, 0, 1, 3, 2, 0, 1]


def data_array(d):
    """The integer-valued array a data descriptor denotes (reference side, no pyttb)."""
    shape = tuple(d["shape"])
    n = prod(shape)
    vs = d.get("vseed", 0)
    fam = d["fam"]
    if fam == "lowrank":
        w, fs = lowrank_parts(d)
        a = rm.kruskal(w, fs)
        if d.get("noise"):
            a = a + noise_array(d)
        return np.asarray(a, dtype=float)
    if fam == "generic":
        return rm.arr(shape, space.dense_values(shape, None, vs))
    if fam == "counts":
        a = rm.arr(shape, [float(_COUNTS[(5 * l + vs) % len(_COUNTS)]) for l in range(n)])
        if d.get("slice", "first") == "first":
            a[0, ...] = 0.0
        else:
            a[..., shape[-1] - 1] = 0.0
        return a
    if fam == "zero":
        return np.zeros(shape)
    raise ValueError(fam)


# storage dtype dimension: every member of D is integer-valued, so every holder that stores cells (dense array, sparse
# value column, Tucker core, parts of a sum) can keep them in any dtype that represents each value exactly
INT_DTYPES = ["int64", "int32", "int16", "int8", "uint8"]


def exact_dtypes(A):
    """The integer storage dtypes that hold every value of the (integer-valued) array A exactly - reference side."""
    lo, hi = (float(np.min(A)), float(np.max(A))) if A.size else (0.0, 0.0)
    return [dt for dt in INT_DTYPES if np.iinfo(dt).min <= lo and hi <= np.iinfo(dt).max]


def storage_dtypes(d, tier):
    """Integer storage dtypes enumerated for the member d as [(dtype, on every holder?)]: the platform integer and the
    narrowest exact one (unsigned when the data are non-negative) go on every holder in both tiers; thorough adds the
    exact dtypes in between on the two primitive holders."""
    ok = exact_dtypes(data_array(d))
    main = ["int64"] + ([ok[-1]] if ok[-1] != "int64" else [])
    out = [(dt, True) for dt in main]
    if tier == "thorough":
        out += [(dt, False) for dt in ok if dt not in main]
    return out


LAYOUTS = ("tensor:C", "sptensor:rev", "ttensor:idsp", "sumtensor:three")     # thorough-only memory / part layouts
PRIMITIVE = ("tensor:F", "sptensor:id")


def holder_names(d, tier):
    thorough = tier == "thorough"
    names = ["tensor:F"]
    if thorough:
        names.append("tensor:C")
    names.append("sptensor:id")
    if thorough:
        names.append("sptensor:rev")
    names.append("ttensor:id")
    if thorough:
        names.append("ttensor:idsp")
    if d["fam"] == "lowrank" and not d.get("noise"):
        names.append("ttensor:native")
    names.append("sumtensor:split")
    if d["fam"] == "lowrank" and d.get("noise"):
        names.append("sumtensor:ktsp")
    if thorough:
        names.append("sumtensor:three")
    # float64 storage first (simplest), then the holders again per integer storage dtype (the layout variants of the
    # thorough tier stay float64: layout and storage dtype are handled by the same constructor copy)
    out = list(names)
    for dt, everywhere in storage_dtypes(d, tier):
        for nm in names:
            if nm in LAYOUTS or not (everywhere or nm in PRIMITIVE):
                continue
            # holders that store something else than cells of the array (the CP weights in the core of the native
            # Tucker holder, the noise part next to the Kruskal part of a sum): that must be representable as well
            if nm == "ttensor:native" and dt not in exact_dtypes(lowrank_parts(d)[0]):
                continue
            if nm == "sumtensor:ktsp" and dt not in exact_dtypes(noise_array(d)):
                continue
            out.append(f"{nm}@{dt}")
    return out


def holder_dtype(name):
    return name.partition("@")[2] or "float64"


def _masked(A, keep):
    vals = [float(v) for v in rm.vals_f(A)]
    return [v if keep(l) else 0.0 for l, v in enumerate(vals)]


def build_holder(name, d, A):
    """Fresh real pyttb object called `name` that denotes the array A."""
    import pyttb as ttb

    base, _, dt = name.partition("@")
    kind, how = base.split(":")
    shape = list(A.shape)
    vals = [float(v) for v in rm.vals_f(A)]
    st = {"dtype": dt} if dt else {}        # storage dtype of every stored cell collection of this holder

    def dense(v, c=False):
        return H.build({"kind": "tensor", "shape": shape, "vals": v, "c_order": c, **st})

    def sparse(v, rev=False):
        k = sum(1 for x in v if x != 0)
        order = list(range(k))[::-1] if rev else list(range(k))
        return H.build({"kind": "sptensor", "shape": shape, "vals": v, "order": order, **st})

    if kind == "tensor":
        return dense(vals, how == "C")
    if kind == "sptensor":
        return sparse(vals, how == "rev")
    if kind == "ttensor":
        if how == "native":
            w, fs = lowrank_parts(d)
            R = len(w)
            core = np.zeros((R,) * len(shape))
            for r in range(R):
                core[(r,) * len(shape)] = w[r]
            if dt:
                core = core.astype(np.dtype(dt))
            return ttb.ttensor(ttb.tensor(np.asfortranarray(core)), [f.copy(order="F") for f in fs])
        core = sparse(vals) if how == "idsp" else dense(vals)
        return ttb.ttensor(core, [np.eye(s, order="F") for s in shape])
    if kind == "sumtensor":
        if how == "split":
            return ttb.sumtensor([dense(_masked(A, lambda l: l % 2 == 0)), sparse(_masked(A, lambda l: l % 2 == 1))])
        if how == "ktsp":
            w, fs = lowrank_parts(d)
            noise = [float(v) for v in rm.vals_f(noise_array(d))]
            return ttb.sumtensor([ttb.ktensor([f.copy(order="F") for f in fs], w.copy()), sparse(noise)])
        if how == "three":
            third = dense(_masked(A, lambda l: l % 3 == 2))
            return ttb.sumtensor([dense(_masked(A, lambda l: l % 3 == 0)), sparse(_masked(A, lambda l: l % 3 == 1)),
                                  ttb.ttensor(third, [np.eye(s, order="F") for s in shape])])
    raise ValueError(name)


def guess_parts(shape, R, g, seed):
    """Explicit integer starting guess number g (g = 1 carries non-unit, mixed-sign weights)."""
    fs = [np.array(space.int_matrix(s, R, salt=7 + 4 * n + 2 * g + seed, seed=seed)) for n, s in enumerate(shape)]
    w = np.ones(R) if g == 0 else np.array([2.0, -1.0, 3.0][:R])
    return w, fs


# ---------------------------------------------------------------------------
# reference side


class _Info:
    pass


def data_info(A, R):
    info = _Info()
    info.normX2 = float(np.sum(A * A))
    info.normX = float(np.sqrt(info.normX2))
    info.amax = float(np.max(np.abs(A))) if A.size else 0.0
    ranks = []
    for n in range(A.ndim):
        Xn = rm.matricize(A, [n], [m for m in range(A.ndim) if m != n])
        s = np.linalg.svd(Xn, compute_uv=False)
        ranks.append(int(np.sum(s > 1e-9 * max(s[0], 1e-300))) if s.size and s[0] > 0 else 0)
    info.unfold_ranks = ranks
    info.struct_ok = bool(min(ranks) >= R) and info.normX2 > 0
    return info


def _hadamard_gram(U, n):
    R = U[0].shape[1]
    Hm = np.ones((R, R))
    for m in range(len(U)):
        if m != n:
            Hm = Hm * (U[m].T @ U[m])
    return Hm


def ref_als(A, U0, order, K):
    """Plain alternating least squares from the definition: for each mode of `order`, the factor that minimises
    ||X - [[U]]|| with the other factors fixed (normal equations with the Hadamard product of the Gram matrices),
    columns rescaled to unit length with the scale kept in lambda.  Returns per sweep the model array, the squared
    residual, the largest condition number met so far, and whether the trajectory is determined by the inputs (no
    component vanished to rounding level on the way)."""
    U = [np.array(u, dtype=float) for u in U0]
    R = U[0].shape[1]
    lam = np.ones(R)
    out = []
    cmax = 1.0
    det = True
    for _ in range(K):
        for n in order:
            G = rm.mttkrp(A, U, n)
            Hm = _hadamard_gram(U, n)
            with np.errstate(all="ignore"):
                c = float(np.linalg.cond(Hm)) if np.all(np.isfinite(Hm)) else np.inf
            if not np.isfinite(c):
                c = np.inf
            cmax = max(cmax, c)
            try:
                if c > 1e14:
                    raise np.linalg.LinAlgError
                B = np.linalg.solve(Hm.T, G.T).T
            except np.linalg.LinAlgError:
                B = G @ np.linalg.pinv(Hm)
            lam = np.sqrt(np.sum(B * B, axis=0))
            if float(np.min(lam)) <= 1e-9 * float(np.max(lam)):
                # a component vanished (the other factors are orthogonal to the data): the direction of the
                # re-normalised column is decided by rounding, the continuation is not determined by the inputs
                det = False
            U[n] = B / np.where(lam > 0, lam, 1.0)
        M = rm.kruskal(lam, U)
        out.append({"M": M, "r2": float(np.sum((A - M) ** 2)), "cond": cmax, "det": det})
    return out


# ---------------------------------------------------------------------------
# observation: recording proxy, fixed ARPACK start


class Recorder:
    """Duck-typed stand-in for the data object: forwards everything cp_als needs and logs each mttkrp call."""

    def __init__(self, X):
        self._X = X
        self.calls = []
        self.inner = 0
        self.bad = []

    @property
    def ndims(self):
        return self._X.ndims

    @property
    def shape(self):
        return self._X.shape

    def norm(self):
        return self._X.norm()

    def mttkrp(self, U, n):
        ok = isinstance(U, (list, tuple)) and all(isinstance(u, np.ndarray) for u in U)
        if not ok:
            self.bad.append(f"mttkrp got {type(U).__name__}")
        Ucopy = [np.array(u, dtype=float, copy=True) for u in U] if ok else None
        V = self._X.mttkrp(U, n)
        self.calls.append({"n": int(n), "U": Ucopy, "V": np.array(V, dtype=float, copy=True)})
        return V

    def innerprod(self, other):
        self.inner += 1
        return self._X.innerprod(other)

    def nvecs(self, n, r, *a, **k):
        return self._X.nvecs(n, r, *a, **k)


def start_vector(n, salt):
    return np.array([1.0 + 0.5 * np.sin(1.0 + 2.3 * i + 0.7 * salt) for i in range(n)])


class FixedArpackStart:
    """ARPACK draws its start vector from an internal generator whose state survives between calls; while a run
    with init='nvecs' executes, scipy.sparse.linalg.eigsh/eigs get a fixed start vector instead."""

    def __init__(self, ctx):
        self.ctx = ctx

    def __enter__(self):
        import scipy.sparse.linalg as sla

        self.sla, self.orig = sla, (sla.eigsh, sla.eigs)

        def wrap(f):
            def g(Amat, k=6, *args, **kw):
                self.ctx.flag("init:nvecs:arpack")
                if not args and kw.get("v0") is None:
                    kw["v0"] = start_vector(Amat.shape[0], int(k))
                return f(Amat, k, *args, **kw)
            return g

        sla.eigsh, sla.eigs = wrap(self.orig[0]), wrap(self.orig[1])
        return self

    def __exit__(self, *exc):
        self.sla.eigsh, self.sla.eigs = self.orig
        return False


# ---------------------------------------------------------------------------
# the option lattice of one case


def _dimorders(N, tier, full):
    ident = list(range(N))
    if tier == "thorough" and full:
        return [list(p) for p in itertools.permutations(range(N))]
    out = [ident, ident[::-1]]
    if N >= 3:
        out.append(ident[1:] + ident[:1])
    return out


def _optdims(N, tier, full):
    if tier == "thorough" and full:
        subs = [list(s) for s in space.subsets(range(N), 1, N)]
        subs.sort(key=lambda s: (-len(s), s))
        return subs
    out = [list(range(N)), list(range(1, N)), [N // 2]]
    res = []
    for o in out:
        if o and o not in res:
            res.append(o)
    return res


def plan(N, kind, tier, struct_ok, seed, nvecs_ok=True):
    """Trajectory keys of one case with the option combinations to run on each (besides the base)."""
    thorough = tier == "thorough"
    ident = list(range(N))
    allm = list(range(N))
    rs = [3 * seed + i for i in range(3)]
    if not struct_ok:
        # outside the quantifier: a small sample of the lattice, crash detection and structural checks only
        yield {"init": {"kind": "given", "g": 0}, "dimorder": ident, "optdims": allm, "opts": P_LIGHT}
        yield {"init": {"kind": "random", "s": rs[0]}, "dimorder": ident[::-1], "optdims": allm, "opts": P_LIGHT[:1]}
        yield {"init": {"kind": "given", "g": 1}, "dimorder": ident[::-1], "optdims": allm, "opts": [], "form": "array"}
        yield {"init": {"kind": "warm", "g": 0, "j": 1}, "dimorder": ident, "optdims": allm, "opts": []}
        return
    full_T = [(ident, allm)]
    if thorough:
        full_T += [(ident[::-1], allm), (ident, [N // 2]), (ident[::-1], list(range(1, N)))]
    seen = []
    for do, od in full_T:
        seen.append((do, od))
        yield {"init": {"kind": "given", "g": 0}, "dimorder": do, "optdims": od, "opts": [p for p in P_FULL if p != BASE]}
    # given guess x dimorder x optdims
    pairs = []
    if thorough and N >= 4:
        pairs += [(do, allm) for do in _dimorders(N, tier, True)]
        pairs += [(do, od) for do in _dimorders(N, tier, False) for od in _optdims(N, tier, True)]
    else:
        pairs += [(do, od) for do in _dimorders(N, tier, True) for od in _optdims(N, tier, True)]
    i = 0
    for do, od in pairs:
        if (do, od) in seen:
            continue
        seen.append((do, od))
        opts = [P_LIGHT[i % 3]] if thorough else P_LIGHT
        i += 1
        yield {"init": {"kind": "given", "g": 0}, "dimorder": do, "optdims": od, "opts": opts}
    # the weight dimension of a given guess: non-unit, mixed-sign weights (both tiers) ...
    yield {"init": {"kind": "given", "g": 1}, "dimorder": ident, "optdims": allm,
           "opts": P_LIGHT if thorough else P_LIGHT[:1], "form": "array"}
    yield {"init": {"kind": "given", "g": 1}, "dimorder": ident[::-1], "optdims": list(range(1, N)),
           "opts": P_LIGHT[:1], "form": "array"}
    # ... and history depth 2: the guess is the very model an earlier cp_als call (j sweeps from guess g, same mode
    # order and optimised modes) returned - a normal-form ktensor with data-dependent weights (warm restart)
    warm = [(2, ident, allm, "default"), (1, ident[::-1], list(range(1, N)), "list")]
    if thorough:
        warm += [(1, ident, allm, "list"), (3, ident[1:] + ident[:1], allm, "array"), (2, ident, [N // 2], "list")]
    for j, do, od, form in warm:
        yield {"init": {"kind": "warm", "g": 0, "j": j}, "dimorder": do, "optdims": od,
               "opts": [P_LIGHT[(i + j) % 3]], "form": form}
    # other starting guesses
    inits = [{"kind": "random", "s": s} for s in rs]
    if kind != "sumtensor" and nvecs_ok:
        inits.append({"kind": "nvecs"})
    dos = _dimorders(N, tier, False) if thorough else [ident]
    ods = [allm, list(range(1, N))] if thorough else [allm]
    for ini in inits:
        for do in dos:
            for od in ods:
                opts = [P_LIGHT[i % 3]] if thorough else P_LIGHT
                i += 1
                form = "default" if (do == ident and od == allm) else ("array" if do != ident else "list")
                yield {"init": ini, "dimorder": do, "optdims": od, "opts": opts, "form": form}


def gen_cases(tier, seed):
    shapes = [(s, None) for s in SHAPES]
    if tier == "thorough":
        shapes = shapes[:2] + [(s, ("generic", "counts")) for s in SINGLETON_SHAPES] + shapes[2:]
    for shape, fams in shapes:
        for d in members(shape, tier, seed):
            if fams is not None and not (d["fam"] in fams or (d["fam"] == "lowrank" and d["rank"] == 1)) \
                    or (fams is not None and d.get("vseed", seed) != seed):
                continue
            # the storage dtype dimension is crossed with the quick-tier members (the further members of the thorough
            # tier vary values and rank, which the storage does not see)
            core = d in members(shape, "quick", seed)
            names = holder_names(d, tier)
            plain = [n for n in names if "@" not in n]
            for name in names:
                base, _, dt = name.partition("@")
                if dt and not core:
                    continue
                for R in (1, 2, 3):
                    if dt and tier == "quick":
                        # quick: pairwise covering of storage dtype x holder and storage dtype x rank - the integer
                        # dtypes of a holder rotate over the ranks, the rotation is shifted from holder to holder
                        # (thorough: the full product)
                        alts = [n for n in names if n.startswith(base + "@")]
                        if alts[(R + plain.index(base)) % len(alts)] != name:
                            continue
                    yield {"check": "als", "data": d, "holder": name, "rank": R, "tier": tier, "seed": seed}


def run_case(case, ctx):
    globals()["_run_" + case["check"]](case, ctx)


# ---------------------------------------------------------------------------
# one case = all trajectories of (data, holder, rank)


def _run_als(case, ctx):
    d, name, R = case["data"], case["holder"], int(case["rank"])
    tier = case.get("tier", "quick")
    seed = int(case.get("seed", 0))
    A = data_array(d)
    N = A.ndim
    kind = name.split(":")[0]
    info = data_info(A, R)
    K = int(case.get("K", KMAX[tier]))
    ctx.count("fam:" + d["fam"])
    ctx.flag("holder:" + name)
    ctx.count("dtype:" + holder_dtype(name))
    if "only" in case:
        keys = [case["only"]]
    else:
        # sumtensor documents that it has no nvecs
        keys = list(plan(N, kind, tier, info.struct_ok, seed))
    for t in keys:
        _run_T(ctx, case, d, name, A, info, R, t, K, seed)


def _sub(case, t, k, opt, adm):
    """Narrow, self-contained, replayable descriptor of one run (plus the fields `when` predicates may use)."""
    name = case["holder"]
    return {"check": "als", "data": case["data"], "holder": name, "rank": case["rank"],
            "tier": case.get("tier", "quick"), "seed": case.get("seed", 0), "K": int(k),
            "only": {"init": t["init"], "dimorder": list(t["dimorder"]), "optdims": list(t["optdims"]),
                     "form": t.get("form", "list"), "opts": [] if tuple(opt) == BASE else [list(opt)], "ks": [int(k)]},
            "kind": name.split(":")[0], "dtype": holder_dtype(name), "ndims": len(case["data"]["shape"]), "fam": case["data"]["fam"],
            "init_kind": t["init"]["kind"], "fixsigns": bool(opt[0]), "printitn": int(opt[1]),
            "stoptol": float(opt[2]), "k": int(k), "nopt": len(t["optdims"]), "adm": bool(adm)}


def _make_guess(shape, R, ini, seed, warm=None):
    """Fresh starting guess of a run: (ktensor handed to cp_als, (weights, factors) it denotes) or (None, None) when
    the library generates the start.  kind 'warm': the object a real earlier cp_als call returned; `warm` = (fresh
    data holder, trajectory key) of that earlier call, which runs j sweeps from the explicit guess g."""
    import pyttb as ttb

    if ini["kind"] not in ("given", "warm"):
        return None, None
    w, fs = guess_parts(shape, R, ini.get("g", 0), seed)
    K0 = ttb.ktensor([f.copy(order="F") for f in fs], w.copy())
    if ini["kind"] == "warm":
        X, t = warm
        with contextlib.redirect_stdout(io.StringIO()):
            K0 = ttb.cp_als(X, R, init=K0, maxiters=int(ini["j"]), stoptol=0.0, printitn=0,
                            dimorder=list(t["dimorder"]), optdims=list(t["optdims"]))[0]
        w = np.array(K0.weights, dtype=float, copy=True)
        fs = [np.array(f, dtype=float, copy=True) for f in K0.factor_matrices]
    return K0, (w, fs)


def _benign(e):
    return isinstance(e, np.linalg.LinAlgError)


def _execute(ctx, X, R, ini, K0, t, k, opt):
    """One real cp_als call.  Returns (M, Minit, out) or raises."""
    import pyttb as ttb

    fixsigns, printitn, stoptol = opt
    init = K0 if K0 is not None else ini["kind"]
    kw = {"stoptol": stoptol, "maxiters": k, "init": init, "printitn": printitn, "fixsigns": fixsigns}
    form = t.get("form", "list")
    if form == "default":           # identity order, all modes: the documented defaults
        assert list(t["dimorder"]) == list(range(len(t["dimorder"]))) and list(t["optdims"]) == list(t["dimorder"])
    elif form == "array":
        kw["dimorder"], kw["optdims"] = np.array(t["dimorder"]), np.array(t["optdims"])
    else:
        kw["dimorder"], kw["optdims"] = list(t["dimorder"]), list(t["optdims"])
    buf = io.StringIO()
    with contextlib.redirect_stdout(buf):
        if ini["kind"] == "random":
            np.random.seed(int(ini["s"]))
        if ini["kind"] == "nvecs":
            with FixedArpackStart(ctx):
                res = ttb.cp_als(X, R, **kw)
        else:
            res = ttb.cp_als(X, R, **kw)
    return res, buf.getvalue()


def _expected_random_init(shape, R, s):
    """The documented random start: N draws of numpy's global uniform(0,1) stream, one matrix per mode in mode
    order, right after np.random.seed(s)."""
    st = np.random.get_state()
    try:
        np.random.seed(int(s))
        return [np.random.uniform(0, 1, (n, R)) for n in shape]
    finally:
        np.random.set_state(st)


def _run_T(ctx, case, d, name, A, info, R, t, K, seed):
    import pyttb as ttb

    shape = A.shape
    N = A.ndim
    kind = name.split(":")[0]
    ini = t["init"]
    order = [int(m) for m in t["dimorder"] if m in t["optdims"]]
    last = order[-1]
    ctx.state()
    refs = {}          # bytes of the starting factors -> reference trajectory
    base = {}          # k -> state of the base run
    ks_only = t.get("ks")

    def get_ref(U0):
        key = b"".join(np.ascontiguousarray(u).tobytes() for u in U0)
        if key not in refs:
            refs[key] = ref_als(A, U0, order, K)
        return refs[key]

    def one(k, opt, record):
        """Run + all single-state checks.  Returns a state dict or None."""
        X = build_holder(name, d, A)
        snapX = O.snapshot(X)
        try:
            K0, gp = _make_guess(shape, R, ini, seed, warm=(build_holder(name, d, A), t) if ini["kind"] == "warm" else None)
        except Exception as e:  # noqa: BLE001
            if type(e).__name__ == "CaseTimeout":      # the engine's per-case wall-clock limit, not a library error
                raise
            # the earlier call of a warm restart is itself a run of the given-guess trajectory with the same mode
            # order / optimised modes, where a failure is reported; here there is no guess to continue from
            ctx.count("warm_start_unavailable")
            return None
        if gp is not None and not (np.all(np.isfinite(gp[0])) and all(np.all(np.isfinite(f)) for f in gp[1])):
            # an earlier call outside the quantifier returned a non-finite model: not a starting guess
            ctx.inadm()
            ctx.count("warm_start_nonfinite")
            return None
        snapK = O.snapshot(K0) if K0 is not None else None
        if gp is not None and not np.array_equal(gp[0], np.ones(R)):
            ctx.flag("guess:nonunit_weights:" + ini["kind"])
        rec = Recorder(X) if record else None
        sub = _sub(case, t, k, opt, info.struct_ok)

        def fail(symptom, detail=""):
            ctx.fail("cp_als", symptom,
                     f"{name} shape={list(shape)} fam={d['fam']} R={R} init={ini} dimorder={t['dimorder']} "
                     f"optdims={t['optdims']} maxiters={k} (fixsigns,printitn,stoptol)={tuple(opt)} :: {detail}",
                     variant=kind, case=sub)

        ctx.tick()
        try:
            (M, Minit, out), text = _execute(ctx, rec if record else X, R, ini, K0, t, k, opt)
        except Exception as e:  # noqa: BLE001
            if type(e).__name__ == "CaseTimeout":      # the engine's per-case wall-clock limit, not a library error
                raise
            # admissibility by conditioning is only known from the reference trajectory of the intended start
            adm_e = info.struct_ok
            U0e = gp[1] if gp else (_expected_random_init(shape, R, ini["s"]) if ini["kind"] == "random" else None)
            if ini["kind"] == "nvecs" and _benign(e):
                # the start the library derives from the data (its correctness is property C14): is ALS from THAT
                # start inside the quantifier?
                try:
                    with FixedArpackStart(ctx):
                        Xn = build_holder(name, d, A)
                        U0e = [np.array(Xn.nvecs(n, R), dtype=float) for n in range(N)]
                except Exception:  # noqa: BLE001
                    U0e = None
            if adm_e and U0e is not None:
                adm_e = get_ref(U0e)[min(k, K) - 1]["cond"] <= COND_MAX
            if _benign(e) and not adm_e:
                ctx.inadm()
                ctx.count("inadmissible_solver_error")
                return None
            sub["adm"] = bool(adm_e)
            fail(exc_symptom(e), short_tb(e))
            return None
        st = {"k": k, "opt": tuple(opt), "rec": rec, "ok": False, "adm": False}
        # ---- untouched operands
        ch = O.diff_snapshot(snapX, X)
        if ch:
            fail("operand_mutated", f"data changed: {ch}")
        if K0 is not None:
            ch = O.diff_snapshot(snapK, K0)
            if ch:
                fail("guess_mutated", f"caller's guess changed: {ch}")
        # ---- structure
        if not isinstance(M, ttb.ktensor) or not isinstance(Minit, ttb.ktensor) or not isinstance(out, dict):
            fail("wrong_type", f"{type(M).__name__}, {type(Minit).__name__}, {type(out).__name__}")
            return None
        if (O.pyshape(M.shape) != tuple(shape) or M.ncomponents != R or np.shape(M.weights) != (R,)
                or any(np.shape(f) != (s, R) for f, s in zip(M.factor_matrices, shape))):
            fail("wrong_shape", f"model shape {M.shape} components {M.ncomponents} weights {np.shape(M.weights)}")
            return None
        if (O.pyshape(Minit.shape) != tuple(shape) or Minit.ncomponents != R
                or any(np.shape(f) != (s, R) for f, s in zip(Minit.factor_matrices, shape))):
            fail("wrong_shape", f"returned guess shape {Minit.shape} components {Minit.ncomponents}")
            return None
        missing = [key for key in ("params", "iters", "normresidual", "fit") if key not in out]
        if missing:
            fail("malformed:output", f"missing keys {missing}")
            return None
        iters = out["iters"]
        if not isinstance(iters, (int, np.integer)) or not (0 <= int(iters) <= k - 1):
            fail("wrong_iters", f"iters={iters!r} with maxiters={k}")
            return None
        iters = int(iters)
        if opt[2] == 0 and iters != k - 1:
            fail("wrong_iters", f"stoptol=0 cannot fire, but iters={iters} with maxiters={k}")
        p = out["params"]
        try:
            echo = (p["stoptol"] == opt[2] and p["maxiters"] == k and p["printitn"] == opt[1]
                    and p["fixsigns"] == opt[0] and [int(x) for x in p["dimorder"]] == list(t["dimorder"])
                    and [int(x) for x in p["optdims"]] == list(t["optdims"]))
        except Exception:  # noqa: BLE001
            echo = False
        if not echo:
            fail("wrong_params", f"params echo {p!r}")
        # ---- the returned guess is the guess that was used
        if K0 is not None:
            if Minit is not K0:
                fail("init_not_returned", "the returned initial guess is not the caller's object")
            U0 = [f.copy() for f in gp[1]]
        else:
            U0 = [np.array(f, dtype=float, copy=True) for f in Minit.factor_matrices]
            if not np.array_equal(np.asarray(Minit.weights), np.ones(R)):
                fail("init_not_returned", f"generated guess has weights {np.asarray(Minit.weights).tolist()}")
            if ini["kind"] == "random":
                want = _expected_random_init(shape, R, ini["s"])
                if all(np.array_equal(a, b) for a, b in zip(U0, want)):
                    ctx.flag("init:random:uniform_stream")
                else:
                    fail("init_not_reproducible", f"random start under np.random.seed({ini['s']}) is not the seeded "
                                                  f"uniform(0,1) stream, mode by mode")
        if rec is not None:
            if rec.bad:
                fail("malformed:mttkrp_args", str(rec.bad[:2]))
                return None
            if rec.calls:
                c0 = rec.calls[0]
                if not all(np.array_equal(a, b) for a, b in zip(c0["U"], U0)):
                    fail("init_not_used", "the factors of the first MTTKRP are not those of the returned guess")
                    U0 = [u.copy() for u in c0["U"]]
        st["U0"] = U0
        st["iters"] = iters
        # ---- admissibility (reference side only)
        ref = get_ref(U0)
        cond = ref[iters]["cond"] if iters < len(ref) else np.inf
        adm = bool(info.struct_ok and cond <= COND_MAX)
        sub["adm"] = adm
        st["adm"] = adm
        fit, nres = out["fit"], out["normresidual"]
        try:
            fit, nres = float(fit), float(nres)
        except Exception:  # noqa: BLE001
            fail("wrong_type", f"fit {type(out['fit']).__name__}, normresidual {type(out['normresidual']).__name__}")
            return None
        st["fit"], st["nres"] = fit, nres
        st["ok"] = True
        if not adm:
            ctx.inadm()
            ctx.flag("inadm:struct" if not info.struct_ok else "inadm:cond")
            return st
        ctx.flag("adm:" + kind)
        ctx.flag("adm:storage:" + ("float" if holder_dtype(name) == "float64" else "integer"))
        # ---- numeric invariants of the returned state
        W = np.asarray(M.weights, dtype=float)
        F = [np.asarray(f, dtype=float) for f in M.factor_matrices]
        if not (np.all(np.isfinite(W)) and all(np.all(np.isfinite(f)) for f in F) and np.isfinite(fit)
                and np.isfinite(nres)):
            fail("wrong_value:nonfinite", f"weights {W.tolist()} fit {fit} normresidual {nres}")
            return None
        cn = np.array([np.sqrt(np.sum(f * f, axis=0)) for f in F])
        # a component whose weight is exactly zero has vanished from the model (e.g. the guess is orthogonal to the
        # data in the fixed modes): its columns may be zero vectors, for which "unit length" is undefined
        gone = (W == 0)[None, :] & (cn == 0)
        if np.any(gone):
            ctx.flag("degenerate:zero_component")
        if float(np.max(np.abs(np.where(gone, 1.0, cn) - 1.0))) > TOL_UNIT:
            fail("malformed:columns_not_unit", f"column norms {np.round(cn, 10).tolist()} weights {W.tolist()}")
        if np.any(W < 0) or np.any(np.diff(W) > 0):
            fail("malformed:weights_order", f"weights {W.tolist()}")
        Mfull = rm.kruskal(W, F)
        r2 = float(np.sum((A - Mfull) ** 2))
        st["M"], st["r2"] = Mfull, r2
        nx2 = info.normX2
        if kind == "sumtensor":
            ctx.flag("branch:norm_unavailable")
            e = float(np.sum(Mfull * Mfull) - 2.0 * np.sum(A * Mfull))
            if abs(fit - e) > TOL_R2 * nx2 or abs(nres - e) > TOL_R2 * nx2:
                fail("wrong_value:fit", f"sum data: fit={fit!r} normresidual={nres!r}, ||M||^2-2<X,M> recomputed={e!r}")
        else:
            if nres < 0 or abs(nres * nres - r2) > TOL_R2 * nx2:
                fail("wrong_value:normresidual", f"normresidual^2={nres * nres!r}, ||X-M||^2 recomputed={r2!r}, "
                                                 f"||X||^2={nx2!r}")
            if fit > 1 + 1e-12 or abs((1.0 - fit) ** 2 * nx2 - r2) > TOL_R2 * nx2:
                fail("wrong_value:fit", f"fit={fit!r}: (1-fit)^2||X||^2={(1.0 - fit) ** 2 * nx2!r}, "
                                        f"||X-M||^2 recomputed={r2!r}")
        if opt[1] > 0:
            ctx.flag("branch:printing")
            if "Final f" not in text or "CP_ALS" not in text:
                fail("wrong_value:printout", f"printitn={opt[1]} printed {text[:80]!r}")
        elif text:
            fail("wrong_value:printout", f"printitn=0 printed {text[:80]!r}")
        # ---- differential: the state after sweep `iters` of the reference ALS
        rf = ref[iters]
        dev = float(np.max(np.abs(Mfull - rf["M"])))
        st["dev"] = dev
        if _STATS is not None:
            _STATS.append(("traj", rf["cond"], dev / max(info.amax, 1e-300), k))
        if not rf["det"]:
            ctx.count("trajectory_undetermined_vanishing_component")
        elif rf["cond"] <= COND_TRAJ:
            ctx.count("trajectory_compared")
            if dev > TOL_TRAJ * info.amax:
                fail("wrong_value:trajectory", f"model after sweep {iters} differs from the reference ALS by {dev:.3g} "
                                               f"(max|X|={info.amax}, cond={rf['cond']:.3g}); r2={r2!r} ref r2={rf['r2']!r}")
        # ---- normal equations of the factor updated last, from the RETURNED model
        Uw = [f.copy() for f in F]
        Uw[last] = Uw[last] * W[None, :]
        G = rm.mttkrp(A, Uw, last)
        Hm = _hadamard_gram(Uw, last)
        res = float(np.max(np.abs(Uw[last] @ Hm - G)))
        lim = TOL_NE * info.normX * max(1.0, float(np.max(np.abs(Hm))))
        if _STATS is not None:
            _STATS.append(("ne", rf["cond"], res / lim, k))
            _STATS.append(("r2", rf["cond"], abs((nres * nres if kind != "sumtensor" else r2) - r2) / (TOL_R2 * nx2), k))
        if res > lim:
            fail("normal_equations", f"mode {last} (updated last): max|A H - MTTKRP| = {res:.3g} > {lim:.3g}")
        # ---- sign fixing
        neg_pairs = 0
        for r in range(R):
            negs, amb = 0, False
            for f in F:
                col = f[:, r]
                m = float(np.max(np.abs(col)))
                cand = col[np.abs(col) >= m - TOL_TIE]
                if np.any(cand > 0) and np.any(cand < 0):
                    amb = True
                elif np.all(cand < 0):
                    negs += 1
            if not amb and negs >= 2:
                neg_pairs += 1
        if opt[0]:
            if neg_pairs:
                fail("malformed:signs_not_fixed", f"{neg_pairs} component(s) keep two or more factors whose "
                                                  f"largest-magnitude entry is negative")
        elif neg_pairs:
            ctx.flag("fixsigns:would_flip")
        ctx.outcome([list(shape), R, kind, ini, order, k, list(opt), iters, round(r2 / nx2, 9)])
        return st

    # ---- base runs: horizons 1..K with the recording proxy
    prev = None
    for k in range(1, K + 1):
        st = one(k, BASE, True)
        if st is None or not st["ok"]:
            break
        base[k] = st
        _check_record(ctx, case, t, A, info, R, name, order, st, prev)
        if st["adm"] and prev is not None and prev["adm"] and "r2" in st and "r2" in prev:
            if st["r2"] > prev["r2"] + TOL_R2 * info.normX2:
                ctx.fail("cp_als", "not_monotone",
                         f"{name} shape={list(shape)} R={R} init={ini} dimorder={t['dimorder']} optdims={t['optdims']}: "
                         f"||X-M||^2 after {k} sweeps {st['r2']!r} > after {k - 1} sweeps {prev['r2']!r} "
                         f"(||X||^2={info.normX2!r})", variant=kind, case=_sub(case, t, k, BASE, True))
        if st["adm"] and "M" in st and float(np.max(np.abs(st["M"]))) > 0:
            ctx.count("nontrivial_states")
        prev = st
    if any(s["adm"] and "M" in s for s in base.values()):
        ctx.nontriv()
    # ---- the other option combinations on the bare data object
    for opt in t.get("opts", []):
        opt = tuple(opt)
        for k in (ks_only or range(1, K + 1)):
            if k not in base:
                continue
            st = one(k, opt, False)
            if st is None or not st["ok"]:
                continue
            _check_variant(ctx, case, t, info, name, st, base, k, opt)


def _check_record(ctx, case, t, A, info, R, name, order, st, prev):
    """Everything the recording shows about a base run of k sweeps: which modes were updated in which order, that
    only the updated factor changes, that every update solves its normal equations against the reference MTTKRP of
    the data, and that a run of k sweeps is the run of k-1 sweeps plus one sweep."""
    rec, k = st["rec"], st["k"]
    kind = name.split(":")[0]
    calls = rec.calls

    def fail(symptom, detail):
        ctx.fail("cp_als", symptom, f"{name} shape={list(A.shape)} R={R} init={t['init']} dimorder={t['dimorder']} "
                                    f"optdims={t['optdims']} maxiters={k} :: {detail}",
                 variant=kind, case=_sub(case, t, k, BASE, st["adm"]))

    want_modes = list(order) * k
    got_modes = [c["n"] for c in calls]
    if got_modes != want_modes:
        fail("wrong_update_order", f"modes passed to mttkrp {got_modes}, want {want_modes}")
        return
    if prev is not None:
        pc = prev["rec"].calls
        same = len(pc) <= len(calls) and all(
            a["n"] == b["n"] and np.array_equal(a["V"], b["V"], equal_nan=True)
            and all(np.array_equal(x, y, equal_nan=True) for x, y in zip(a["U"], b["U"]))
            for a, b in zip(pc, calls))
        if not same:
            fail("history_dependent", f"the first {k - 1} sweeps of the maxiters={k} run differ from the maxiters={k - 1} run")
    if not st["adm"]:
        return
    start = len(prev["rec"].calls) if prev is not None else 0   # earlier updates were checked at the previous horizon
    for c in range(max(start - 1, 0), len(calls)):
        cur = calls[c]
        n = cur["n"]
        U = cur["U"]
        Gref = rm.mttkrp(A, U, n)
        scale = info.normX * float(np.prod([max(1.0, np.sqrt(np.sum(U[m] * U[m]))) for m in range(len(U)) if m != n]))
        if c >= start:
            ctx.count("updates_checked")
            if cur["V"].shape != Gref.shape or float(np.max(np.abs(cur["V"] - Gref))) > 1e-9 * scale:
                fail("wrong_value:mttkrp", f"update {c} mode {n}: data.mttkrp differs from the reference by "
                                           f"{float(np.max(np.abs(cur['V'] - Gref))) if cur['V'].shape == Gref.shape else 'shape'}")
                return
        if c + 1 >= len(calls):
            break
        nxt = calls[c + 1]["U"]
        for m in range(len(U)):
            if m != n and not np.array_equal(nxt[m], U[m]):
                fail("stale_or_foreign_update", f"update {c} of mode {n} changed the factor of mode {m}")
                return
        Unew = nxt[n]
        if not np.all(np.isfinite(Unew)):
            fail("wrong_value:nonfinite", f"update {c} mode {n} produced non-finite factor entries")
            return
        Hm = _hadamard_gram(U, n)
        # the property fixes the update only up to the column scaling the implementation keeps in its weights
        try:
            B = np.linalg.solve(Hm.T, Gref.T).T
        except np.linalg.LinAlgError:
            continue
        den = np.sum(Unew * Unew, axis=0)
        dcol = np.where(den > 0, np.sum(B * Unew, axis=0) / np.where(den > 0, den, 1.0), 0.0)
        res = float(np.max(np.abs((Unew * dcol[None, :]) @ Hm - Gref)))
        lim = TOL_NE * max(info.normX * max(1.0, float(np.max(np.abs(Hm)))), float(np.max(np.abs(Gref))))
        if _STATS is not None:
            _STATS.append(("neu", float(np.linalg.cond(Hm)), res / lim, k))
        if res > lim:
            fail("normal_equations_update", f"update {c} (sweep {c // len(order)}, mode {n}): the new factor does not solve "
                                            f"A H = MTTKRP for any column scaling: residual {res:.3g} > {lim:.3g}")
            return


def _check_variant(ctx, case, t, info, name, st, base, k, opt):
    """A run with other (fixsigns, printitn, stoptol) must stop where the rule says and return the very state the
    base trajectory has after that many sweeps."""
    kind = name.split(":")[0]

    def fail(symptom, detail):
        ctx.fail("cp_als", symptom, f"{name} R={case['rank']} init={t['init']} dimorder={t['dimorder']} optdims={t['optdims']} "
                                    f"maxiters={k} (fixsigns,printitn,stoptol)={opt} :: {detail}",
                 variant=kind, case=_sub(case, t, k, opt, st["adm"]))

    j = st["iters"]
    # stopping rule, from the fits the loop itself reported at the earlier horizons (printitn=0: no recomputation)
    fits = [base[i]["fit"] for i in range(1, k + 1)]          # fits[i] = fit after sweep i (0-based)
    stoptol = opt[2]
    want, ambiguous = k - 1, False
    for i in range(1, k if stoptol > 0 else 1):
        delta = abs(fits[i] - fits[i - 1])
        # the loop's fits are the same floating-point computation in both runs: only a tie at rounding level is ambiguous
        if abs(delta - stoptol) <= 1e-12 * max(1.0, abs(fits[i])):
            ambiguous = True
            break
        if delta < stoptol:
            want = i
            break
    if not np.all(np.isfinite(fits)):
        ctx.count("stop_rule_not_evaluated_nonfinite_fit")
        return
    if ambiguous:
        ctx.count("stop_rule_ambiguous")
    elif j != want:
        fail("wrong_iters", f"iters={j}, but with fits {fits} and stoptol={stoptol} the rule stops after sweep {want}")
    else:
        ctx.flag("stop:early" if (want < k - 1) else "stop:maxiters")
        if stoptol > 0 and want < k - 1:
            ctx.flag("stop:early:tol=%g" % stoptol)
    if not st["adm"] or "M" not in st:
        return
    b = base.get(j + 1)
    if b is None or "M" not in b or not b["adm"]:
        return
    dev = float(np.max(np.abs(st["M"] - b["M"])))
    if dev > 1e-9 * max(info.amax, 1.0):
        fail("wrong_value:state", f"the model returned after sweep {j} differs by {dev:.3g} from the model the base "
                                  f"options return after the same number of sweeps")
    if opt[1] == 0 and kind != "sumtensor":
        # without printing the reported numbers are the loop's own: identical to the base run's
        if abs(st["fit"] - b["fit"]) > 1e-9 or abs(st["nres"] - b["nres"]) > 1e-9 * max(1.0, info.normX):
            fail("wrong_value:fit", f"fit {st['fit']!r} / normresidual {st['nres']!r} differ from the base run's "
                                    f"{b['fit']!r} / {b['nres']!r} after the same sweeps")


# ---------------------------------------------------------------------------
# vacuity control


def finalize(tier, seed, totals):
    need = ["adm:tensor", "adm:sptensor", "adm:ttensor", "adm:sumtensor", "branch:printing", "branch:norm_unavailable",
            "stop:early", "stop:maxiters", "init:nvecs:arpack", "init:random:uniform_stream", "fixsigns:would_flip",
            "inadm:struct", "guess:nonunit_weights:given", "guess:nonunit_weights:warm", "adm:storage:float",
            "adm:storage:integer"]
    if not totals.cases:
        return
    for f in need:
        if f not in totals.flags:
            totals.failures.append({"check": "als", "op": "cp_als", "variant": "vacuity", "symptom": "vacuous",
                                    "case": {"check": "vacuity", "flag": f},
                                    "detail": f"switch side '{f}' was never reached: the bounds no longer cover it"})


def _run_vacuity(case, ctx):
    ctx.fail("cp_als", "vacuous", "replay the whole tier instead", variant="vacuity", case=case)
