"""C07 - permute, reshape, squeeze are exact index maps."""

import itertools
from math import prod

import numpy as np

from mc import holders as H
from mc import observe as O
from mc import refmodel as rm
from mc import space
from mc.props.C01 import Probe

ID = "C07"
RULE = ("product explorer: (holder of an explicit array) x (all N! mode orders | every ordered factorisation of the "
        "cell count into <= 4 factors | every ordered selection of modes as old_modes x every factorisation of its size | "
        "squeeze), plus the composites permute;permute^-1 and reshape;reshape^-1.  Cells hold distinct signed integers. "
        "Non-trivial: >= 2 cells, >= 1 non-zero and a non-identity map.")
ASSUMPTIONS = ["reference index formulas in mc/refmodel.py (loops)", "exact integer values"]
BOUNDS = {
    "quick": "shapes order<=3,size<=3,cells<=12 + (2,1,2,2),(2,2,2,2),(3,2,1,2); patterns none/one/some/all (complete "
             "for <=4 cells); sparse stored orders all k! for k<=3; Kruskal rank 1-2, Tucker cores 1..2",
    "thorough": "shapes order<=4,size<=3,cells<=24 (+(2,2,2,2,2) permute only); patterns complete for <=6 cells",
}
CHUNK = 8


def _shapes(tier):
    if tier == "thorough":
        return space.shapes(4, 3, 24)
    return space.shapes(3, 3, 12) + [(2, 1, 2, 2), (2, 2, 2, 2), (3, 2, 1, 2)]


def gen_cases(tier, seed):
    thorough = tier == "thorough"
    for s in _shapes(tier):
        n = prod(s)
        pats = space.patterns(n, 6 if thorough else 4)
        for pat in pats:
            k = sum(pat)
            base = {"shape": list(s), "pat": list(pat), "vseed": seed}
            if k == n or k == 0:
                yield {"check": "maps", "h": dict(base, kind="tensor")}
            ords = space.orders(k, 3)
            if k > 4:
                ords = ords[:2]
            for o in ords:
                yield {"check": "maps", "h": dict(base, kind="sptensor", order=list(o))}
        if n >= 2:
            yield {"check": "maps", "h": {"kind": "tensor", "shape": list(s), "vseed": seed, "grown": True}}
        # dense with a zero pattern too (one representative)
        if n >= 2:
            yield {"check": "maps", "h": {"kind": "tensor", "shape": list(s), "vseed": seed,
                                          "pat": [1 if i % 2 == 0 else 0 for i in range(n)]}}
    kshapes = [s for s in _shapes(tier) if prod(s) <= (24 if thorough else 12)] + [(2, 3, 4), (4, 3, 2)]
    for s in kshapes:
        for R, w in ((1, [2.0]), (2, [2.0, -1.0]), (2, [0.0, 3.0])):
            yield {"check": "permute_kt", "h": {"kind": "ktensor", "shape": list(s), "rank": R, "weights": w,
                                                "salt": seed, "vseed": seed}}
        for cs in itertools.product((1, 2), repeat=len(s)):
            for core in ("dense", "sparse"):
                yield {"check": "permute_kt", "h": {"kind": "ttensor", "shape": list(s), "core_shape": list(cs),
                                                    "core": core, "core_pat": None, "salt": seed, "vseed": seed}}
    if thorough:
        s = (2, 2, 2, 2, 2)
        yield {"check": "maps", "h": {"kind": "tensor", "shape": list(s), "vseed": seed}, "only": "permute"}
        yield {"check": "maps", "h": {"kind": "sptensor", "shape": list(s), "vseed": seed,
                                      "pat": [1 if i % 3 else 0 for i in range(32)], "order": None}, "only": "permute"}


def run_case(case, ctx):
    globals()["_run_" + case["check"]](case, ctx)


def _wf(p, op, res, variant):
    if O.kind_of(res) == "sptensor":
        probs = O.wf_sptensor(res)
        return p.expect(op, not probs, "malformed:" + ",".join(probs), str(probs), variant)
    return True


def _inv(order):
    inv = [0] * len(order)
    for k, p in enumerate(order):
        inv[p] = k
    return inv


def _run_maps(case, ctx):
    hd = case["h"]
    A = H.ref_array(hd)
    shape = A.shape
    N = len(shape)
    kind = hd["kind"]
    k = int(np.count_nonzero(A))
    ctx.state()
    only = case.get("only")
    nontrivial = A.size >= 2 and k >= 1
    # ---- permute
    perms = [tuple(case["order_arg"])] if "order_arg" in case else list(itertools.permutations(range(N)))
    if only in (None, "permute") and case.get("sub") in (None, "permute"):
        for order in perms:
            sub = dict(case, sub="permute", order_arg=list(order))
            p = Probe(ctx, sub)
            X = H.build(hd)
            want = rm.permute(A, order)
            ok, Y = p.call(kind + ".permute", lambda: X.permute(np.array(order, dtype=int)))
            if not ok:
                continue
            if not _wf(p, kind + ".permute", Y, ""):
                continue
            if nontrivial and list(order) != sorted(order):
                ctx.nontriv()
            good = p.expect_array(kind + ".permute", Y, want, kind=kind)
            good &= p.expect(kind + ".permute", O.pyshape(Y.shape) == want.shape, "wrong_shape", str(Y.shape))
            ctx.outcome(want)
            if good:
                ok, Z = p.call(kind + ".permute", lambda: Y.permute(np.array(_inv(order), dtype=int)), variant="inverse")
                if ok and _wf(p, kind + ".permute", Z, "inverse"):
                    p.expect_array(kind + ".permute", Z, A, variant="inverse", kind=kind)
            # list form of the argument
            ok, Y2 = p.call(kind + ".permute", lambda: H.build(hd).permute(list(order)), variant="list_arg")
            if ok and _wf(p, kind + ".permute", Y2, "list_arg"):
                p.expect_array(kind + ".permute", Y2, want, variant="list_arg")
    # ---- reshape (all modes)
    n = A.size
    if only is None and case.get("sub") in (None, "reshape"):
        targets = [tuple(case["target"])] if "target" in case else space.factorizations(n, 4)
        for tgt in targets:
            sub = dict(case, sub="reshape", target=list(tgt))
            p = Probe(ctx, sub)
            X = H.build(hd)
            want = rm.reshape_f(A, tgt)
            ok, Y = p.call(kind + ".reshape", lambda: X.reshape(tuple(tgt)))
            if not ok or not _wf(p, kind + ".reshape", Y, ""):
                continue
            if nontrivial and tuple(tgt) != shape:
                ctx.nontriv()
            good = p.expect_array(kind + ".reshape", Y, want, kind=kind)
            good &= p.expect(kind + ".reshape", O.pyshape(Y.shape) == tuple(tgt), "wrong_shape", str(Y.shape))
            if good:
                ok, Z = p.call(kind + ".reshape", lambda: Y.reshape(shape), variant="inverse")
                if ok and _wf(p, kind + ".reshape", Z, "inverse"):
                    p.expect_array(kind + ".reshape", Z, A, variant="inverse", kind=kind)
    # ---- sparse reshape of a sorted proper subset of modes
    if kind == "sptensor" and only is None and case.get("sub") in (None, "reshape_subset"):
        if "modes" in case:
            combos = [(tuple(case["modes"]), tuple(case["target"]))]
        else:
            combos = []
            # every ordered selection of modes (the listed order of old_modes defines the linear index of the block);
            # proper subsets in every order, and the full set in every non-identity order
            for m in range(1, N + 1):
                for modes in itertools.permutations(range(N), m):
                    if m == N and list(modes) == sorted(modes):
                        continue
                    sz = prod(shape[d] for d in modes)
                    for tgt in space.factorizations(sz, 3 if m < N else 2):
                        combos.append((modes, tgt))
        for modes, tgt in combos:
            sub = dict(case, sub="reshape_subset", modes=list(modes), target=list(tgt))
            p = Probe(ctx, sub)
            X = H.build(hd)
            keep = [d for d in range(N) if d not in modes]
            # reference: move the reshaped modes to the end, then reshape that trailing block in F order
            moved = rm.permute(A, keep + list(modes))
            kshape = [shape[d] for d in keep]
            want = np.zeros(kshape + list(tgt))
            mshape = [shape[d] for d in modes]
            for subk in (rm.cells(tuple(kshape)) if kshape else [()]):
                for l, subm in enumerate(rm.cells(tuple(mshape))):
                    want[tuple(subk) + space.sub_f(tuple(tgt), l)] = moved[tuple(subk) + tuple(subm)]
            ok, Y = p.call("sptensor.reshape", lambda: X.reshape(tuple(tgt), np.array(modes, dtype=int)), variant="subset")
            if not ok or not _wf(p, "sptensor.reshape", Y, "subset"):
                continue
            if nontrivial:
                ctx.nontriv()
            p.expect_array("sptensor.reshape", Y, want, variant="subset", kind="sptensor")
            p.expect("sptensor.reshape", O.pyshape(Y.shape) == want.shape, "wrong_shape", str(Y.shape), "subset")
            if len(modes) == 1:
                ok, Y = p.call("sptensor.reshape", lambda: H.build(hd).reshape(tuple(tgt), int(modes[0])), variant="subset_int")
                if ok and _wf(p, "sptensor.reshape", Y, "subset_int"):
                    p.expect_array("sptensor.reshape", Y, want, variant="subset_int")
    # ---- squeeze
    if only is None and case.get("sub") in (None, "squeeze"):
        sub = dict(case, sub="squeeze")
        p = Probe(ctx, sub)
        X = H.build(hd)
        want = rm.squeeze(A)
        ok, Y = p.call(kind + ".squeeze", lambda: X.squeeze())
        if ok and _wf(p, kind + ".squeeze", Y, ""):
            if nontrivial and 1 in shape:
                ctx.nontriv()
            if np.asarray(want).ndim == 0:
                try:
                    good = rm.same(np.asarray(O.value_of(Y)).reshape(()), np.asarray(want))
                except Exception:  # noqa: BLE001
                    good = False
                p.expect(kind + ".squeeze", good, "wrong_value", f"{Y!r} want {want!r}", "scalar")
            else:
                p.expect_array(kind + ".squeeze", Y, want, kind=kind)
                p.expect(kind + ".squeeze", O.pyshape(Y.shape) == want.shape, "wrong_shape", str(Y.shape))


def _run_permute_kt(case, ctx):
    hd = case["h"]
    A = H.ref_array(hd)
    N = A.ndim
    kind = hd["kind"]
    ctx.state()
    perms = [tuple(case["order_arg"])] if "order_arg" in case else list(itertools.permutations(range(N)))
    for order in perms:
        sub = dict(case, order_arg=list(order))
        p = Probe(ctx, sub)
        X = H.build(hd)
        want = rm.permute(A, order)
        ok, Y = p.call(kind + ".permute", lambda: X.permute(np.array(order, dtype=int)))
        if not ok:
            continue
        if A.size >= 2 and np.count_nonzero(A) and list(order) != sorted(order):
            ctx.nontriv()
        good = p.expect_array(kind + ".permute", Y, want, kind=kind)
        good &= p.expect(kind + ".permute", O.pyshape(Y.shape) == want.shape, "wrong_shape", str(Y.shape))
        # the receiver must still denote the same array
        p.expect_array(kind + ".permute", X, A, variant="receiver_after")
        if good:
            ok, Z = p.call(kind + ".permute", lambda: Y.permute(np.array(_inv(order), dtype=int)), variant="inverse")
            if ok:
                p.expect_array(kind + ".permute", Z, A, variant="inverse", kind=kind)
            ok, F = p.call(kind + ".full", lambda: Y.full(), variant="after_permute")
            if ok:
                p.expect_array(kind + ".full", F, want, variant="after_permute")
