"""C07 - permute, reshape, squeeze are exact index maps."""

import itertools
from math import prod

import numpy as np

from mc import holders as H
from mc import observe as O
from mc import refmodel as rm
from mc import space
from mc.props.C01 import Probe

ID = "C07"
RULE = ("product explorer: (holder of an explicit array) x (all N! mode orders | every ordered factorisation of the "
        "cell count into <= 4 factors | every ordered selection of modes as old_modes x every factorisation of its size | "
        "squeeze), plus the composites permute;permute^-1 and reshape;reshape^-1.  Cells hold distinct signed integers. "
        "Value/storage alphabet of the dense and sparse holders: float64 | int64 with every non-zero of magnitude "
        "2**53 + odd (not representable in float64) | int8 | bool; results are compared exactly in the integer domain "
        "(python int equality, no cast to float) and must keep the storage dtype of the receiver. "
        "Non-trivial: >= 2 cells, >= 1 non-zero and a non-identity map.")
ASSUMPTIONS = ["reference index formulas in mc/refmodel.py (loops) and the dtype-preserving loops _reshape_f/_squeeze here",
               "exact integer values (float64 for |v| < 2**53, int64 beyond)"]
BOUNDS = {
    "quick": "shapes order<=3,size<=3,cells<=12 + (2,1,2,2),(2,2,2,2),(3,2,1,2); patterns none/one/some/all (complete "
             "for <=4 cells); sparse stored orders all k! for k<=3; Kruskal rank 1-2, Tucker cores 1..2; storage "
             "float64 on everything, and int64-wide/int8/bool on every shape x (dense none/all/alternating | sparse every "
             "pattern with >=1 non-zero in the first and last stored order)",
    "thorough": "shapes order<=4,size<=3,cells<=24 (+(2,2,2,2,2) permute only); patterns complete for <=6 cells; "
                "non-float storages as in quick (patterns complete for <=4 cells)",
}
CHUNK = 8


WIDE = 2 ** 53   # |v| + WIDE is odd for the (odd) cell values, hence not a float64
STORAGES = [{"dtype": "int64", "wide": True}, {"dtype": "int8"}, {"dtype": "bool"}]


def _shapes(tier):
    if tier == "thorough":
        return space.shapes(4, 3, 24)
    return space.shapes(3, 3, 12) + [(2, 1, 2, 2), (2, 2, 2, 2), (3, 2, 1, 2)]


def gen_cases(tier, seed):
    thorough = tier == "thorough"
    for s in _shapes(tier):
        n = prod(s)
        pats = space.patterns(n, 6 if thorough else 4)
        for pat in pats:
            k = sum(pat)
            base = {"shape": list(s), "pat": list(pat), "vseed": seed}
            if k == n or k == 0:
                yield {"check": "maps", "h": dict(base, kind="tensor")}
            ords = space.orders(k, 3)
            if k > 4:
                ords = ords[:2]
            for o in ords:
                yield {"check": "maps", "h": dict(base, kind="sptensor", order=list(o))}
        # value / storage alphabet beyond float64 (the holder family is orthogonal to it: first and last stored order)
        alt = [1 if i % 2 == 0 else 0 for i in range(n)]
        for st in STORAGES:
            for pat in [[0] * n, [1] * n] + ([alt] if n >= 2 else []):
                yield {"check": "maps", "h": dict({"kind": "tensor", "shape": list(s), "pat": pat, "vseed": seed}, **st)}
            for pat in space.patterns(n, 4):
                k = sum(pat)
                if k == 0:
                    continue    # an empty sparse tensor stores no value at all
                ords = space.orders(k, 3)
                for o in ([ords[0]] if len(ords) == 1 else [ords[0], ords[-1]]):
                    yield {"check": "maps", "h": dict({"kind": "sptensor", "shape": list(s), "pat": list(pat),
                                                       "vseed": seed, "order": list(o)}, **st)}
        if n >= 2:
            yield {"check": "maps", "h": {"kind": "tensor", "shape": list(s), "vseed": seed, "grown": True}}
        # dense with a zero pattern too (one representative)
        if n >= 2:
            yield {"check": "maps", "h": {"kind": "tensor", "shape": list(s), "vseed": seed,
                                          "pat": [1 if i % 2 == 0 else 0 for i in range(n)]}}
    kshapes = [s for s in _shapes(tier) if prod(s) <= (24 if thorough else 12)] + [(2, 3, 4), (4, 3, 2)]
    for s in kshapes:
        for R, w in ((1, [2.0]), (2, [2.0, -1.0]), (2, [0.0, 3.0])):
            yield {"check": "permute_kt", "h": {"kind": "ktensor", "shape": list(s), "rank": R, "weights": w,
                                                "salt": seed, "vseed": seed}}
        for cs in itertools.product((1, 2), repeat=len(s)):
            for core in ("dense", "sparse"):
                yield {"check": "permute_kt", "h": {"kind": "ttensor", "shape": list(s), "core_shape": list(cs),
                                                    "core": core, "core_pat": None, "salt": seed, "vseed": seed}}
    if thorough:
        s = (2, 2, 2, 2, 2)
        yield {"check": "maps", "h": {"kind": "tensor", "shape": list(s), "vseed": seed}, "only": "permute"}
        yield {"check": "maps", "h": {"kind": "sptensor", "shape": list(s), "vseed": seed,
                                      "pat": [1 if i % 3 else 0 for i in range(32)], "order": None}, "only": "permute"}


def run_case(case, ctx):
    globals()["_run_" + case["check"]](case, ctx)


def _wf(p, op, res, variant):
    if O.kind_of(res) == "sptensor":
        probs = O.wf_sptensor(res)
        return p.expect(op, not probs, "malformed:" + ",".join(probs), str(probs), variant)
    return True


def _inv(order):
    inv = [0] * len(order)
    for k, p in enumerate(order):
        inv[p] = k
    return inv


# ---- value / storage alphabet: reference array in the storage dtype, fresh holder, exact comparison
def _ref(hd):
    """The array the holder denotes, in its storage dtype (int64 beyond 2**53 for "wide", so never through float)."""
    A = H.ref_array(hd)
    dt = hd.get("dtype")
    if not dt:
        return A
    if hd.get("wide"):
        W = np.zeros(A.shape, dtype=np.int64)
        for sub in rm.cells(A.shape):
            v = int(A[sub])
            W[sub] = 0 if v == 0 else (v + WIDE if v > 0 else v - WIDE)
        return W
    if dt == "bool":
        return A != 0
    W = A.astype(np.dtype(dt))
    assert rm.same(W, A), (dt, A.tolist())      # the storage dtype must hold the values exactly
    return W


def _build(hd):
    if not hd.get("wide"):
        return H.build(hd)
    import pyttb as ttb

    W = _ref(hd)
    if hd["kind"] == "tensor":
        return ttb.tensor(np.asfortranarray(W))
    subs, vals = H.sp_parts(W.shape, [int(v) for v in rm.vals_f(W)], hd.get("order"))
    return ttb.sptensor(np.array(subs, dtype=int).reshape(len(subs), W.ndim),
                        np.array(vals, dtype=np.int64).reshape(-1, 1), W.shape)


def _reshape_f(a, newshape):
    """Equal F-order linear index, dtype kept (rm.reshape_f goes through float64)."""
    a = np.asarray(a)
    newshape = tuple(int(x) for x in newshape)
    vals = rm.vals_f(a)
    y = np.zeros(newshape, dtype=a.dtype)
    for l, sub in enumerate(rm.cells(newshape)):
        y[sub] = vals[l]
    return y


def _squeeze(a):
    a = np.asarray(a)
    keep = [x for x in a.shape if x != 1]
    return _reshape_f(a, keep) if keep else np.asarray(a.reshape(())[()])


def _same(got, want):
    """rm.same, but exact in the integer domain: python int/float equality, no cast of integers to float64."""
    got, want = np.asarray(got), np.asarray(want)
    if got.shape != want.shape:
        return False
    if got.dtype.kind in "iu" or want.dtype.kind in "iu":
        return got.tolist() == want.tolist()
    return rm.same(got, want)


def _storage(obj):
    """dtype of the stored values (None when nothing is stored or for other kinds of result)."""
    knd = O.kind_of(obj)
    if knd == "tensor":
        return np.asarray(obj.data).dtype
    if knd == "sptensor" and isinstance(obj.vals, np.ndarray) and obj.vals.size:
        return obj.vals.dtype
    return None


def _expect(p, op, res, want, variant="", kind=None, rdt=None):
    """Probe.expect_array with the exact comparison; rdt = storage dtype of the receiver, which the result must keep."""
    try:
        got = O.dense_of(res)
    except Exception as e:  # noqa: BLE001
        p.ctx.fail(op, "malformed_result", f"{type(e).__name__}: {e}", variant=variant, case=p.case)
        return False
    if kind is not None and O.kind_of(res) != kind:
        p.ctx.fail(op, "wrong_type", f"{O.kind_of(res)} != {kind}", variant=variant, case=p.case)
        return False
    if not _same(got, want):
        p.ctx.fail(op, "wrong_value", f"got={np.asarray(got).tolist()} want={np.asarray(want).tolist()}",
                   variant=variant, case=p.case)
        return False
    sdt = _storage(res)
    if rdt is not None and sdt is not None and sdt != rdt:
        p.ctx.fail(op, "wrong_dtype", f"values stored as {sdt}, receiver stored {rdt}", variant=variant, case=p.case)
        return False
    return True


def _run_maps(case, ctx):
    hd = case["h"]
    A = _ref(hd)
    shape = A.shape
    N = len(shape)
    kind = hd["kind"]
    k = int(np.count_nonzero(A))
    ctx.state()
    only = case.get("only")
    nontrivial = A.size >= 2 and k >= 1
    rdt = _storage(_build(hd))      # storage dtype of the receiver as constructed
    # ---- permute
    perms = [tuple(case["order_arg"])] if "order_arg" in case else list(itertools.permutations(range(N)))
    if only in (None, "permute") and case.get("sub") in (None, "permute"):
        for order in perms:
            sub = dict(case, sub="permute", order_arg=list(order))
            p = Probe(ctx, sub)
            X = _build(hd)
            want = rm.permute(A, order)
            ok, Y = p.call(kind + ".permute", lambda: X.permute(np.array(order, dtype=int)))
            if not ok:
                continue
            if not _wf(p, kind + ".permute", Y, ""):
                continue
            if nontrivial and list(order) != sorted(order):
                ctx.nontriv()
            good = _expect(p, kind + ".permute", Y, want, kind=kind, rdt=rdt)
            good &= p.expect(kind + ".permute", O.pyshape(Y.shape) == want.shape, "wrong_shape", str(Y.shape))
            ctx.outcome(want)
            if good:
                ok, Z = p.call(kind + ".permute", lambda: Y.permute(np.array(_inv(order), dtype=int)), variant="inverse")
                if ok and _wf(p, kind + ".permute", Z, "inverse"):
                    _expect(p, kind + ".permute", Z, A, variant="inverse", kind=kind, rdt=rdt)
            # list form of the argument
            ok, Y2 = p.call(kind + ".permute", lambda: _build(hd).permute(list(order)), variant="list_arg")
            if ok and _wf(p, kind + ".permute", Y2, "list_arg"):
                _expect(p, kind + ".permute", Y2, want, variant="list_arg", rdt=rdt)
    # ---- reshape (all modes)
    n = A.size
    if only is None and case.get("sub") in (None, "reshape"):
        targets = [tuple(case["target"])] if "target" in case else space.factorizations(n, 4)
        for tgt in targets:
            sub = dict(case, sub="reshape", target=list(tgt))
            p = Probe(ctx, sub)
            X = _build(hd)
            want = _reshape_f(A, tgt)
            ok, Y = p.call(kind + ".reshape", lambda: X.reshape(tuple(tgt)))
            if not ok or not _wf(p, kind + ".reshape", Y, ""):
                continue
            if nontrivial and tuple(tgt) != shape:
                ctx.nontriv()
            good = _expect(p, kind + ".reshape", Y, want, kind=kind, rdt=rdt)
            good &= p.expect(kind + ".reshape", O.pyshape(Y.shape) == tuple(tgt), "wrong_shape", str(Y.shape))
            if good:
                ok, Z = p.call(kind + ".reshape", lambda: Y.reshape(shape), variant="inverse")
                if ok and _wf(p, kind + ".reshape", Z, "inverse"):
                    _expect(p, kind + ".reshape", Z, A, variant="inverse", kind=kind, rdt=rdt)
    # ---- sparse reshape of a sorted proper subset of modes
    if kind == "sptensor" and only is None and case.get("sub") in (None, "reshape_subset"):
        if "modes" in case:
            combos = [(tuple(case["modes"]), tuple(case["target"]))]
        else:
            combos = []
            # every ordered selection of modes (the listed order of old_modes defines the linear index of the block);
            # proper subsets in every order, and the full set in every non-identity order
            for m in range(1, N + 1):
                for modes in itertools.permutations(range(N), m):
                    if m == N and list(modes) == sorted(modes):
                        continue
                    sz = prod(shape[d] for d in modes)
                    for tgt in space.factorizations(sz, 3 if m < N else 2):
                        combos.append((modes, tgt))
        for modes, tgt in combos:
            sub = dict(case, sub="reshape_subset", modes=list(modes), target=list(tgt))
            p = Probe(ctx, sub)
            X = _build(hd)
            keep = [d for d in range(N) if d not in modes]
            # reference: move the reshaped modes to the end, then reshape that trailing block in F order
            moved = rm.permute(A, keep + list(modes))
            kshape = [shape[d] for d in keep]
            want = np.zeros(kshape + list(tgt), dtype=A.dtype)
            mshape = [shape[d] for d in modes]
            for subk in (rm.cells(tuple(kshape)) if kshape else [()]):
                for l, subm in enumerate(rm.cells(tuple(mshape))):
                    want[tuple(subk) + space.sub_f(tuple(tgt), l)] = moved[tuple(subk) + tuple(subm)]
            ok, Y = p.call("sptensor.reshape", lambda: X.reshape(tuple(tgt), np.array(modes, dtype=int)), variant="subset")
            if not ok or not _wf(p, "sptensor.reshape", Y, "subset"):
                continue
            if nontrivial:
                ctx.nontriv()
            _expect(p, "sptensor.reshape", Y, want, variant="subset", kind="sptensor", rdt=rdt)
            p.expect("sptensor.reshape", O.pyshape(Y.shape) == want.shape, "wrong_shape", str(Y.shape), "subset")
            if len(modes) == 1:
                ok, Y = p.call("sptensor.reshape", lambda: _build(hd).reshape(tuple(tgt), int(modes[0])), variant="subset_int")
                if ok and _wf(p, "sptensor.reshape", Y, "subset_int"):
                    _expect(p, "sptensor.reshape", Y, want, variant="subset_int", rdt=rdt)
    # ---- squeeze
    if only is None and case.get("sub") in (None, "squeeze"):
        sub = dict(case, sub="squeeze")
        p = Probe(ctx, sub)
        X = _build(hd)
        want = _squeeze(A)
        ok, Y = p.call(kind + ".squeeze", lambda: X.squeeze())
        if ok and _wf(p, kind + ".squeeze", Y, ""):
            if nontrivial and 1 in shape:
                ctx.nontriv()
            if np.asarray(want).ndim == 0:
                try:
                    good = _same(np.asarray(O.value_of(Y)).reshape(()), np.asarray(want))
                except Exception:  # noqa: BLE001
                    good = False
                p.expect(kind + ".squeeze", good, "wrong_value", f"{Y!r} want {want!r}", "scalar")
            else:
                _expect(p, kind + ".squeeze", Y, want, kind=kind, rdt=rdt)
                p.expect(kind + ".squeeze", O.pyshape(Y.shape) == want.shape, "wrong_shape", str(Y.shape))


def _run_permute_kt(case, ctx):
    hd = case["h"]
    A = H.ref_array(hd)
    N = A.ndim
    kind = hd["kind"]
    ctx.state()
    perms = [tuple(case["order_arg"])] if "order_arg" in case else list(itertools.permutations(range(N)))
    for order in perms:
        sub = dict(case, order_arg=list(order))
        p = Probe(ctx, sub)
        X = H.build(hd)
        want = rm.permute(A, order)
        ok, Y = p.call(kind + ".permute", lambda: X.permute(np.array(order, dtype=int)))
        if not ok:
            continue
        if A.size >= 2 and np.count_nonzero(A) and list(order) != sorted(order):
            ctx.nontriv()
        good = p.expect_array(kind + ".permute", Y, want, kind=kind)
        good &= p.expect(kind + ".permute", O.pyshape(Y.shape) == want.shape, "wrong_shape", str(Y.shape))
        # the receiver must still denote the same array
        p.expect_array(kind + ".permute", X, A, variant="receiver_after")
        if good:
            ok, Z = p.call(kind + ".permute", lambda: Y.permute(np.array(_inv(order), dtype=int)), variant="inverse")
            if ok:
                p.expect_array(kind + ".permute", Z, A, variant="inverse", kind=kind)
            ok, F = p.call(kind + ".full", lambda: Y.full(), variant="after_permute")
            if ok:
                p.expect_array(kind + ".full", F, want, variant="after_permute")
        # depth 2: write to every array the result stores; a permuted object is a value of its own, so the receiver
        # must keep denoting A
        ctx.tick()
        try:
            bufs = list(getattr(Y, "factor_matrices", []))
            if kind == "ktensor":
                bufs.append(Y.weights)
            elif hasattr(Y, "core"):
                bufs.append(Y.core.data if hasattr(Y.core, "data") else Y.core.vals)
            for b in bufs:
                if isinstance(b, np.ndarray) and b.size and b.flags.writeable:
                    b[...] = b + 1
        except Exception:  # noqa: BLE001
            continue
        p.expect_array(kind + ".permute", X, A, variant="receiver_after_write_to_result")
