"""C16 - export_data followed by import_data reproduces the object exactly.

Reference side (no pyttb): the value alphabet, the abstract *content* of an object
(plain numpy data), a printer and a strict parser of the `.tns` text grammar.

Every executed item is one object -> one file:

  build real object from content  ->  export_data  ->  read the text
      (a) the text must parse under the reference grammar (1-based subscripts) to the content
      (b) import_data(text) must be an object of the same type/shape/bits/order
  reference printer(content, base b, number style)  ->  import_data(index_base=b)
      (c) must be the same object again (separates importer from exporter defects)
"""

import math
import os
import re
import tempfile
from math import prod

import numpy as np

from mc import observe as O
from mc import space
from mc.engine import exc_symptom, short_tb

ID = "C16"
RULE = ("product explorer; one case = one object (or, for sparse tensors, one (shape, zero pattern) with every "
        "stored order inside) written with export_data to a file in a temporary directory (removed after the "
        "case), parsed with the reference grammar, read back with import_data, and additionally printed by "
        "the reference printer (index bases 0/1, three number styles) and read with import_data(index_base). "
        "Comparison is on type, shape, IEEE bit patterns and stored order.  Non-trivial: the file carries "
        ">= 2 values (dense/Kruskal/matrix) or >= 1 stored nonzero (sparse).")
ASSUMPTIONS = [
    "reference printer/parser of the .tns grammar in mc/props/C16.py; Python float()/'%.16e' are correctly rounded",
    "objects are observed through their attributes (data, subs/vals, weights/factor_matrices)",
    "value alphabet: every binary exponent -1074..1023 x a fixed set of mantissa patterns x both signs "
    "(plus +-0.0 for dense data), not all 2^64 doubles",
    "sparse tensors hold distinct in-range subscripts and non-zero values (no explicit zeros, no duplicates)",
]
BOUNDS = {
    "quick": "shapes order<=4,size<=3,cells<=24 (1-way and singleton modes included); alphabet 2098 exponents x 5 "
             "mantissas x 2 signs swept completely through each carrier (dense, sparse, Kruskal factors, Kruskal "
             "weights, matrix); dense layouts F/C-input/C-buffer x zero variants (none, +-0.0 mixed, all zero); "
             "sparse: all 2^n patterns for n<=6 cells (8 classes beyond), all k! stored orders for k<=3 (4 beyond), "
             "empty tensor; 5 long-mode sparse tensors (subscripts up to 2^40); index bases 0 and 1; Kruskal ranks 1-3 "
             "x 3 factor layouts; matrices 1..4 x 1..4 x 4 layouts",
    "thorough": "shapes order<=5,size<=3,cells<=48; alphabet with 32 mantissa patterns (133k doubles) swept through "
                "each carrier at two alignments; sparse: all patterns for n<=8 cells, all k! orders for k<=4, index "
                "bases 0,1,2; Kruskal ranks 1-4; matrices 1..6 x 1..6; 4 value windows per structural case",
}
CHUNK = 25

# ---------------------------------------------------------------------------
# value alphabet

_M_QUICK = [
    "0x1.0000000000000p+0",  # 1
    "0x1.0000000000001p+0",  # 1 + 2^-52
    "0x1.8000000000000p+0",  # 1.5
    "0x1.fffffffffffffp+0",  # 2 - 2^-52
    "0x1.3333333333334p+0",  # 1.2000000000000002 : needs 17 significant digits
]
_M_THOROUGH = _M_QUICK + [
    "0x1.5555555555555p+0", "0x1.aaaaaaaaaaaabp+0", "0x1.921fb54442d18p+0", "0x1.0000000000002p+0",
    "0x1.ffffffffffffep+0", "0x1.8000000000001p+0", "0x1.2345678abcdefp+0", "0x1.fedcba9876543p+0",
    "0x1.6a09e667f3bcdp+0", "0x1.999999999999ap+0", "0x1.0000000100001p+0",
]
# 16 further fixed patterns: the 52 fraction bits of k * golden ratio, k = 1..16 (a published, deterministic
# list - not sampling); they have no structure a decimal conversion could exploit
_M_THOROUGH += [(1.0 + math.floor(((k * 0.6180339887498949) % 1.0) * 2.0 ** 52) / 2.0 ** 52).hex() for k in range(1, 17)]
_ALPHA = {}


def alphabet(alpha):
    """Finite non-zero doubles: every binary exponent x mantissa patterns x both signs
    (subnormal results that coincide are kept once)."""
    if alpha not in _ALPHA:
        ms = [float.fromhex(m) for m in (_M_THOROUGH if alpha == "t" else _M_QUICK)]
        out, seen = [], set()
        for e in range(-1074, 1024):
            for m in ms:
                v = math.ldexp(m, e)
                if v == 0.0 or math.isinf(v) or v in seen:
                    continue
                seen.add(v)
                out.append(v)
                out.append(-v)
        _ALPHA[alpha] = out
    return _ALPHA[alpha]


def values(alpha, voff, stride, n):
    A = alphabet(alpha)
    L = len(A)
    return [A[(voff + stride * i) % L] for i in range(n)]


def _exps(vals):
    return {math.frexp(v)[1] for v in vals if v != 0}


# ---------------------------------------------------------------------------
# reference grammar: printer and strict parser


class Grammar(Exception):
    pass


def _num(v, style):
    v = float(v)
    if style == "repr":
        return repr(v)
    return "%.16e" % v


def ref_print(c, base=1, style="e16"):
    """Text of a content under the .tns grammar.  style: e16 (canonical), repr (shortest
    round-trip decimals, matrices row by row), matlab (canonical numbers, trailing blanks as
    written by the MATLAB toolbox)."""
    t = " " if style == "matlab" else ""
    kind = c["kind"]
    L = []
    if kind == "tensor":
        L += ["tensor", f"{len(c['shape'])}{t}", " ".join(str(s) for s in c["shape"]) + t]
        L += [_num(v, style) for v in c["vals"]]
    elif kind == "matrix":
        L += ["matrix", f"2{t}", " ".join(str(s) for s in c["shape"]) + t]
        if style == "repr":
            L += [" ".join(_num(v, style) for v in row) for row in c["data"]]
        else:
            L += [_num(v, style) for row in c["data"] for v in row]
    elif kind == "sptensor":
        L += ["sptensor", f"{len(c['shape'])}{t}", " ".join(str(s) for s in c["shape"]) + t, f"{len(c['vals'])}{t}"]
        for row, v in zip(c["subs"], c["vals"]):
            L.append(" ".join(str(int(i) + base) for i in row) + " " + _num(v, style))
    elif kind == "ktensor":
        R = len(c["weights"])
        L += ["ktensor", f"{len(c['shape'])}{t}", " ".join(str(s) for s in c["shape"]) + t, f"{R}{t}",
              " ".join(_num(w, style) for w in c["weights"]) + t]
        for f in c["factors"]:
            L += ["matrix", f"2{t}", f"{f.shape[0]} {f.shape[1]}{t}"]
            L += [" ".join(_num(v, style) for v in row) + t for row in f]
    else:
        raise ValueError(kind)
    return "\n".join(L) + "\n"


_FLOAT = re.compile(r"[-+]?(?:\d+\.?\d*|\.\d+)(?:[eE][-+]?\d+)?\Z")
_INT = re.compile(r"[-+]?\d+\Z")


def _f(tok):
    if not _FLOAT.match(tok):
        raise Grammar(f"not a decimal number: {tok!r}")
    return float(tok)


def _i(tok):
    if not _INT.match(tok):
        raise Grammar(f"not an integer: {tok!r}")
    return int(tok)


class _Lines:
    def __init__(self, text):
        if not text.endswith("\n"):
            raise Grammar("text does not end with a newline")
        self.lines = text.split("\n")[:-1]
        self.pos = 0

    def next(self, what):
        if self.pos >= len(self.lines):
            raise Grammar(f"file ends before {what}")
        ln = self.lines[self.pos]
        self.pos += 1
        return ln.split()

    def ints(self, n, what):
        toks = self.next(what)
        if n is not None and len(toks) != n:
            raise Grammar(f"{what}: expected {n} integers, line has {len(toks)} tokens")
        return [_i(t) for t in toks]

    def floats(self, n, what):
        toks = self.next(what)
        if len(toks) != n:
            raise Grammar(f"{what}: expected {n} numbers, line has {len(toks)} tokens")
        return [_f(t) for t in toks]

    def rest_tokens(self):
        toks = " ".join(self.lines[self.pos:]).split()
        self.pos = len(self.lines)
        return toks

    def end(self):
        extra = [ln for ln in self.lines[self.pos:] if ln.strip()]
        if extra:
            raise Grammar(f"{len(extra)} unexpected line(s) after the data, first {extra[0][:40]!r}")


def _shape_header(ls, what):
    (n,) = ls.ints(1, what + " order")
    if n < 1:
        raise Grammar("order < 1")
    shape = tuple(ls.ints(n, what + " sizes"))
    if any(s < 1 for s in shape):
        raise Grammar(f"non-positive size in {shape}")
    return shape


def ref_parse(text):
    """Strict parser.  Subscripts of sparse tensors are returned as written."""
    ls = _Lines(text)
    head = ls.next("type line")
    if len(head) != 1 or head[0] not in ("tensor", "sptensor", "ktensor", "matrix"):
        raise Grammar(f"bad type line {head}")
    kind = head[0]
    shape = _shape_header(ls, kind)
    if kind in ("tensor", "matrix"):
        if kind == "matrix" and len(shape) != 2:
            raise Grammar("matrix of order != 2")
        toks = ls.rest_tokens()
        if len(toks) != prod(shape):
            raise Grammar(f"{len(toks)} values for {prod(shape)} cells")
        vals = np.array([_f(t) for t in toks], dtype=np.float64)
        if kind == "tensor":
            return {"kind": kind, "shape": shape, "vals": vals}
        return {"kind": kind, "shape": shape, "data": vals.reshape(shape)}
    if kind == "sptensor":
        (k,) = ls.ints(1, "nnz")
        if k < 0:
            raise Grammar("negative nnz")
        subs = np.zeros((k, len(shape)), dtype=np.int64)
        vals = np.zeros(k, dtype=np.float64)
        for j in range(k):
            toks = ls.next(f"nonzero {j + 1} of {k}")
            if len(toks) != len(shape) + 1:
                raise Grammar(f"nonzero line with {len(toks)} tokens for order {len(shape)}")
            subs[j] = [_i(t) for t in toks[:-1]]
            vals[j] = _f(toks[-1])
        ls.end()
        return {"kind": kind, "shape": shape, "subs": subs, "vals": vals}
    # ktensor
    (R,) = ls.ints(1, "rank")
    if R < 1:
        raise Grammar("rank < 1")
    weights = np.array(ls.floats(R, "weights"), dtype=np.float64)
    factors = []
    for n, s in enumerate(shape):
        h = ls.next(f"factor {n} type line")
        if h != ["matrix"]:
            raise Grammar(f"factor {n}: expected 'matrix', got {h}")
        fs = _shape_header(ls, f"factor {n}")
        if fs != (s, R):
            raise Grammar(f"factor {n} has size {fs}, expected {(s, R)}")
        rows = [ls.floats(R, f"factor {n} row {i}") for i in range(s)]
        factors.append(np.array(rows, dtype=np.float64).reshape(s, R))
    ls.end()
    return {"kind": kind, "shape": shape, "weights": weights, "factors": factors}


# ---------------------------------------------------------------------------
# contents, comparison, observation


def _bits(a):
    return np.ascontiguousarray(np.asarray(a, dtype=np.float64)).view(np.uint64)


def _bits_diff(want, got, what):
    want, got = np.asarray(want), np.asarray(got)
    if want.shape != got.shape:
        return ("wrong_shape", f"{what}: shape {got.shape}, expected {want.shape}")
    bw, bg = _bits(want).reshape(-1), _bits(got).reshape(-1)
    bad = np.nonzero(bw != bg)[0]
    if len(bad):
        j = int(bad[0])
        w, g = float(want.reshape(-1)[j]), float(got.reshape(-1)[j])
        return ("wrong_value", f"{what}[{j}]: got {g!r} ({g.hex()}), expected {w!r} ({w.hex()}); "
                               f"{len(bad)} of {len(bw)} differ")
    return None


def content_diff(want, got):
    """None or (symptom, detail).  Arrays in `got` are plain numpy data."""
    if got["kind"] != want["kind"]:
        return ("wrong_type", f"{got['kind']} instead of {want['kind']}")
    if tuple(got["shape"]) != tuple(want["shape"]):
        return ("wrong_shape", f"{tuple(got['shape'])} instead of {tuple(want['shape'])}")
    k = want["kind"]
    if k == "tensor":
        return _bits_diff(want["vals"], got["vals"], "values (first index fastest)")
    if k == "matrix":
        return _bits_diff(want["data"], got["data"], "matrix entries (row-major position)")
    if k == "sptensor":
        ws, gs = np.asarray(want["subs"]), np.asarray(got["subs"])
        if len(got["vals"]) != len(want["vals"]) or gs.shape[0] != ws.shape[0]:
            return ("wrong_nnz", f"{len(got['vals'])} stored entries instead of {len(want['vals'])}")
        if ws.shape[0] == 0:
            return None
        if gs.shape != ws.shape:
            return ("wrong_shape", f"subs {gs.shape} instead of {ws.shape}")
        same_subs = np.array_equal(ws, gs)
        d = _bits_diff(want["vals"], got["vals"], "vals")
        if same_subs and d is None:
            return None
        wl = sorted((tuple(r), int(b)) for r, b in zip(ws.tolist(), _bits(want["vals"]).tolist()))
        gl = sorted((tuple(r), int(b)) for r, b in zip(gs.tolist(), _bits(got["vals"]).tolist()))
        if wl == gl:
            return ("wrong_order", f"stored order {gs.tolist()} instead of {ws.tolist()}")
        if not same_subs:
            return ("wrong_subs", f"subs {gs.tolist()} instead of {ws.tolist()}")
        return d
    if k == "ktensor":
        d = _bits_diff(want["weights"], got["weights"], "weights")
        if d:
            return d
        if len(got["factors"]) != len(want["factors"]):
            return ("wrong_shape", f"{len(got['factors'])} factors")
        for n, (fw, fg) in enumerate(zip(want["factors"], got["factors"])):
            d = _bits_diff(fw, fg, f"factor {n} (row-major position)")
            if d:
                return d
        return None
    raise ValueError(k)


class Malformed(Exception):
    pass


def _f64(a, what):
    if not isinstance(a, np.ndarray):
        raise Malformed(f"{what} is {type(a).__name__}, not ndarray")
    if a.dtype != np.float64:
        raise Malformed(f"{what} has dtype {a.dtype}")
    return a


def observe(obj):
    """Content of a real object, read from its attributes."""
    import pyttb as ttb

    if isinstance(obj, ttb.tensor):
        d = _f64(obj.data, "tensor.data")
        shape = O.pyshape(obj.shape)
        if O.pyshape(d.shape) != shape:
            raise Malformed(f"tensor.data shape {d.shape} != tensor.shape {shape}")
        return {"kind": "tensor", "shape": shape, "vals": d.flatten(order="F")}
    if isinstance(obj, ttb.sptensor):
        probs = O.wf_sptensor(obj, allow_explicit_zero=True)
        if probs:
            raise Malformed("sptensor: " + ",".join(probs))
        shape = O.pyshape(obj.shape)
        if obj.vals.size == 0:
            return {"kind": "sptensor", "shape": shape, "subs": np.zeros((0, len(shape)), dtype=np.int64),
                    "vals": np.zeros(0)}
        return {"kind": "sptensor", "shape": shape, "subs": np.asarray(obj.subs).astype(np.int64),
                "vals": _f64(obj.vals, "sptensor.vals").reshape(-1)}
    if isinstance(obj, ttb.ktensor):
        w = _f64(obj.weights, "ktensor.weights")
        if w.ndim != 1:
            raise Malformed(f"weights of shape {w.shape}")
        fs = []
        for n, f in enumerate(obj.factor_matrices):
            f = _f64(f, f"factor {n}")
            if f.ndim != 2 or f.shape[1] != w.shape[0]:
                raise Malformed(f"factor {n} of shape {f.shape} for rank {w.shape[0]}")
            fs.append(np.ascontiguousarray(f))
        shape = O.pyshape(obj.shape)
        if shape != tuple(f.shape[0] for f in fs):
            raise Malformed(f"ktensor.shape {shape} vs factors {[f.shape for f in fs]}")
        return {"kind": "ktensor", "shape": shape, "weights": w, "factors": fs}
    if isinstance(obj, np.ndarray):
        a = _f64(obj, "matrix")
        if a.ndim != 2:
            raise Malformed(f"matrix of ndim {a.ndim}")
        return {"kind": "matrix", "shape": O.pyshape(a.shape), "data": np.ascontiguousarray(a)}
    return {"kind": type(obj).__name__, "shape": ()}


def build(c, layout):
    """Fresh real object for a content."""
    import pyttb as ttb

    k = c["kind"]
    if k == "tensor":
        a = np.array(c["vals"], dtype=np.float64).reshape(c["shape"], order="F")
        if layout == "Cin":        # constructed from a C-ordered array (constructor re-lays it out)
            return ttb.tensor(np.ascontiguousarray(a))
        T = ttb.tensor(np.asfortranarray(a))
        if layout == "Cbuf":       # data buffer replaced by a C-ordered one afterwards
            T.data = np.ascontiguousarray(a)
        return T
    if k == "sptensor":
        if len(c["vals"]) == 0:
            return ttb.sptensor(shape=tuple(c["shape"]))
        return ttb.sptensor(np.array(c["subs"], dtype=int).reshape(len(c["vals"]), len(c["shape"])),
                            np.array(c["vals"], dtype=np.float64).reshape(-1, 1), tuple(c["shape"]))
    if k == "ktensor":
        w = np.array(c["weights"], dtype=np.float64)
        if layout == "Cin":
            return ttb.ktensor([np.ascontiguousarray(f).copy() for f in c["factors"]], w)
        K = ttb.ktensor([np.asfortranarray(f).copy(order="F") for f in c["factors"]], w)
        if layout == "Cbuf":
            for n, f in enumerate(c["factors"]):
                K.factor_matrices[n] = np.ascontiguousarray(f).copy()
        return K
    if k == "matrix":
        a = np.array(c["data"], dtype=np.float64)
        r, cc = a.shape
        if layout == "F":
            return np.asfortranarray(a)
        if layout == "strided":    # every second row / column of a larger buffer
            big = np.full((2 * r, 2 * cc), 99.0)
            big[::2, ::2] = a
            return big[::2, ::2]
        if layout == "negstride":
            return np.ascontiguousarray(a[::-1, ::-1])[::-1, ::-1]
        return np.ascontiguousarray(a)
    raise ValueError(k)


# contents from descriptors ---------------------------------------------------


def c_tensor(shape, vals):
    return {"kind": "tensor", "shape": tuple(shape), "vals": np.array(vals, dtype=np.float64)}


def c_matrix(shape, vals):
    return {"kind": "matrix", "shape": tuple(shape), "data": np.array(vals, dtype=np.float64).reshape(shape)}


def c_sptensor(shape, pat, vals_nz, order):
    cl = space.cells(tuple(shape))
    nzc = [cl[l] for l in range(len(pat)) if pat[l]]
    subs = [list(nzc[i]) for i in order]
    v = [vals_nz[i] for i in order]
    return {"kind": "sptensor", "shape": tuple(shape),
            "subs": np.array(subs, dtype=np.int64).reshape(len(v), len(shape)), "vals": np.array(v, dtype=np.float64)}


def c_ktensor(shape, R, vals):
    """vals: R weights followed by the factors row by row."""
    w = np.array(vals[:R], dtype=np.float64)
    p, fs = R, []
    for s in shape:
        fs.append(np.array(vals[p:p + s * R], dtype=np.float64).reshape(s, R))
        p += s * R
    return {"kind": "ktensor", "shape": tuple(shape), "weights": w, "factors": fs}


# ---------------------------------------------------------------------------
# case generation


_BIG = [
    ((12,), [(11,), (0,), (9,)]),
    ((10, 11), [(9, 10), (0, 0), (9, 0), (0, 10)]),
    ((100, 3, 12), [(99, 2, 11), (0, 0, 0), (10, 1, 9)]),
    ((1, 2 ** 31 + 5), [(0, 2 ** 31 + 4), (0, 0), (0, 2 ** 31)]),
    ((2 ** 40, 2), [(2 ** 40 - 1, 1), (7, 0), (123456789012, 1)]),
]


def _sweep_plan(alpha, seed, thorough):
    """(carrier, voff) windows that tile the whole alphabet through each carrier."""
    L = len(alphabet(alpha))
    out = []
    aligns = (0, 11) if thorough else (0,)
    for al in aligns:
        start = (5 * seed + al) % L
        for carrier, per in (("tensor", 24), ("sptensor", 24), ("matrix", 24), ("ktensor_f", 24), ("ktensor_w", 24)):
            nwin = -(-L // per)
            for w in range(nwin):
                out.append((carrier, (start + w * per) % L))
    return out


def gen_cases(tier, seed):
    thorough = tier == "thorough"
    alpha = "t" if thorough else "q"
    L = len(alphabet(alpha))
    shapes = space.shapes(5, 3, 48) if thorough else space.shapes(4, 3, 24)
    strides = [211, 1, 1777, 10007] if thorough else [211, 1]
    # dense tensors: shapes x layouts x zero variants x value windows
    for si, s in enumerate(shapes):
        for layout in ("F", "Cin", "Cbuf"):
            for zeros in ("none", "mixed", "all"):
                if zeros == "all" and layout != "F":
                    continue
                for w, st in enumerate(strides):
                    if zeros == "all" and w:
                        continue
                    yield {"check": "dense", "shape": list(s), "layout": layout, "zeros": zeros, "alpha": alpha,
                           "voff": (977 * seed + 131 * si + 5003 * w) % L, "stride": st}
    # matrices
    mmax = 6 if thorough else 4
    mi = 0
    for r in range(1, mmax + 1):
        for c in range(1, mmax + 1):
            for layout in ("C", "F", "strided", "negstride"):
                for w, st in enumerate(strides):
                    mi += 1
                    yield {"check": "matrix", "shape": [r, c], "layout": layout, "alpha": alpha,
                           "voff": (613 * seed + 89 * mi) % L, "stride": st}
    # Kruskal tensors
    ki = 0
    for s in shapes:
        for R in range(1, (4 if thorough else 3) + 1):
            for layout in ("F", "Cin", "Cbuf"):
                for w, st in enumerate(strides[: 2 if thorough else 1]):
                    ki += 1
                    yield {"check": "kruskal", "shape": list(s), "rank": R, "layout": layout, "alpha": alpha,
                           "voff": (389 * seed + 157 * ki) % L, "stride": st}
    # sparse tensors: one case per (shape, pattern), all stored orders inside
    pi = 0
    for s in shapes:
        n = prod(s)
        for pat in space.patterns(n, 8 if thorough else 6):
            pi += 1
            yield {"check": "sparse", "shape": list(s), "pat": list(pat), "alpha": alpha,
                   "voff": (467 * seed + 61 * pi) % L, "stride": strides[pi % len(strides)],
                   "orders_upto": 4 if thorough else 3, "bases": [0, 1, 2] if thorough else [0, 1]}
    # sparse tensors with long modes: multi-digit subscripts, subscripts beyond 2^31
    for bi, (s, subs) in enumerate(_BIG):
        for rev in (False, True):
            yield {"check": "sparse_big", "shape": list(s), "subs": [list(r) for r in (subs[::-1] if rev else subs)],
                   "alpha": alpha, "voff": (271 * seed + 97 * bi) % L, "stride": 211, "bases": [0, 1]}
    # outside the quantifier (order 0, modes of size 0): executed, recorded, never asserted
    for name in ("empty_tensor", "zero_size_tensor", "zero_size_matrix"):
        yield {"check": "edge", "name": name}
    # alphabet sweep
    for carrier, voff in _sweep_plan(alpha, seed, thorough):
        yield {"check": "sweep", "carrier": carrier, "alpha": alpha, "voff": voff}


# ---------------------------------------------------------------------------
# execution

_JUNK = "tensor\n1\n40\n" + "7.0000000000000000e+00\n" * 40 + "\n"


class Bench:
    def __init__(self, ctx, tmp):
        self.ctx, self.tmp = ctx, tmp
        self.path = os.path.join(tmp, "x.tns")
        self.rpath = os.path.join(tmp, "ref.tns")

    def _import(self, sub, path, variant, want, asserted=True, **kw):
        import pyttb as ttb

        ctx = self.ctx
        ctx.tick()
        sub = dict(sub, focus=variant)  # the replay runs this step only (plus the export it depends on)
        try:
            R = ttb.import_data(path, **kw)
        except Exception as e:  # noqa: BLE001
            if asserted:
                ctx.fail("import_data", exc_symptom(e), short_tb(e), variant=variant, case=sub)
            return False
        try:
            got = observe(R)
        except Malformed as m:
            if asserted:
                ctx.fail("import_data", "malformed:result", str(m), variant=variant, case=sub)
            return False
        d = content_diff(want, got)
        if d and asserted:
            ctx.fail("import_data", d[0], d[1], variant=variant, case=sub)
        return d is None

    def cycle(self, sub, c, layout, refs, check_mutation=True):
        """One object through export/import and the reference-printed files."""
        import pyttb as ttb

        ctx = self.ctx
        kind = c["kind"]
        ctx.state()
        obj = build(c, layout)
        d0 = content_diff(c, observe(obj))
        if d0:  # the harness could not even build the object it describes
            raise AssertionError(f"holder does not denote its content: {d0}")
        snap = O.snapshot([obj]) if check_mutation else None
        # the target path already holds a longer valid file: export must replace it
        with open(self.path, "w") as fh:
            fh.write(_JUNK)
        ctx.tick()
        text = None
        try:
            ttb.export_data(obj, self.path)
        except Exception as e:  # noqa: BLE001
            ctx.fail("export_data", exc_symptom(e), short_tb(e), variant=kind, case=sub)
        else:
            with open(self.path) as fh:
                text = fh.read()
        text_ok = False
        if text is not None:
            ctx.outcome(text.encode())
            if check_mutation:
                ch = O.diff_snapshot(snap, [obj])
                if ch:
                    ctx.fail("export_data", "operand_mutated", str(ch), variant=kind, case=sub)
            try:
                p = ref_parse(text)
                if p["kind"] == "sptensor":
                    if p["subs"].size and (p["subs"].min() < 1 or np.any(p["subs"] > np.array(p["shape"])[None, :])):
                        raise Grammar(f"subscripts are not 1-based within the sizes: {p['subs'].tolist()}")
                    p = dict(p, subs=p["subs"] - 1)
            except Grammar as g:
                ctx.fail("export_data", "malformed:text", f"{g} :: {text[:300]!r}", variant=kind, case=sub)
            else:
                d = content_diff(c, p)
                if d:
                    ctx.fail("export_data", "text_" + d[0], d[1] + f" :: {text[:200]!r}", variant=kind, case=sub)
                else:
                    text_ok = True
                    if text == ref_print(c) or text == ref_print(c) + "\n":
                        ctx.flag("text_identical_to_reference_printer:" + kind)
                    else:
                        ctx.count("text_differs_from_reference_printer(values equal):" + kind)
            # round trip proper; a bad text is reported once (at export), not again at import
            ok = self._import(sub, self.path, kind + ":rt", c, asserted=text_ok)
            if text_ok and ok:
                ctx.count("roundtrips_exact:" + kind)
            if text_ok and kind != "sptensor":
                # the index base concerns subscripts only
                self._import(sub, self.path, kind + ":rt", c, index_base=0)
        focus = sub.get("focus")
        for base, style in refs:
            if focus and focus != f"{kind}:ref{base}":
                continue
            with open(self.rpath, "w") as fh:
                fh.write(ref_print(c, base, style))
            kw = {} if base == 1 and style != "repr" else {"index_base": base}
            self._import(sub, self.rpath, f"{kind}:ref{base}", c, **kw)
            ctx.flag(f"reference_file:base{base}:{style}")
        return text_ok


_REFS_DENSE = [(1, "e16"), (0, "repr"), (1, "matlab")]


def _tmp_root():
    """Memory-backed scratch space when the platform has one (unlink on the disk is ~5 ms here)."""
    d = os.environ.get("VERIF_TMPDIR")
    if d and os.path.isdir(d):
        return d
    if os.path.isdir("/dev/shm") and os.access("/dev/shm", os.W_OK | os.X_OK):
        return "/dev/shm"
    return None


def run_case(case, ctx):
    with tempfile.TemporaryDirectory(prefix="verif_C16_", dir=_tmp_root()) as tmp:
        globals()["_run_" + case["check"]](case, ctx, Bench(ctx, tmp))


def _note_values(ctx, vals):
    ex = _exps(vals)
    if any(e <= -1022 for e in ex):
        ctx.flag("subnormal_value")
    if any(e == 1024 for e in ex):
        ctx.flag("largest_binade")
    if any(v < 0 for v in vals):
        ctx.flag("negative_value")


def _run_dense(case, ctx, b):
    shape = tuple(case["shape"])
    n = prod(shape)
    if case["zeros"] == "all":
        vals = [0.0 if l % 2 == 0 else -0.0 for l in range(n)]
    else:
        vals = values(case["alpha"], case["voff"], case["stride"], n)
        if case["zeros"] == "mixed":
            vals = [(-0.0 if l % 5 == 1 else 0.0 if l % 5 == 3 else v) for l, v in enumerate(vals)]
    if any(v == 0 and math.copysign(1, v) < 0 for v in vals):
        ctx.flag("negative_zero_dense")
    _note_values(ctx, vals)
    if len(shape) == 1:
        ctx.flag("one_way")
    if 1 in shape and len(shape) > 1:
        ctx.flag("singleton_mode")
    b.cycle(case, c_tensor(shape, vals), case["layout"], _REFS_DENSE)
    if n >= 2:
        ctx.nontriv()


def _run_matrix(case, ctx, b):
    shape = tuple(case["shape"])
    vals = values(case["alpha"], case["voff"], case["stride"], prod(shape))
    _note_values(ctx, vals)
    if shape[0] != shape[1]:
        ctx.flag("nonsquare_matrix")
    b.cycle(case, c_matrix(shape, vals), case["layout"], _REFS_DENSE)
    if prod(shape) >= 2:
        ctx.nontriv()


def _run_kruskal(case, ctx, b):
    shape = tuple(case["shape"])
    R = case["rank"]
    vals = values(case["alpha"], case["voff"], case["stride"], R + R * sum(shape))
    _note_values(ctx, vals)
    if any(s != R and s > 1 and R > 1 for s in shape):
        ctx.flag("nonsquare_factor")
    if len(shape) == 1:
        ctx.flag("one_way_kruskal")
    b.cycle(case, c_ktensor(shape, R, vals), case["layout"], _REFS_DENSE)
    ctx.nontriv()


def _run_sparse(case, ctx, b):
    shape = tuple(case["shape"])
    pat = case["pat"]
    k = sum(pat)
    nzvals = values(case["alpha"], case["voff"], case["stride"], k)
    _note_values(ctx, nzvals)
    if "order" in case:
        orders = [tuple(case["order"])]
    else:
        orders = space.orders(k, case.get("orders_upto", 3))
    refs = []
    for base in case.get("bases", [0, 1]):
        refs.append((base, "e16"))
    refs += [(0, "repr"), (1, "matlab")]
    for o in orders:
        sub = dict(case, order=list(o))
        c = c_sptensor(shape, pat, nzvals, o)
        if k == 0:
            ctx.flag("empty_sptensor")
        if list(o) != sorted(o):
            ctx.flag("unsorted_stored_order")
        b.cycle(sub, c, None, refs)
        if k >= 1:
            ctx.nontriv()
    # explicitly stored zeros (a finite double like any other): every stored entry must survive the round trip
    if k >= 1 and "order" not in case:
        ident = tuple(range(k))
        for zpos in sorted({0, k - 1}):
            for zval in (0.0, -0.0):
                vals2 = list(nzvals)
                vals2[zpos] = zval
                sub = dict(case, order=list(ident), stored_zero=[zpos, "neg" if str(zval).startswith("-") else "pos"])
                ctx.flag("explicit_stored_zero")
                b.cycle(sub, c_sptensor(shape, pat, vals2, ident), None, refs)
    elif "stored_zero" in case:
        zpos, sign = case["stored_zero"]
        vals2 = list(nzvals)
        vals2[zpos] = -0.0 if sign == "neg" else 0.0
        b.cycle(case, c_sptensor(shape, pat, vals2, tuple(case["order"])), None, refs)


def _run_sparse_big(case, ctx, b):
    shape = tuple(case["shape"])
    subs = case["subs"]
    vals = values(case["alpha"], case["voff"], case["stride"], len(subs))
    c = {"kind": "sptensor", "shape": shape, "subs": np.array(subs, dtype=np.int64).reshape(len(subs), len(shape)),
         "vals": np.array(vals, dtype=np.float64)}
    if max(shape) > 2 ** 31:
        ctx.flag("subscript_beyond_2^31")
    refs = [(base, "e16") for base in case.get("bases", [0, 1])] + [(0, "repr"), (1, "matlab")]
    b.cycle(case, c, None, refs)
    ctx.nontriv()


def _run_edge(case, ctx, b):
    """Objects outside the property's quantifier: what happens is recorded, not judged."""
    import pyttb as ttb

    ctx.inadm()
    ctx.state()
    obj = {"empty_tensor": lambda: ttb.tensor(), "zero_size_tensor": lambda: ttb.tensor(np.zeros((0, 3))),
           "zero_size_matrix": lambda: np.zeros((0, 3))}[case["name"]]()
    ctx.tick()
    try:
        ttb.export_data(obj, b.path)
        R = ttb.import_data(b.path)
        same = type(R) is type(obj) and O.pyshape(R.shape) == O.pyshape(obj.shape)
        res = "roundtrip_same_type_and_shape" if same else "roundtrip_differs"
    except Exception as e:  # noqa: BLE001
        res = "raises_" + type(e).__name__
    ctx.count(f"edge:{case['name']}:{res}")
    ctx.outcome([case["name"], res])


def _run_sweep(case, ctx, b):
    carrier, alpha, voff = case["carrier"], case["alpha"], case["voff"]
    refs = [(1, "e16"), (1, "repr")]
    if carrier == "tensor":
        vals = values(alpha, voff, 1, 24)
        c = c_tensor((4, 3, 2), vals)
        layout = "F"
    elif carrier == "matrix":
        vals = values(alpha, voff, 1, 24)
        c = c_matrix((4, 6), vals)
        layout = "C"
    elif carrier == "sptensor":
        vals = values(alpha, voff, 1, 24)
        # all 24 cells stored, in reversed first-index-fastest order
        c = c_sptensor((4, 3, 2), [1] * 24, vals, list(range(23, -1, -1)))
        layout = None
        refs = [(1, "e16"), (0, "repr")]
    elif carrier == "ktensor_f":
        # weights: a window elsewhere; factors 4x4 and 2x4 carry the swept window
        L = len(alphabet(alpha))
        vals = values(alpha, voff, 1, 24)
        c = c_ktensor((4, 2), 4, values(alpha, (voff + L // 2) % L, 1, 4) + vals)
        layout = "F"
    elif carrier == "ktensor_w":
        L = len(alphabet(alpha))
        # one-way, rank 24: the 24 weights carry the swept window
        vals = values(alpha, voff, 1, 24)
        c = c_ktensor((1,), 24, vals + values(alpha, (voff + L // 3) % L, 1, 24))
        layout = "F"
    else:
        raise ValueError(carrier)
    _note_values(ctx, vals)
    ok = b.cycle(case, c, layout, refs, check_mutation=False)
    if ok:
        ctx.count("alphabet_values_written:" + carrier, len(vals))
    ctx.nontriv()


# ---------------------------------------------------------------------------
# vacuity control


_REQUIRED_FLAGS = ["subnormal_value", "largest_binade", "negative_value", "negative_zero_dense", "one_way",
                   "singleton_mode", "nonsquare_matrix", "nonsquare_factor", "one_way_kruskal", "empty_sptensor",
                   "unsorted_stored_order", "reference_file:base0:e16", "reference_file:base1:e16",
                   "subscript_beyond_2^31"]


def finalize(tier, seed, totals):
    """The run is only meaningful if the interesting corners were reached; a missing one is a
    harness failure (reported like a violation so that it cannot go unnoticed)."""
    for f in _REQUIRED_FLAGS:
        if f not in totals.flags:
            totals.failures.append({"check": "meta", "op": "coverage", "variant": "", "symptom": "vacuous:" + f,
                                    "case": {"check": "meta", "flag": f}, "detail": "required corner never reached"})
    L = len(alphabet("t" if tier == "thorough" else "q"))
    for carrier in ("tensor", "sptensor", "matrix", "ktensor_f", "ktensor_w"):
        key = "alphabet_values_written:" + carrier
        n = totals.counters.get(key, 0)
        if n < L and not totals.failures:
            totals.failures.append({"check": "meta", "op": "coverage", "variant": carrier,
                                    "symptom": "vacuous:alphabet_not_covered",
                                    "case": {"check": "meta", "carrier": carrier},
                                    "detail": f"{n} values written exactly, alphabet has {L}"})


def _run_meta(case, ctx, b):  # replay of a coverage failure: nothing to execute
    ctx.fail("coverage", "vacuous:" + str(case.get("flag", "alphabet_not_covered")), "see the full run", case=case)
