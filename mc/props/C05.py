"""C05 - operations never modify their operands and never alias them.

History explorer of depth 2 (``op ; write ; observe``), every history replayed on
FRESH real objects:

    phase "mut"    build operands, snapshot all leaves, run the operation, compare
    phase "w_res"  build, run, snapshot the operands, perturb ONE leaf of the result
                   in place, compare the operands
    phase "w_opd"  build, run, snapshot the result, perturb ONE leaf of an operand in
                   place, compare the result

The catalogue (``@reg("<class>.<name>")`` generators below) is cross-checked against
``dir()`` of the seven classes, the module-level functions of ``pyttb``,
``pyttb.pyttb_utils``, ``pyttb.tensor`` and ``pyttb.sptensor``: a public name that has
neither a generator nor a documented exemption makes the check fail
(check="completeness", a harness-level failure).
"""

import copy as _copy
import inspect
import io
import itertools
import os
import tempfile
from math import prod

import numpy as np

from mc import observe as O
from mc import refmodel as rm
from mc import space
from mc.engine import exc_symptom, short_tb

ID = "C05"
RULE = ("history explorer, depth 2: (operation of the catalogue) ; (in-place write to ONE ndarray leaf of the "
        "result or of an operand) ; observe the other side bit-for-bit through the leaf walker of mc/observe.py. "
        "Every history is executed on freshly built real objects.  The catalogue holds >= 1 generator per public "
        "name of tensor/sptensor/ktensor/ttensor/sumtensor/tenmat/sptenmat, per module-level generator/helper and "
        "per algorithm entry point, verified by introspection.  A case is non-trivial when the operation returned "
        "at least one writable non-empty leaf and had at least one operand leaf (so that a write was observed).  "
        "Besides the leaf writes, a result container (pyttb object, list, dict) that IS an operand container is "
        "reported (variant=identity), which covers objects without writable leaves (empty sptensors).  Operands are "
        "compared even when the operation raises.")
ASSUMPTIONS = [
    "leaf walker mc/observe.py reaches every ndarray an object exposes (data, subs, vals, weights, "
    "factor_matrices, core, parts, index arrays, dict/list members of algorithm outputs)",
    "observation is bit-level (shape, dtype, bytes) plus the non-array structure (shape/tshape/rdims/cdims)",
    "documented sharing is exempt: copy=False constructors/conversions, callbacks that return their argument, "
    "outputs that ARE an input object (initial guess returned by the algorithms), coercion helpers of pyttb_utils",
    "documented in-place operations may change their receiver only: __setitem__ (tensor/sptensor/tenmat/sptenmat), "
    "ktensor.normalize/arrange/fixsigns/redistribute/update, ktensor.viz(normalize=True)",
    "random draws pinned with np.random.seed per execution (operations are otherwise deterministic)",
    "cases on which another property's recorded defect makes the operation raise are counted inadmissible "
    "(cp_apr pqnr 'L-BFGS first iterate is bad' [C11], fixsigns(other) IndexError [C08]); keys/operands that the "
    "classes document as unsupported (ndarray inside a sparse tuple key, sumtensor+sumtensor, 2-D from_vector with "
    "weights, one-way fixsigns(other)) are not in the catalogue",
]
BOUNDS = {
    "quick": "one representative holder per class (dense 2x3x2 / cubes 2x2x2, sparse half-filled, rank-2 Kruskal, "
             "2x2x2-core Tucker, sums of 2-3 parts, matricizations), every registered operation with parameters on "
             "both sides of each known view/copy switch (identity vs other permutation, same vs other shape, no/"
             "some/all singleton modes, single/all modes, empty dims, unit vs general weights, negative index arrays, "
             "zero rows in initial guesses, zeros in ranks, F/C ordered array arguments); algorithms with maxiters "
             "1-2; every leaf of result and operands written once",
    "thorough": "quick plus additional holders: dense shapes (3,), (2,3), (2,1,3), (1,2,2), (2,2,2,2), int/bool data, a "
                "receiver produced by growth; sparse patterns full / "
                "single entry / empty and reversed stored order; C-ordered array arguments throughout; rank-1 and "
                "rank-3 Kruskal operands; sparse Tucker cores; all modes n for mode-indexed operations",
}
CHUNK = 4

# ---------------------------------------------------------------------------------------------
# registry


class V:
    """One parameterised application of an operation."""

    __slots__ = ("name", "build", "call", "inplace", "share_ok", "share_res", "share_opd", "why", "tolerate")

    def __init__(self, name, build, call, inplace=None, share_ok=False, share_res=(), share_opd=(), why="",
                 tolerate=None):
        self.name = name          # variant name, unique within the operation
        self.build = build        # () -> dict of fresh operands
        self.call = call          # operands dict -> result
        self.inplace = inplace    # key of the documented in-place receiver (may change; is part of the result)
        self.share_ok = share_ok  # documented sharing: only "no operand is modified" is asserted
        self.share_res = tuple(share_res)  # result path prefixes that ARE input objects (identity outputs)
        self.share_opd = tuple(share_opd)  # operand path prefixes whose sharing with the result is documented
        self.why = why
        self.tolerate = tolerate  # predicate on an exception: case outside the quantifier (recorded finding of
        #                           another property); the operands are still compared


REG = {}       # "tensor.permute" -> generator function(g) yielding V
EXEMPT = {}    # public name -> documented reason


def reg(*names):
    def deco(fn):
        for n in names:
            assert n not in REG, n
            REG[n] = fn
        return fn
    return deco


class G:
    """Generation context: tier and seed select holders and cell values."""

    def __init__(self, tier, seed):
        self.tier = tier
        self.seed = int(seed)
        self.thorough = tier == "thorough"

    # ---- raw data
    def arr(self, shape, salt=0, pat=None, order="F"):
        vals = space.dense_values(tuple(shape), pat, self.seed + salt)
        a = rm.arr(shape, vals)
        return np.asfortranarray(a) if order == "F" else np.ascontiguousarray(a)

    def mat(self, r, c, salt=0, order="F"):
        a = np.array(space.int_matrix(r, c, salt=salt, seed=self.seed), dtype=float).reshape(r, c)
        return np.asfortranarray(a) if order == "F" else np.ascontiguousarray(a)

    def vec(self, n, salt=0):
        return np.array(space.int_vector(n, salt=salt, seed=self.seed), dtype=float)

    def posarr(self, shape, salt=0):
        return np.abs(self.arr(shape, salt)) % 7 + 1.0

    # ---- holders
    def T(self, shape=(2, 3, 2), salt=0, pat=None):
        import pyttb as ttb
        return ttb.tensor(self.arr(shape, salt, pat))

    def Tgrown(self, salt=0):
        """2x3x2 tensor produced by growth (assignment beyond the shape): the library's own buffer layout."""
        t = self.T((2, 3, 1), salt)
        t[1, 2, 1] = 5.0
        return t

    def half(self, shape):
        n = prod(shape)
        return [1 if i % 2 == 0 else 0 for i in range(n)]

    def S(self, shape=(2, 3, 2), salt=0, pat="half", rev=False):
        import pyttb as ttb
        shape = tuple(shape)
        n = prod(shape)
        if pat == "half":
            pat = self.half(shape)
        elif pat == "full":
            pat = [1] * n
        elif pat == "single":
            pat = [1 if i == n - 1 else 0 for i in range(n)]
        elif pat == "empty":
            pat = [0] * n
        vals = space.dense_values(shape, pat, self.seed + salt)
        cl = rm.cells(shape)
        nz = [(cl[l], vals[l]) for l in range(n) if vals[l] != 0]
        if rev:
            nz = nz[::-1]
        if not nz:
            return ttb.sptensor(shape=shape)
        return ttb.sptensor(np.array([s for s, _ in nz], dtype=int).reshape(len(nz), len(shape)),
                            np.array([v for _, v in nz], dtype=float).reshape(-1, 1), shape)

    def K(self, shape=(2, 3, 2), rank=2, weights=None, salt=0, order="F"):
        import pyttb as ttb
        if weights is None:
            weights = [2.0, -1.0, 3.0][:rank]
        fs = [self.mat(s, rank, salt=salt + 4 * n, order=order) for n, s in enumerate(shape)]
        return ttb.ktensor(fs, np.array(weights, dtype=float))

    def Kpos(self, shape=(2, 3, 2), rank=2, salt=0, zero_row=False):
        import pyttb as ttb
        fs = [np.asfortranarray(np.abs(self.mat(s, rank, salt=salt + 4 * n)) + 0.5) for n, s in enumerate(shape)]
        if zero_row:
            fs[0][0, :] = 0.0
        return ttb.ktensor(fs, np.ones(rank))

    def TT(self, shape=(2, 3, 2), core=(2, 2, 2), salt=0, sparse_core=False, sparse_factors=False):
        import pyttb as ttb
        c = self.S(core, salt + 1, "half") if sparse_core else self.T(core, salt + 1)
        fs = [self.mat(s, c_, salt=salt + 3 * n) for n, (s, c_) in enumerate(zip(shape, core))]
        if sparse_factors:
            from scipy import sparse
            fs = [sparse.coo_matrix(f) for f in fs]
        return ttb.ttensor(c, fs)

    def SUM(self, shape=(2, 3, 2), kinds="tk", salt=0):
        import pyttb as ttb
        parts = []
        for i, k in enumerate(kinds):
            parts.append({"t": lambda: self.T(shape, salt + i), "s": lambda: self.S(shape, salt + i),
                          "k": lambda: self.K(shape, 2, salt=salt + i),
                          "u": lambda: self.TT(shape, tuple(min(2, s) for s in shape), salt + i)}[k]())
        return ttb.sumtensor(parts)

    def TM(self, shape=(2, 3, 2), rdims=(0,), cdims=None, salt=0):
        import pyttb as ttb
        cdims = tuple(i for i in range(len(shape)) if i not in rdims) if cdims is None else tuple(cdims)
        a = self.arr(shape, salt)
        m = rm.matricize(a, list(rdims), list(cdims))
        return ttb.tenmat(np.asfortranarray(m), np.array(rdims, dtype=int), np.array(cdims, dtype=int), tuple(shape))

    def SM(self, shape=(2, 3, 2), rdims=(0,), cdims=None, salt=0, pat="half"):
        import pyttb as ttb
        cdims = tuple(i for i in range(len(shape)) if i not in rdims) if cdims is None else tuple(cdims)
        n = prod(shape)
        p = {"half": self.half(shape), "full": [1] * n, "empty": [0] * n}[pat]
        a = self.arr(shape, salt, p)
        m = rm.matricize(a, list(rdims), list(cdims))
        rr, cc = np.nonzero(m)
        if rr.size == 0:
            return ttb.sptenmat(rdims=np.array(rdims, dtype=int), cdims=np.array(cdims, dtype=int), tshape=tuple(shape))
        subs = np.stack([rr, cc], axis=1).astype(int)
        vals = m[rr, cc].reshape(-1, 1).astype(float)
        return ttb.sptenmat(subs, vals, np.array(rdims, dtype=int), np.array(cdims, dtype=int), tuple(shape))

    # ---- tier-dependent holder families
    def dshapes(self):
        return [(2, 3, 2)] + ([(3,), (2, 3), (2, 1, 3), (1, 2, 2), (2, 2, 2, 2)] if self.thorough else [])

    def cubes(self):
        return [(2, 2, 2)] + ([(2, 2), (3, 3), (2, 2, 2, 2)] if self.thorough else [])

    def spats(self):
        return [("half", False)] + ([("full", False), ("single", False), ("empty", False), ("half", True)]
                                    if self.thorough else [])

    def morders(self):
        return ["F", "C"] if self.thorough else ["F"]

    def modes(self, n):
        return list(range(n)) if self.thorough else sorted({0, n - 1})


def perms_of(n):
    ident = tuple(range(n))
    out = [("identity", ident)]
    if n >= 2:
        out.append(("reverse", ident[::-1]))
    if n >= 3:
        out.append(("rotate", ident[1:] + ident[:1]))
        out.append(("swap01", (1, 0) + ident[2:]))
    return out


def _sh(s):
    return "x".join(str(i) for i in s)


# ---------------------------------------------------------------------------------------------
# engine of one case


def _filter(paths_objs, prefixes):
    if not prefixes:
        return list(paths_objs)
    return [(p, a) for p, a in paths_objs if not any(p.startswith(pre) for pre in prefixes)]


def _structs(obj, prefix="", depth=0, seen=None):
    """Non-array structure of every pyttb object reachable (shape etc.)."""
    import pyttb as ttb
    if seen is None:
        seen = set()
    out = {}
    if depth > 6 or obj is None or id(obj) in seen:
        return out
    if isinstance(obj, (ttb.tensor, ttb.sptensor, ttb.ktensor, ttb.ttensor, ttb.sumtensor, ttb.tenmat, ttb.sptenmat)):
        seen.add(id(obj))
        try:
            out[prefix or "obj"] = repr(O.struct_of(obj))
        except Exception as e:  # noqa: BLE001
            out[prefix or "obj"] = "unreadable:" + type(e).__name__
        if isinstance(obj, ttb.ttensor):
            out.update(_structs(obj.core, prefix + ".core", depth + 1, seen))
        if isinstance(obj, ttb.sumtensor):
            for i, p in enumerate(obj.parts):
                out.update(_structs(p, f"{prefix}.parts[{i}]", depth + 1, seen))
            out[prefix + ".nparts"] = str(len(obj.parts))
        if isinstance(obj, ttb.ktensor):
            out[prefix + ".nfactors"] = str(len(obj.factor_matrices))
    elif isinstance(obj, dict):
        out[prefix + ".keys"] = repr(sorted(map(str, obj)))
        for k in sorted(obj, key=str):
            out.update(_structs(obj[k], f"{prefix}[{k!r}]", depth + 1, seen))
    elif isinstance(obj, (list, tuple)):
        out[prefix + ".len"] = str(len(obj))
        for i, o in enumerate(obj):
            out.update(_structs(o, f"{prefix}[{i}]", depth + 1, seen))
            if isinstance(o, (int, float, str, bool, np.generic)):
                out[f"{prefix}[{i}]"] = repr(o)
    return out


def _objects(obj, prefix="", depth=0):
    """(path, object) for every mutable container the library hands around: pyttb objects, lists, dicts."""
    import pyttb as ttb
    if depth > 6 or obj is None:
        return
    if isinstance(obj, (ttb.tensor, ttb.sptensor, ttb.tenmat, ttb.sptenmat)):
        yield prefix, obj
    elif isinstance(obj, ttb.ktensor):
        yield prefix, obj
        yield prefix + ".factor_matrices", obj.factor_matrices
    elif isinstance(obj, ttb.ttensor):
        yield prefix, obj
        yield prefix + ".factor_matrices", obj.factor_matrices
        yield from _objects(obj.core, prefix + ".core", depth + 1)
    elif isinstance(obj, ttb.sumtensor):
        yield prefix, obj
        yield from _objects(obj.parts, prefix + ".parts", depth + 1)
    elif isinstance(obj, dict):
        yield prefix, obj
        for k in sorted(obj, key=str):
            yield from _objects(obj[k], f"{prefix}[{k!r}]", depth + 1)
    elif isinstance(obj, list):
        yield prefix, obj
        for i, o in enumerate(obj):
            yield from _objects(o, f"{prefix}[{i}]", depth + 1)
    elif isinstance(obj, tuple):
        for i, o in enumerate(obj):
            yield from _objects(o, f"{prefix}[{i}]", depth + 1)


def _identical(robj, ops, res_excl, opd_excl):
    """Result containers that ARE operand containers (visible through any later in-place change, including
    the re-binding writes of __setitem__ that a leaf perturbation cannot imitate, e.g. on empty sptensors)."""
    mine = {}
    for p, o in _objects(ops):
        if not any(p.startswith(pre) for pre in opd_excl):
            mine.setdefault(id(o), p)
    out = []
    for p, o in _objects(robj):
        if any(p.startswith(pre) for pre in res_excl):
            continue
        if id(o) in mine:
            out.append(f"{p} is {mine[id(o)]}")
    return out


def _snap(objs, exclude=()):
    s = {}
    for p, a in _filter(O.leaves(objs), exclude):
        s[p] = (a.shape, str(a.dtype), a.tobytes())
    st = {p: v for p, v in _structs(objs).items() if not any(p.startswith(pre) for pre in exclude)}
    return s, st


def _diff(before, objs, exclude=()):
    b, bs = before
    a, as_ = _snap(objs, exclude)
    ch = [p for p in b if p not in a or b[p] != a[p]]
    ch += [p + "(new)" for p in a if p not in b]
    ch += [p + "(struct)" for p in bs if bs.get(p) != as_.get(p)]
    ch += [p + "(struct,new)" for p in as_ if p not in bs]
    return ch


def _plain(paths):
    """Changed paths for the case descriptor (used by `when` predicates of recorded findings)."""
    return sorted({p.split("(")[0] for p in paths})


def perturb(a):
    """In-place change of every entry of a leaf; False if the leaf cannot be written."""
    if a.size == 0 or not a.flags.writeable:
        return False
    if a.dtype == bool:
        np.logical_not(a, out=a)
    elif np.issubdtype(a.dtype, np.floating) or np.issubdtype(a.dtype, np.complexfloating):
        ok = np.isfinite(a) & (np.abs(a) < 1e14)
        a[...] = np.where(ok, a + 1, 0.5)
    elif np.issubdtype(a.dtype, np.integer):
        a[...] = a + 1
    else:
        return False
    return True


def _variants(op, tier, seed):
    g = G(tier, seed)
    out = list(REG[op](g))
    names = [v.name for v in out]
    assert len(set(names)) == len(names), f"duplicate variant names in {op}: {names}"
    return out


def _execute(v):
    import contextlib
    np.random.seed(20240)
    ops = v.build()
    excl = ()
    if v.inplace:
        excl = (f"[{v.inplace!r}]",)
    before = _snap(ops, excl)
    exc = None
    res = None
    try:
        with contextlib.redirect_stdout(io.StringIO()):
            res = v.call(ops)
    except Exception as e:  # noqa: BLE001
        exc = e
    return ops, before, res, excl, exc


def _result_obj(v, ops, res):
    # for in-place operations the receiver is (part of) what the operation produced
    if v.inplace:
        return {"ret": res, "recv": ops[v.inplace]}
    return {"ret": res}


def gen_cases(tier, seed):
    yield {"check": "completeness"}
    order = sorted(REG, key=lambda n: (_class_rank(n), n))
    for op in order:
        for v in _variants(op, tier, seed):
            yield {"check": "op", "op": op, "var": v.name, "tier": tier, "seed": seed}


_CLASSES = ["pyttb_utils", "pyttb", "tensor", "sptensor", "ktensor", "ttensor", "sumtensor", "tenmat", "sptenmat", "alg"]


def _class_rank(name):
    c = name.split(".")[0]
    return _CLASSES.index(c) if c in _CLASSES else 99


def _own_arpack():
    """ARPACK draws its start vector from an internal generator whose state moves from call to call: two calls of
    nvecs then differ in the last digits, and the 'later result' comparison would see the environment, not the
    library.  While this module runs, eigsh / eigs get a fixed generic start vector unless the caller passes one."""
    import scipy.sparse.linalg as sla

    if getattr(sla, "_c05_owned", False):
        return

    def wrap(orig):
        def f(A, k=6, *args, **kw):
            if not args and kw.get("v0") is None:
                n = A.shape[0]
                kw["v0"] = np.array([1.0 + 0.5 * np.sin(1.0 + 2.3 * i) for i in range(n)])
            return orig(A, k, *args, **kw)
        return f

    sla.eigsh, sla.eigs = wrap(sla.eigsh), wrap(sla.eigs)
    sla._c05_owned = True


def run_case(case, ctx):
    _own_arpack()
    if case["check"] == "completeness":
        return _run_completeness(case, ctx)
    op, var = case["op"], case["var"]
    vs = [v for v in _variants(op, case.get("tier", "quick"), case.get("seed", 0)) if v.name == var]
    if not vs:
        ctx.fail("harness", "harness_error:unknown_variant", f"{op} {var}")
        return
    v = vs[0]
    base = {k: case[k] for k in ("check", "op", "var", "tier", "seed")}
    phase = case.get("phase")
    if phase is None or phase == "mut":
        info = _phase_mut(v, dict(base, phase="mut"), ctx)
        if phase == "mut" or info is None:
            return
        res_leaves, opd_leaves = info
        ctx.state()
        if v.share_ok:
            ctx.count("share_ok_variants")
            return
        wrote = 0
        for p in res_leaves:
            wrote += _phase_write(v, dict(base, phase="w_res", leaf=p), ctx)
        for p in opd_leaves:
            wrote += _phase_write(v, dict(base, phase="w_opd", leaf=p), ctx)
        if res_leaves and opd_leaves and wrote:
            ctx.nontriv()
    else:
        _phase_write(v, dict(base, phase=phase, leaf=case["leaf"]), ctx)


def _raised(v, sub, ctx, exc):
    """An operation that raises on a catalogue case: failure unless the variant declares the case inadmissible."""
    if v.tolerate is not None and v.tolerate(exc):
        ctx.inadm()
        ctx.count("tolerated_exceptions")
    else:
        ctx.fail(sub["op"], exc_symptom(exc), short_tb(exc), variant="call", case=sub)


def _phase_mut(v, sub, ctx):
    ctx.execution()
    ops, before, res, excl, exc = _execute(v)
    ctx.tick()
    ch = _diff(before, ops, excl)
    if ch:
        # asserted even if the operation raised afterwards: the caller's data has been changed
        ctx.fail(sub["op"], "operand_mutated", f"{sub['var']}: changed during the operation"
                 f"{' (which then raised ' + type(exc).__name__ + ')' if exc is not None else ''}: {ch}",
                 variant="during_op", case=dict(sub, changed=_plain(ch)))
    if exc is not None:
        _raised(v, sub, ctx, exc)
        return None
    robj = _result_obj(v, ops, res)
    if not v.share_ok:
        same = _identical({"ret": res}, ops, v.share_res, excl + v.share_opd)
        if same:
            ctx.fail(sub["op"], "alias", f"{sub['var']}: the result is (contains) an operand object: {same}",
                     variant="identity", case=dict(sub, changed=sorted(same)))
    rl = [p for p, a in _filter(O.leaves(robj), v.share_res) if a.size and a.flags.writeable]
    ol = [p for p, a in _filter(O.leaves(ops), excl + v.share_opd) if a.size and a.flags.writeable]
    ctx.outcome([sub["op"], sub["var"], sorted(rl), sorted(ol), bool(ch)])
    for p, a in O.leaves(robj):
        if a.size and not a.flags.writeable:
            ctx.count("readonly_result_leaves")
    return rl, ol


def _phase_write(v, sub, ctx):
    ctx.execution()
    ops, _before, res, excl, exc = _execute(v)
    if exc is not None:
        _raised(v, sub, ctx, exc)
        return 0
    robj = _result_obj(v, ops, res)
    leaf = sub["leaf"]
    if sub["phase"] == "w_res":
        target = dict(_filter(O.leaves(robj), v.share_res)).get(leaf)
        watch, wexcl = ops, excl + v.share_opd
        direction = "result->operand"
    else:
        target = dict(_filter(O.leaves(ops), excl + v.share_opd)).get(leaf)
        watch, wexcl = robj, v.share_res
        direction = "operand->result"
    if target is None:
        ctx.fail("harness", "harness_error:leaf_vanished", f"{sub}", case=sub)
        return 0
    snap = _snap(watch, wexcl)
    rsnap = _snap(robj, v.share_res) if sub["phase"] == "w_res" else None
    tb = target.tobytes()
    if not perturb(target):
        ctx.count("unwritable_leaf")
        return 0
    if target.tobytes() == tb:
        ctx.fail("harness", "harness_error:perturb_noop", f"{sub}", case=sub)
        return 0
    ctx.tick()
    ch = _diff(snap, watch, wexcl)
    if ch:
        ctx.fail(sub["op"], "alias", f"{sub['var']}: write to {leaf} changed {ch}", variant=direction,
                 case=dict(sub, changed=_plain(ch)))
    if rsnap is not None and not v.share_ok and not sub["op"].startswith("alg."):
        # (algorithm outputs carry wall-clock fields and ARPACK-dependent digits: not comparable across calls)
        _later_result_check(v, sub, ctx, rsnap, leaf)
    return 1


def _later_result_check(v, sub, ctx, rsnap, leaf):
    """History op; write into the result; op again on fresh operands: the later result must equal the first one as it
    was before the write (results of different calls must not share hidden state such as a cached array)."""
    ops2, _b2, res2, _e2, exc2 = _execute(v)
    if exc2 is not None:
        return
    s2 = _snap(_result_obj(v, ops2, res2), v.share_res)
    ctx.tick()
    if s2 == rsnap:
        return
    ops3, _b3, res3, _e3, exc3 = _execute(v)
    if exc3 is not None or _snap(_result_obj(v, ops3, res3), v.share_res) != s2:
        ctx.count("nondeterministic_op_skipped_later_result_check")
        return
    changed = sorted(k for k in set(rsnap[0]) | set(s2[0]) if rsnap[0].get(k) != s2[0].get(k))
    ctx.fail(sub["op"], "alias", f"{sub['var']}: after a write to {leaf} of an earlier result, a later call returns a "
             f"different result: {changed[:4]}", variant="result->later_result", case=dict(sub, changed=_plain(changed)))


# ---------------------------------------------------------------------------------------------
# completeness (introspection)

_NOT_OPS = {"__doc__": "class attribute, not an operation", "__module__": "class attribute, not an operation",
            "__slots__": "class attribute, not an operation", "__dict__": "instance dictionary descriptor",
            "__weakref__": "weak reference descriptor", "__hash__": "set to None (unhashable), not callable",
            "__annotations__": "class attribute, not an operation"}
_STORAGE = {
    "tensor": ["data", "shape"], "sptensor": ["subs", "vals", "shape"], "ktensor": ["weights", "factor_matrices"],
    "ttensor": ["core", "factor_matrices"], "sumtensor": [], "tenmat": ["data", "rindices", "cindices", "tshape"],
    "sptenmat": ["subs", "vals", "rdims", "cdims", "tshape"],
}
for _c, _names in _STORAGE.items():
    for _n in _names:
        EXEMPT[f"{_c}.{_n}"] = "storage attribute (slot): reading it hands out the state itself by definition"
EXEMPT["pyttb.ignore_warnings"] = "decorator utility for doctests, no tensor operands"


def public_names():
    """Every public name the property quantifies over, from introspection."""
    import pyttb as ttb
    import pyttb.pyttb_utils as pu
    import sys
    msp, mt = sys.modules["pyttb.sptensor"], sys.modules["pyttb.tensor"]  # (the class names shadow the modules)
    names = {}
    for cls in (ttb.tensor, ttb.sptensor, ttb.ktensor, ttb.ttensor, ttb.sumtensor, ttb.tenmat, ttb.sptenmat):
        for n in dir(cls):
            if n.startswith("_") and not (n.startswith("__") and n.endswith("__")):
                continue
            if not any(n in vars(c) for c in cls.__mro__ if c is not object):
                continue
            if n in _NOT_OPS:
                continue
            names[f"{cls.__name__}.{n}"] = "class"
    for n, o in vars(pu).items():
        if inspect.isfunction(o) and o.__module__ == pu.__name__ and not n.startswith("_"):
            names[f"pyttb_utils.{n}"] = "helper"
    for n, o in vars(ttb).items():
        if inspect.isfunction(o) and not n.startswith("_"):
            names[f"pyttb.{n}"] = "module"
    for m, cname in ((mt, "tensor"), (msp, "sptensor")):
        for n, o in vars(m).items():
            if inspect.isfunction(o) and o.__module__ == m.__name__ and not n.startswith("_") \
                    and f"pyttb.{n}" not in names:
                names[f"{cname}.{n}"] = "module-helper"
    return names


_ALG = ["alg.cp_als", "alg.cp_apr_mu", "alg.cp_apr_pdnr", "alg.cp_apr_pqnr", "alg.hosvd", "alg.tucker_als",
        "alg.gcp_opt"]
_ALG_ALIASES = {"pyttb.cp_als": ["alg.cp_als"], "pyttb.cp_apr": ["alg.cp_apr_mu", "alg.cp_apr_pdnr", "alg.cp_apr_pqnr"],
                "pyttb.hosvd": ["alg.hosvd"], "pyttb.tucker_als": ["alg.tucker_als"], "pyttb.gcp_opt": ["alg.gcp_opt"]}


def _run_completeness(case, ctx):
    names = public_names()
    ctx.state()
    missing, empty = [], []
    for n in sorted(names):
        ctx.tick()
        if n in EXEMPT:
            ctx.count("exempt_names")
            continue
        targets = _ALG_ALIASES.get(n, [n])
        for t in targets:
            if t not in REG:
                missing.append(t if t == n else f"{n} -> {t}")
            else:
                for tier in ("quick", "thorough"):
                    if not _variants(t, tier, 0):
                        empty.append(f"{t}@{tier}")
    known = set(names) | set(_ALG)
    stale = [n for n in list(REG) + list(EXEMPT) if n not in known]
    ctx.count("public_names", len(names))
    ctx.outcome(sorted(names))
    if missing:
        ctx.fail("harness", "harness_error:unregistered_public_name",
                 f"public names without generator or documented exemption: {missing}", case=case)
    if empty:
        ctx.fail("harness", "harness_error:generator_without_cases", str(empty), case=case)
    if stale:
        ctx.fail("harness", "harness_error:stale_registration",
                 f"registered/exempt names that do not exist in the library: {stale}", case=case)
    if len(names) > 200:
        ctx.nontriv()


# =============================================================================================
# catalogue
# =============================================================================================

A = np.array


def ia(x):
    return np.array(x, dtype=int)


# ---------------------------------------------------------------------------------------------
# tensor


@reg("tensor.__init__")
def _(g):
    import pyttb as ttb
    for sh in g.dshapes():
        for mo in ("F", "C"):
            yield V(f"{_sh(sh)}-{mo}-copy", lambda sh=sh, mo=mo: {"data": g.arr(sh, order=mo)},
                    lambda o: ttb.tensor(o["data"]))
            yield V(f"{_sh(sh)}-{mo}-nocopy", lambda sh=sh, mo=mo: {"data": g.arr(sh, order=mo)},
                    lambda o: ttb.tensor(o["data"], copy=False), share_ok=True, why="copy=False")
        yield V(f"{_sh(sh)}-flat-shape", lambda sh=sh: {"data": g.arr((prod(sh),)), "shape": tuple(sh)},
                lambda o: ttb.tensor(o["data"], o["shape"]))
        yield V(f"{_sh(sh)}-same-shape", lambda sh=sh: {"data": g.arr(sh), "shape": tuple(sh)},
                lambda o: ttb.tensor(o["data"], o["shape"]))
    yield V("empty", lambda: {}, lambda o: ttb.tensor())


@reg("tensor.from_function")
def _(g):
    import pyttb as ttb
    for sh in g.dshapes():
        yield V(f"{_sh(sh)}-ones", lambda sh=sh: {"shape": tuple(sh)},
                lambda o: ttb.tensor.from_function(np.ones, o["shape"]))
        yield V(f"{_sh(sh)}-stored", lambda sh=sh: {"shape": tuple(sh), "store": g.arr(sh)},
                lambda o: ttb.tensor.from_function(lambda s: o["store"], o["shape"]), share_ok=True,
                why="callback returns a caller-owned array")


def _unary(kind_builders, fns):
    """Helper: register unary operations `name -> callable(obj)` for holders."""
    def make(fn):
        def gen(g):
            for hname, hb in kind_builders(g):
                yield V(hname, lambda hb=hb: {"x": hb()}, lambda o, fn=fn: fn(o["x"]))
        return gen
    return {n: make(f) for n, f in fns.items()}


def _tensor_holders(g):
    for sh in g.dshapes():
        yield _sh(sh), (lambda sh=sh: g.T(sh))
    yield "with-zeros", (lambda: g.T((2, 3, 2), pat=g.half((2, 3, 2))))
    if g.thorough:
        import pyttb as ttb
        yield "int-dtype", (lambda: ttb.tensor(np.arange(1 + g.seed, 13 + g.seed).reshape((2, 3, 2), order="F")))
        yield "bool-dtype", (lambda: g.T((2, 3, 2)) > 0)
        yield "grown", (lambda: g.Tgrown())


_UN = {
    "copy": lambda x: x.copy(), "__deepcopy__": lambda x: _copy.deepcopy(x), "__pos__": lambda x: +x,
    "__neg__": lambda x: -x, "full": lambda x: x.full(), "double": lambda x: x.double(), "exp": lambda x: x.exp(),
    "logical_not": lambda x: x.logical_not(), "find": lambda x: x.find(), "to_sptensor": lambda x: x.to_sptensor(),
    "norm": lambda x: x.norm(), "nnz": lambda x: x.nnz, "ndims": lambda x: x.ndims, "order": lambda x: x.order,
    "__repr__": lambda x: repr(x), "__str__": lambda x: str(x),
}
for _n, _gen in _unary(_tensor_holders, _UN).items():
    REG[f"tensor.{_n}"] = _gen


def _others_for_tensor(g, sh, sparse=True, ktt=False):
    """Second operands of a binary operation on a dense tensor of shape sh."""
    yield "tensor", (lambda: g.T(sh, salt=5))
    yield "scalar", (lambda: 2.0)
    if sparse:
        yield "sptensor", (lambda: g.S(sh, salt=5))
    if ktt:
        yield "ktensor", (lambda: g.K(sh, 2, salt=5))
        yield "ttensor", (lambda: g.TT(sh, tuple(min(2, s) for s in sh), salt=5))


def _binary_gen(first, others, fn):
    def gen(g):
        for hname, hb, sh in first(g):
            for oname, ob in others(g, sh):
                yield V(f"{hname}-{oname}", lambda hb=hb, ob=ob: {"x": hb(), "y": ob()},
                        lambda o: fn(o["x"], o["y"]))
    return gen


def _tensor_first(g):
    for sh in g.dshapes():
        yield _sh(sh), (lambda sh=sh: g.T(sh)), sh


_BIN_T = {
    "__add__": lambda x, y: x + y, "__radd__": lambda x, y: y + x if not hasattr(y, "shape") else x.__radd__(y),
    "__sub__": lambda x, y: x - y, "__mul__": lambda x, y: x * y,
    "__rmul__": lambda x, y: y * x if not hasattr(y, "shape") else x.__rmul__(y),
    "__truediv__": lambda x, y: x / y,
    "__rtruediv__": lambda x, y: y / x if not hasattr(y, "shape") else x.__rtruediv__(y),
    "__pow__": lambda x, y: x ** y,
    "__eq__": lambda x, y: x == y, "__ne__": lambda x, y: x != y, "__ge__": lambda x, y: x >= y,
    "__gt__": lambda x, y: x > y, "__le__": lambda x, y: x <= y, "__lt__": lambda x, y: x < y,
    "logical_and": lambda x, y: x.logical_and(y), "logical_or": lambda x, y: x.logical_or(y),
    "logical_xor": lambda x, y: x.logical_xor(y),
}
_DENSE_ONLY = {"__pow__", "logical_and", "logical_or", "logical_xor", "__rtruediv__", "__radd__", "__rmul__"}
for _n, _f in _BIN_T.items():
    REG[f"tensor.{_n}"] = _binary_gen(
        _tensor_first,
        (lambda g, sh, _n=_n: _others_for_tensor(g, sh, sparse=_n not in _DENSE_ONLY)), _f)


@reg("tensor.isequal")
def _(g):
    for sh in g.dshapes():
        for oname, ob in _others_for_tensor(g, sh):
            if oname == "scalar":
                continue
            yield V(f"{_sh(sh)}-{oname}", lambda sh=sh, ob=ob: {"x": g.T(sh), "y": ob()},
                    lambda o: o["x"].isequal(o["y"]))


@reg("tensor.innerprod")
def _(g):
    for sh in g.dshapes():
        for oname, ob in _others_for_tensor(g, sh, ktt=True):
            if oname == "scalar":
                continue
            yield V(f"{_sh(sh)}-{oname}", lambda sh=sh, ob=ob: {"x": g.T(sh), "y": ob()},
                    lambda o: o["x"].innerprod(o["y"]))


@reg("tensor.collapse")
def _(g):
    for sh in g.dshapes():
        n = len(sh)
        sels = [("all", None), ("none", ia([])), ("first", ia([0])), ("last", ia([n - 1]))]
        if n >= 3:
            sels.append(("two", ia([0, n - 1])))
        for sname, dims in sels:
            for fname, fun in (("sum", None), ("max", np.max)):
                def call(o, fun=fun):
                    kw = {} if fun is None else {"fun": fun}
                    return o["x"].collapse(o["dims"], **kw)
                yield V(f"{_sh(sh)}-{sname}-{fname}", lambda sh=sh, dims=dims: {
                    "x": g.T(sh), "dims": None if dims is None else dims.copy()}, call)


@reg("tensor.contract")
def _(g):
    for sh in [(2, 2, 3), (2, 2)] + ([(3, 2, 3), (2, 2, 2, 2)] if g.thorough else []):
        i, j = (0, 1) if sh[0] == sh[1] else (0, 2)
        yield V(_sh(sh), lambda sh=sh: {"x": g.T(sh)}, lambda o, i=i, j=j: o["x"].contract(i, j))


def _sym_data(g, sh):
    a = g.arr(sh)
    s = rm.symmetrize(a, [list(range(len(sh)))])
    return np.asfortranarray(s)


@reg("tensor.issymmetric")
def _(g):
    import pyttb as ttb
    for sh in g.cubes():
        n = len(sh)
        for dname, mk in (("generic", lambda sh=sh: g.T(sh)), ("symmetric", lambda sh=sh: ttb.tensor(_sym_data(g, sh)))):
            yield V(f"{_sh(sh)}-{dname}", lambda mk=mk: {"x": mk()}, lambda o: o["x"].issymmetric())
            yield V(f"{_sh(sh)}-{dname}-details", lambda mk=mk: {"x": mk()},
                    lambda o: o["x"].issymmetric(return_details=True))
            yield V(f"{_sh(sh)}-{dname}-v1", lambda mk=mk: {"x": mk()},
                    lambda o: o["x"].issymmetric(version=1, return_details=True))
            if n >= 3:
                yield V(f"{_sh(sh)}-{dname}-grps", lambda mk=mk: {"x": mk(), "grps": ia([[0, 1]])},
                        lambda o: o["x"].issymmetric(o["grps"], return_details=True))


@reg("tensor.symmetrize")
def _(g):
    import pyttb as ttb
    for sh in g.cubes():
        n = len(sh)
        for dname, mk in (("generic", lambda sh=sh: g.T(sh)), ("symmetric", lambda sh=sh: ttb.tensor(_sym_data(g, sh)))):
            yield V(f"{_sh(sh)}-{dname}", lambda mk=mk: {"x": mk()}, lambda o: o["x"].symmetrize())
            yield V(f"{_sh(sh)}-{dname}-v1", lambda mk=mk: {"x": mk()}, lambda o: o["x"].symmetrize(version=1))
            if n >= 3:
                yield V(f"{_sh(sh)}-{dname}-grps", lambda mk=mk: {"x": mk(), "grps": ia([[0, 1]])},
                        lambda o: o["x"].symmetrize(o["grps"]))
                yield V(f"{_sh(sh)}-{dname}-grps1", lambda mk=mk, n=n: {"x": mk(), "grps": ia([0, n - 1])},
                        lambda o: o["x"].symmetrize(o["grps"]))
    # two groups (needs order 4): generic data and data already symmetric under both
    for dname, mk in (("generic", lambda: g.T((2, 2, 2, 2))), ("symmetric", lambda: ttb.tensor(_sym_data(g, (2, 2, 2, 2))))):
        for vn, kw in (("", {}), ("-v1", {"version": 1})):
            yield V(f"2x2x2x2-{dname}-2grps{vn}", lambda mk=mk: {"x": mk(), "grps": ia([[0, 1], [2, 3]])},
                    lambda o, kw=kw: o["x"].symmetrize(o["grps"], **kw))


@reg("tensor.mask")
def _(g):
    import pyttb as ttb
    for sh in g.dshapes():
        for wname, pat in (("half", g.half(sh)), ("all", [1] * prod(sh)), ("none", [0] * prod(sh))):
            yield V(f"{_sh(sh)}-{wname}", lambda sh=sh, pat=pat: {
                "x": g.T(sh), "w": ttb.tensor(np.asfortranarray(rm.arr(sh, [float(p) for p in pat])))},
                lambda o: o["x"].mask(o["w"]))


def _factors(g, sh, R=2, order="F", salt=9):
    return [g.mat(s, R, salt=salt + n, order=order) for n, s in enumerate(sh)]


def _mttkrp_gen(mk, multi=False):
    def gen(g):
        for sh in [s for s in g.dshapes() if len(s) >= 2]:
            for n in ([None] if multi else g.modes(len(sh))):
                for mo in g.morders():
                    ops = [("list", lambda sh=sh, mo=mo: _factors(g, sh, 2, mo)),
                           ("ktensor", lambda sh=sh, mo=mo: g.K(sh, 2, salt=9, order=mo)),
                           ("ktensor-unit", lambda sh=sh, mo=mo: g.K(sh, 2, [1.0, 1.0], salt=9, order=mo))]
                    for uname, ub in ops:
                        if multi:
                            call = lambda o: o["x"].mttkrps(o["U"])  # noqa: E731
                        else:
                            call = lambda o, n=n: o["x"].mttkrp(o["U"], n)  # noqa: E731
                        yield V(f"{_sh(sh)}-n{n}-{mo}-{uname}", lambda sh=sh, ub=ub: {"x": mk(g, sh), "U": ub()}, call)
    return gen


REG["tensor.mttkrp"] = _mttkrp_gen(lambda g, sh: g.T(sh))
REG["tensor.mttkrps"] = _mttkrp_gen(lambda g, sh: g.T(sh), multi=True)


def _nvecs_gen(mk, shapes=None):
    def gen(g):
        for sh in (shapes or [(2, 3, 2)] + ([(3, 3), (4, 3, 2)] if g.thorough else [])):
            for n in g.modes(len(sh)):
                for r in sorted({1, max(1, sh[n] - 1), sh[n]}):
                    for fs in (True, False):
                        yield V(f"{_sh(sh)}-n{n}-r{r}-{'flip' if fs else 'noflip'}",
                                lambda sh=sh: {"x": mk(g, sh)}, lambda o, n=n, r=r, fs=fs: o["x"].nvecs(n, r, flipsign=fs))
    return gen


REG["tensor.nvecs"] = _nvecs_gen(lambda g, sh: g.T(sh))


def _permute_gen(mk, shapes):
    def gen(g):
        for sh in shapes(g):
            for pname, p in perms_of(len(sh)):
                for form in (("array", lambda p=p: ia(p)),) + ((("list", lambda p=p: list(p)),) if g.thorough else ()):
                    yield V(f"{_sh(sh)}-{pname}-{form[0]}", lambda sh=sh, f=form[1]: {"x": mk(g, sh), "order": f()},
                            lambda o: o["x"].permute(o["order"]))
    return gen


# (2,1,3): permutations that only move the singleton mode keep the memory layout (a view/copy switch side)
def _grown_extra(base, make):
    """Add variants on a receiver produced by growth (thorough)."""
    def gen(g):
        yield from base(g)
        for nm, build, call in make(g):
            yield V(f"grown-{nm}", build, call)
    return gen


REG["tensor.permute"] = _grown_extra(
    _permute_gen(lambda g, sh: g.T(sh), lambda g: g.dshapes() + [(2, 2, 2)] + ([] if g.thorough else [(2, 1, 3)])),
    lambda g: [(pn, (lambda p=p: {"x": g.Tgrown(), "order": ia(p)}), (lambda o: o["x"].permute(o["order"])))
               for pn, p in perms_of(3)])


def _reshapes(sh):
    n = prod(sh)
    out = [("same", tuple(sh)), ("flat", (n,)), ("col", (n, 1)), ("row", (1, n))]
    for d in range(2, n):
        if n % d == 0:
            out.append((f"{d}x{n // d}", (d, n // d)))
            break
    if len(sh) >= 2:
        out.append(("merge-last", tuple(sh[:-2]) + (sh[-2] * sh[-1],)))
    seen, res = set(), []
    for nm, s in out:
        if s not in seen or nm == "same":
            seen.add(s)
            res.append((nm, s))
    return res


@reg("tensor.reshape")
def _(g):
    for sh in g.dshapes():
        for rname, ns in _reshapes(sh):
            yield V(f"{_sh(sh)}-{rname}", lambda sh=sh, ns=ns: {"x": g.T(sh), "shape": tuple(ns)},
                    lambda o: o["x"].reshape(o["shape"]))
    if g.thorough:
        for rname, ns in _reshapes((2, 3, 2)):
            yield V(f"grown-{rname}", lambda ns=ns: {"x": g.Tgrown(), "shape": tuple(ns)},
                    lambda o: o["x"].reshape(o["shape"]))


@reg("tensor.scale")
def _(g):
    import pyttb as ttb
    for sh in [s for s in g.dshapes() if len(s) >= 2]:
        n = len(sh)
        for m in g.modes(n):
            yield V(f"{_sh(sh)}-vec-m{m}", lambda sh=sh, m=m: {"x": g.T(sh), "f": g.vec(sh[m]), "dims": ia([m])},
                    lambda o: o["x"].scale(o["f"], o["dims"]))
            yield V(f"{_sh(sh)}-vec-int-m{m}", lambda sh=sh, m=m: {"x": g.T(sh), "f": g.vec(sh[m])},
                    lambda o, m=m: o["x"].scale(o["f"], m))
        yield V(f"{_sh(sh)}-tensor-2modes", lambda sh=sh: {"x": g.T(sh), "f": g.T(sh[:2], salt=3), "dims": ia([0, 1])},
                lambda o: o["x"].scale(o["f"], o["dims"]))
        yield V(f"{_sh(sh)}-array-2modes", lambda sh=sh: {"x": g.T(sh), "f": g.arr(sh[:2], salt=3), "dims": ia([0, 1])},
                lambda o: o["x"].scale(o["f"], o["dims"]))
        yield V(f"{_sh(sh)}-tensor-all", lambda sh=sh, n=n: {"x": g.T(sh), "f": g.T(sh, salt=3), "dims": np.arange(n)},
                lambda o: o["x"].scale(o["f"], o["dims"]))


def _squeeze_shapes(g):
    return [(2, 3, 2), (2, 1, 3), (1, 1, 1), (1, 3)] + ([(3,), (1,), (2, 1, 1, 2), (1, 2, 1)] if g.thorough else [])


@reg("tensor.squeeze")
def _(g):
    for sh in _squeeze_shapes(g):
        yield V(_sh(sh), lambda sh=sh: {"x": g.T(sh)}, lambda o: o["x"].squeeze())


@reg("tensor.tenfun")
def _(g):
    for sh in g.dshapes():
        yield V(f"{_sh(sh)}-unary", lambda sh=sh: {"x": g.T(sh)}, lambda o: o["x"].tenfun(lambda a: a + 1))
        yield V(f"{_sh(sh)}-unary-identity", lambda sh=sh: {"x": g.T(sh)}, lambda o: o["x"].tenfun(lambda a: a),
                share_ok=True, why="callback returns its argument")
        for oname, ob in _others_for_tensor(g, sh, ktt=True):
            yield V(f"{_sh(sh)}-binary-{oname}", lambda sh=sh, ob=ob: {"x": g.T(sh), "y": ob()},
                    lambda o: o["x"].tenfun(lambda a, b: a + b, o["y"]))
        yield V(f"{_sh(sh)}-binary-array", lambda sh=sh: {"x": g.T(sh), "y": g.arr(sh, salt=4)},
                lambda o: o["x"].tenfun(lambda a, b: a + b, o["y"]))
        yield V(f"{_sh(sh)}-nary", lambda sh=sh: {"x": g.T(sh), "y": g.T(sh, salt=4), "z": g.T(sh, salt=6)},
                lambda o: o["x"].tenfun(lambda a: np.max(a, axis=0), o["y"], o["z"]))


@reg("tensor.tenfun_binary")
def _(g):
    for sh in g.dshapes():
        for first in (True, False):
            yield V(f"{_sh(sh)}-tensor-{first}", lambda sh=sh: {"x": g.T(sh), "y": g.T(sh, salt=4)},
                    lambda o, first=first: o["x"].tenfun_binary(lambda a, b: a - b, o["y"], first))
            yield V(f"{_sh(sh)}-scalar-{first}", lambda sh=sh: {"x": g.T(sh)},
                    lambda o, first=first: o["x"].tenfun_binary(lambda a, b: a - b, 2.0, first))
        yield V(f"{_sh(sh)}-returns-first", lambda sh=sh: {"x": g.T(sh), "y": g.T(sh, salt=4)},
                lambda o: o["x"].tenfun_binary(lambda a, b: a, o["y"]), share_ok=True,
                why="callback returns its argument")


@reg("tensor.tenfun_unary")
def _(g):
    for sh in g.dshapes():
        yield V(f"{_sh(sh)}-single", lambda sh=sh: {"x": g.T(sh)}, lambda o: o["x"].tenfun_unary(lambda a: a * 2))
        yield V(f"{_sh(sh)}-multi", lambda sh=sh: {"x": g.T(sh), "y": g.T(sh, salt=4)},
                lambda o: o["x"].tenfun_unary(lambda a: np.max(a, axis=0), o["y"]))
        yield V(f"{_sh(sh)}-identity", lambda sh=sh: {"x": g.T(sh)}, lambda o: o["x"].tenfun_unary(lambda a: a),
                share_ok=True, why="callback returns its argument")


def _partitions(g, n):
    """(name, rdims, cdims, cyclic) on both sides of the identity-permutation switch."""
    out = [("r0", [0], None, None), ("rall", list(range(n)), None, None), ("call", None, list(range(n)), None),
           ("rlast", [n - 1], None, None)]
    if n >= 2:
        out += [("r0-explicit", [0], list(range(1, n)), None), ("rev", [n - 1], list(range(n - 2, -1, -1)), None),
                ("fc", [0], None, "fc"), ("bc", [n - 1], None, "bc"), ("t", [0], None, "t")]
    if n >= 3 and g.thorough:
        out += [("r01", [0, 1], None, None), ("r10", [1, 0], None, None), ("rnone", [], None, None),
                ("fc1", [1], None, "fc"), ("bc1", [1], None, "bc")]
    return out


def _to_tenmat_gen(mk):
    def gen(g):
        for sh in g.dshapes():
            for pname, r, c, cyc in _partitions(g, len(sh)):
                for cp in (True, False):
                    def build(sh=sh, r=r, c=c):
                        o = {"x": mk(g, sh)}
                        if r is not None:
                            o["rdims"] = ia(r)
                        if c is not None:
                            o["cdims"] = ia(c)
                        return o

                    def call(o, cyc=cyc, cp=cp):
                        return o["x"].to_tenmat(o.get("rdims"), o.get("cdims"), cyc, copy=cp)
                    yield V(f"{_sh(sh)}-{pname}-{'copy' if cp else 'nocopy'}", build, call, share_ok=not cp,
                            why="" if cp else "copy=False")
    return gen


REG["tensor.to_tenmat"] = _grown_extra(
    _to_tenmat_gen(lambda g, sh: g.T(sh)),
    lambda g: [(nm, (lambda r=r: {"x": g.Tgrown(), "rdims": ia(r)}), (lambda o: o["x"].to_tenmat(o["rdims"])))
               for nm, r in (("r0", [0]), ("rall", [0, 1, 2]), ("r2", [2]))])


def _ttm_gen(mk, shapes):
    def gen(g):
        for sh in shapes(g):
            n = len(sh)
            for mo in g.morders():
                for m in g.modes(n):
                    yield V(f"{_sh(sh)}-{mo}-single-m{m}", lambda sh=sh, m=m, mo=mo: {
                        "x": mk(g, sh), "M": g.mat(2, sh[m], salt=m, order=mo)},
                        lambda o, m=m: o["x"].ttm(o["M"], m))
                    yield V(f"{_sh(sh)}-{mo}-single-m{m}-T", lambda sh=sh, m=m, mo=mo: {
                        "x": mk(g, sh), "M": g.mat(sh[m], 2, salt=m, order=mo)},
                        lambda o, m=m: o["x"].ttm(o["M"], m, transpose=True))
                    yield V(f"{_sh(sh)}-{mo}-square-m{m}", lambda sh=sh, m=m, mo=mo: {
                        "x": mk(g, sh), "M": np.asfortranarray(np.eye(sh[m])) if mo == "F" else np.eye(sh[m])},
                        lambda o, m=m: o["x"].ttm(o["M"], m))
                yield V(f"{_sh(sh)}-{mo}-all", lambda sh=sh, mo=mo: {
                    "x": mk(g, sh), "M": [g.mat(2, s, salt=i, order=mo) for i, s in enumerate(sh)]},
                    lambda o: o["x"].ttm(o["M"]))
                if n >= 2:
                    yield V(f"{_sh(sh)}-{mo}-dims", lambda sh=sh, mo=mo, n=n: {
                        "x": mk(g, sh), "M": [g.mat(2, sh[0], order=mo), g.mat(2, sh[n - 1], salt=1, order=mo)],
                        "dims": ia([0, n - 1])}, lambda o: o["x"].ttm(o["M"], o["dims"]))
                    yield V(f"{_sh(sh)}-{mo}-exclude", lambda sh=sh, mo=mo: {
                        "x": mk(g, sh), "M": [g.mat(2, s, salt=i, order=mo) for i, s in enumerate(sh)],
                        "ex": ia([0])}, lambda o: o["x"].ttm(o["M"], exclude_dims=o["ex"]))
    return gen


REG["tensor.ttm"] = _ttm_gen(lambda g, sh: g.T(sh), lambda g: g.dshapes())


def _ttv_gen(mk, shapes):
    def gen(g):
        for sh in shapes(g):
            n = len(sh)
            for m in g.modes(n):
                yield V(f"{_sh(sh)}-single-m{m}", lambda sh=sh, m=m: {"x": mk(g, sh), "v": g.vec(sh[m], m)},
                        lambda o, m=m: o["x"].ttv(o["v"], m))
            yield V(f"{_sh(sh)}-all", lambda sh=sh: {"x": mk(g, sh), "v": [g.vec(s, i) for i, s in enumerate(sh)]},
                    lambda o: o["x"].ttv(o["v"]))
            if n >= 2:
                yield V(f"{_sh(sh)}-dims", lambda sh=sh, n=n: {
                    "x": mk(g, sh), "v": [g.vec(sh[0]), g.vec(sh[n - 1], 1)], "dims": ia([0, n - 1])},
                    lambda o: o["x"].ttv(o["v"], o["dims"]))
                yield V(f"{_sh(sh)}-exclude", lambda sh=sh: {
                    "x": mk(g, sh), "v": [g.vec(s, i) for i, s in enumerate(sh)], "ex": ia([0])},
                    lambda o: o["x"].ttv(o["v"], exclude_dims=o["ex"]))
    return gen


REG["tensor.ttv"] = _ttv_gen(lambda g, sh: g.T(sh), lambda g: g.dshapes())


@reg("tensor.ttsv")
def _(g):
    for sh in g.cubes():
        n = len(sh)
        for ver in (None, 1):
            for skip in [None, 0, 1] + ([2] if n >= 4 else []):
                if skip is not None and skip >= n - 1:
                    continue
                yield V(f"{_sh(sh)}-v{ver}-skip{skip}", lambda sh=sh: {"x": g.T(sh), "v": g.vec(sh[0])},
                        lambda o, skip=skip, ver=ver: o["x"].ttsv(o["v"], skip, ver))


@reg("tensor.ttt")
def _(g):
    for sh in [(2, 3, 2)] + ([(2, 3), (3,)] if g.thorough else []):
        n = len(sh)
        yield V(f"{_sh(sh)}-outer", lambda sh=sh: {"x": g.T(sh), "y": g.T(sh, salt=4)}, lambda o: o["x"].ttt(o["y"]))
        yield V(f"{_sh(sh)}-mode0", lambda sh=sh: {"x": g.T(sh), "y": g.T(sh, salt=4)},
                lambda o: o["x"].ttt(o["y"], 0, 0))
        yield V(f"{_sh(sh)}-dims-arrays", lambda sh=sh, n=n: {
            "x": g.T(sh), "y": g.T(sh, salt=4), "sd": ia([0, n - 1] if n > 1 else [0]), "od": ia([0, n - 1] if n > 1 else [0])},
            lambda o: o["x"].ttt(o["y"], o["sd"], o["od"]))
        yield V(f"{_sh(sh)}-all", lambda sh=sh, n=n: {"x": g.T(sh), "y": g.T(sh, salt=4), "sd": np.arange(n)},
                lambda o: o["x"].ttt(o["y"], o["sd"]))


def _dense_keys(g, sh):
    """Key forms of dense __getitem__/__setitem__: (name, builder of key, is_array_operand, shape of selection)."""
    n = len(sh)
    N = prod(sh)
    full = tuple(slice(None) for _ in sh)
    out = [
        ("ints", lambda: tuple(s - 1 for s in sh)),
        ("all-slices", lambda: full),
        ("part-slices", lambda: tuple(slice(0, max(1, s - 1)) for s in sh)),
        ("lin-int", lambda: N - 1),
        ("lin-neg-int", lambda: -1),
        ("lin-array", lambda: ia([0, N - 1])),
        ("lin-array-neg", lambda: ia([-1, 0])),
        ("lin-list", lambda: [0, N - 1]),
        ("lin-slice", lambda: slice(None)),
        ("subs-array", lambda: ia([[0] * n, [s - 1 for s in sh]])),
    ]
    if n >= 2:
        out += [
            ("int-slices", lambda: (0,) + full[1:]),
            ("slices-int", lambda: full[:-1] + (sh[-1] - 1,)),
            ("list-mode", lambda: ([0, sh[0] - 1],) + full[1:]),
            ("array-mode", lambda: (ia([0, sh[0] - 1]),) + full[1:]),
            ("neg-int-slices", lambda: (-1,) + full[1:]),
        ]
    return out


def _key_ops(key):
    """Array parts of a key become observed operands."""
    return key


@reg("tensor.__getitem__")
def _(g):
    for sh in g.dshapes():
        for kname, kb in _dense_keys(g, sh):
            yield V(f"{_sh(sh)}-{kname}", lambda sh=sh, kb=kb: {"x": g.T(sh), "key": kb()},
                    lambda o: o["x"][o["key"]])
    if g.thorough:
        for kname, kb in _dense_keys(g, (2, 3, 2)):
            yield V(f"grown-{kname}", lambda kb=kb: {"x": g.Tgrown(), "key": kb()}, lambda o: o["x"][o["key"]])


def _sel_shape(sh, key):
    return np.empty(sh)[key].shape


@reg("tensor.__setitem__")
def _(g):
    for sh in g.dshapes():
        n = len(sh)
        N = prod(sh)
        for kname, kb in _dense_keys(g, sh):
            yield V(f"{_sh(sh)}-{kname}-scalar", lambda sh=sh, kb=kb: {"x": g.T(sh), "key": kb()},
                    lambda o: o["x"].__setitem__(o["key"], 7.0), inplace="x")
            k = kb()
            if isinstance(k, tuple) and not all(isinstance(i, (int, np.integer)) for i in k):
                ss = _sel_shape(sh, tuple(np.array(i) if isinstance(i, list) else i for i in k))
                yield V(f"{_sh(sh)}-{kname}-array", lambda sh=sh, kb=kb, ss=ss: {
                    "x": g.T(sh), "key": kb(), "val": g.arr(ss, salt=3)},
                    lambda o: o["x"].__setitem__(o["key"], o["val"]), inplace="x")
                yield V(f"{_sh(sh)}-{kname}-tensor", lambda sh=sh, kb=kb, ss=ss: {
                    "x": g.T(sh), "key": kb(), "val": g.T(ss, salt=3)},
                    lambda o: o["x"].__setitem__(o["key"], o["val"]), inplace="x")
            elif kname in ("lin-array", "lin-array-neg", "lin-list", "subs-array"):
                yield V(f"{_sh(sh)}-{kname}-array", lambda sh=sh, kb=kb: {
                    "x": g.T(sh), "key": kb(), "val": A([5.0, 6.0])},
                    lambda o: o["x"].__setitem__(o["key"], o["val"]), inplace="x")
            elif kname == "lin-slice":
                yield V(f"{_sh(sh)}-{kname}-array", lambda sh=sh, kb=kb, N=N: {
                    "x": g.T(sh), "key": kb(), "val": g.vec(N)},
                    lambda o: o["x"].__setitem__(o["key"], o["val"]), inplace="x")
        # growth
        yield V(f"{_sh(sh)}-grow-size", lambda sh=sh: {"x": g.T(sh), "key": tuple(s for s in sh)},
                lambda o: o["x"].__setitem__(o["key"], 7.0), inplace="x")
        yield V(f"{_sh(sh)}-grow-order", lambda sh=sh: {"x": g.T(sh), "key": tuple(0 for _ in sh) + (1,)},
                lambda o: o["x"].__setitem__(o["key"], 7.0), inplace="x")
        yield V(f"{_sh(sh)}-grow-subs", lambda sh=sh: {"x": g.T(sh), "key": ia([list(sh)]), "val": A([4.0])},
                lambda o: o["x"].__setitem__(o["key"], o["val"]), inplace="x")
        yield V(f"{_sh(sh)}-grow-slice-array", lambda sh=sh: {
            "x": g.T(sh), "key": (slice(0, sh[0] + 1),) + tuple(slice(None) for _ in sh[1:]),
            "val": g.arr((sh[0] + 1,) + tuple(sh[1:]), salt=3)},
            lambda o: o["x"].__setitem__(o["key"], o["val"]), inplace="x")


def _mttv_left(g):
    from pyttb.tensor import mttv_left
    # W_in: (m1*m2, C) flattened with m1 leading, U1: (m1, C)
    yield V("6x2", lambda: {"W": g.mat(6, 2), "U": g.mat(2, 2, salt=3)}, lambda o: mttv_left(o["W"], o["U"]))
    yield V("2x2-only-mode", lambda: {"W": g.mat(2, 2), "U": g.mat(2, 2, salt=3)}, lambda o: mttv_left(o["W"], o["U"]))


def _mttv_mid(g):
    from pyttb.tensor import mttv_mid
    yield V("mid", lambda: {"W": g.mat(6, 2), "U": [g.mat(3, 2, salt=3)]}, lambda o: mttv_mid(o["W"], o["U"]))
    yield V("mid-2", lambda: {"W": g.mat(12, 2), "U": [g.mat(2, 2, salt=3), g.mat(3, 2, salt=5)]},
            lambda o: mttv_mid(o["W"], o["U"]))


def _min_split(g):
    from pyttb.tensor import min_split
    yield V("tuple", lambda: {"shape": (2, 3, 2)}, lambda o: min_split(o["shape"]))
    yield V("list", lambda: {"shape": [4, 3, 2, 2]}, lambda o: min_split(o["shape"]))


REG["tensor.min_split"] = _min_split
REG["tensor.mttv_left"] = _mttv_left
REG["tensor.mttv_mid"] = _mttv_mid


# ---------------------------------------------------------------------------------------------
# sptensor


def _sp_holders(g, shapes=None):
    """(name, builder, shape) of sparse receivers."""
    for sh in (shapes or g.dshapes()):
        for pat, rev in g.spats():
            yield f"{_sh(sh)}-{pat}{'-rev' if rev else ''}", (lambda sh=sh, pat=pat, rev=rev: g.S(sh, 0, pat, rev)), sh


@reg("sptensor.__init__")
def _(g):
    import pyttb as ttb
    for hname, hb, sh in _sp_holders(g):
        def parts(hb=hb):
            s = hb()
            return {"subs": s.subs.copy(), "vals": s.vals.copy(), "shape": tuple(s.shape)}
        yield V(f"{hname}-copy", parts, lambda o: ttb.sptensor(o["subs"], o["vals"], o["shape"]))
        yield V(f"{hname}-nocopy", parts, lambda o: ttb.sptensor(o["subs"], o["vals"], o["shape"], copy=False),
                share_ok=True, why="copy=False")
        yield V(f"{hname}-infer-shape", parts, lambda o: ttb.sptensor(o["subs"], o["vals"]))
    yield V("empty", lambda: {"shape": (2, 3)}, lambda o: ttb.sptensor(shape=o["shape"]))
    yield V("C-ordered-subs", lambda: {"subs": np.ascontiguousarray(ia([[0, 1], [1, 2]])), "vals": A([[3.0], [4.0]]),
                                       "shape": (2, 3)}, lambda o: ttb.sptensor(o["subs"], o["vals"], o["shape"]))


@reg("sptensor.from_function")
def _(g):
    import pyttb as ttb
    yield V("ones", lambda: {"shape": (2, 3, 2)},
            lambda o: ttb.sptensor.from_function(lambda s: np.ones(s), o["shape"], 0.5))
    yield V("count", lambda: {"shape": (2, 3, 2)},
            lambda o: ttb.sptensor.from_function(lambda s: 2 * np.ones(s), o["shape"], 3))


@reg("sptensor.from_aggregator")
def _(g):
    import pyttb as ttb
    def parts(dup):
        subs = [[0, 0, 0], [1, 2, 1], [1, 2, 1], [0, 1, 1]] if dup else [[0, 0, 0], [1, 2, 1], [0, 1, 1]]
        return {"subs": ia(subs), "vals": g.vec(len(subs)).reshape(-1, 1), "shape": (2, 3, 2)}
    for dup in (False, True):
        for fn in ("sum", "max"):
            yield V(f"{'dup' if dup else 'nodup'}-{fn}", lambda dup=dup: parts(dup),
                    lambda o, fn=fn: ttb.sptensor.from_aggregator(o["subs"], o["vals"], o["shape"], fn))
        yield V(f"{'dup' if dup else 'nodup'}-noshape", lambda dup=dup: parts(dup),
                lambda o: ttb.sptensor.from_aggregator(o["subs"], o["vals"]))
        yield V(f"{'dup' if dup else 'nodup'}-callable", lambda dup=dup: parts(dup),
                lambda o: ttb.sptensor.from_aggregator(o["subs"], o["vals"], o["shape"], np.min))


def _sp_unary_holders(g):
    for hname, hb, _ in _sp_holders(g):
        yield hname, hb
    if not g.thorough:
        yield "2x3x2-empty", (lambda: g.S((2, 3, 2), 0, "empty"))
        yield "2x3x2-half-rev", (lambda: g.S((2, 3, 2), 0, "half", True))


_UN_S = {
    "copy": lambda x: x.copy(), "__deepcopy__": lambda x: _copy.deepcopy(x), "__pos__": lambda x: +x,
    "__neg__": lambda x: -x, "full": lambda x: x.full(), "double": lambda x: x.double(),
    "to_tensor": lambda x: x.to_tensor(), "logical_not": lambda x: x.logical_not(), "find": lambda x: x.find(),
    "norm": lambda x: x.norm(), "nnz": lambda x: x.nnz, "ndims": lambda x: x.ndims, "order": lambda x: x.order,
    "__repr__": lambda x: repr(x), "__str__": lambda x: str(x), "allsubs": lambda x: x.allsubs(),
    "ones": lambda x: x.ones(),
}
for _n, _gen in _unary(_sp_unary_holders, _UN_S).items():
    REG[f"sptensor.{_n}"] = _gen


@reg("sptensor.squash")
def _(g):
    for hname, hb in _sp_unary_holders(g):
        yield V(hname, lambda hb=hb: {"x": hb()}, lambda o: o["x"].squash())
        yield V(f"{hname}-inverse", lambda hb=hb: {"x": hb()}, lambda o: o["x"].squash(True))
    yield V("gappy", lambda: {"x": g.S((3, 4), 0, "single")}, lambda o: o["x"].squash(True))


@reg("sptensor.spmatrix")
def _(g):
    for pat, rev in [("half", False), ("empty", False)] + ([("full", False), ("half", True)] if g.thorough else []):
        yield V(f"2x3-{pat}{'-rev' if rev else ''}", lambda pat=pat, rev=rev: {"x": g.S((2, 3), 0, pat, rev)},
                lambda o: o["x"].spmatrix())


@reg("sptensor.elemfun")
def _(g):
    for hname, hb in _sp_unary_holders(g):
        yield V(f"{hname}-plus1", lambda hb=hb: {"x": hb()}, lambda o: o["x"].elemfun(lambda v: v + 1))
        yield V(f"{hname}-identity", lambda hb=hb: {"x": hb()}, lambda o: o["x"].elemfun(lambda v: v),
                share_ok=True, why="callback returns its argument")


def _others_for_sp(g, sh, dense=True, scalar=True):
    yield "sptensor", (lambda: g.S(sh, salt=5, pat=[1 if i % 3 != 1 else 0 for i in range(prod(sh))]))
    yield "sptensor-empty", (lambda: g.S(sh, pat="empty"))
    if scalar:
        yield "scalar", (lambda: 2.0)
        yield "zero", (lambda: 0.0)
    if dense:
        yield "tensor", (lambda: g.T(sh, salt=5))


def _sp_first(g):
    for hname, hb, sh in _sp_holders(g):
        yield hname, hb, sh
    if not g.thorough:
        yield "2x3x2-empty", (lambda: g.S((2, 3, 2), 0, "empty")), (2, 3, 2)


_BIN_S = {
    "__add__": lambda x, y: x + y, "__sub__": lambda x, y: x - y, "__mul__": lambda x, y: x * y,
    "__rmul__": lambda x, y: y * x if not hasattr(y, "shape") else x.__rmul__(y),
    "__truediv__": lambda x, y: x / y,
    "__rtruediv__": lambda x, y: y / x,
    "__eq__": lambda x, y: x == y, "__ne__": lambda x, y: x != y, "__ge__": lambda x, y: x >= y,
    "__gt__": lambda x, y: x > y, "__le__": lambda x, y: x <= y, "__lt__": lambda x, y: x < y,
    "logical_and": lambda x, y: x.logical_and(y), "logical_or": lambda x, y: x.logical_or(y),
    "logical_xor": lambda x, y: x.logical_xor(y),
}


def _sp_bin_others(name):
    def others(g, sh):
        for oname, ob in _others_for_sp(g, sh):
            if name in ("__add__", "__sub__") and oname in ("scalar", "zero"):
                continue  # sptensor +/- scalar is not defined (documented)
            if name == "__rmul__" and oname not in ("scalar", "zero"):
                continue
            if name == "__rtruediv__" and oname != "scalar":
                continue
            yield oname, ob
        if name in ("__mul__", "__truediv__"):
            # the two element-wise operations that take a Kruskal operand
            yield "ktensor", (lambda: g.K(sh, 2, salt=5))
    return others


for _n, _f in _BIN_S.items():
    REG[f"sptensor.{_n}"] = _binary_gen(_sp_first, _sp_bin_others(_n), _f)


@reg("sptensor.isequal")
def _(g):
    for hname, hb, sh in _sp_first(g):
        for oname, ob in _others_for_sp(g, sh, scalar=False):
            yield V(f"{hname}-{oname}", lambda hb=hb, ob=ob: {"x": hb(), "y": ob()}, lambda o: o["x"].isequal(o["y"]))
        yield V(f"{hname}-same", lambda hb=hb: {"x": hb(), "y": hb()}, lambda o: o["x"].isequal(o["y"]))


@reg("sptensor.innerprod")
def _(g):
    for hname, hb, sh in _sp_first(g):
        for oname, ob in list(_others_for_sp(g, sh, scalar=False)) + [
                ("ktensor", lambda sh=sh: g.K(sh, 2, salt=5)),
                ("ttensor", lambda sh=sh: g.TT(sh, tuple(min(2, s) for s in sh), salt=5))]:
            yield V(f"{hname}-{oname}", lambda hb=hb, ob=ob: {"x": hb(), "y": ob()}, lambda o: o["x"].innerprod(o["y"]))


@reg("sptensor.collapse")
def _(g):
    for hname, hb, sh in _sp_first(g):
        n = len(sh)
        sels = [("all", None), ("none", ia([])), ("first", ia([0])), ("last", ia([n - 1]))]
        if n >= 3:
            sels.append(("two", ia([0, n - 1])))
        for sname, dims in sels:
            for fname, fun in (("sum", None), ("max", np.max)):
                def call(o, fun=fun):
                    kw = {} if fun is None else {"function_handle": fun}
                    return o["x"].collapse(o["dims"], **kw)
                yield V(f"{hname}-{sname}-{fname}", lambda hb=hb, dims=dims: {
                    "x": hb(), "dims": None if dims is None else dims.copy()}, call)


@reg("sptensor.contract")
def _(g):
    for sh in [(2, 2, 3), (2, 2)] + ([(3, 2, 3), (2, 2, 2, 2)] if g.thorough else []):
        i, j = (0, 1) if sh[0] == sh[1] else (0, 2)
        for pat in ("half", "full", "empty"):
            yield V(f"{_sh(sh)}-{pat}", lambda sh=sh, pat=pat: {"x": g.S(sh, 0, pat)},
                    lambda o, i=i, j=j: o["x"].contract(i, j))


@reg("sptensor.extract")
def _(g):
    for hname, hb, sh in _sp_first(g):
        n = len(sh)
        yield V(f"{hname}-two", lambda hb=hb, sh=sh, n=n: {"x": hb(), "q": ia([[0] * n, [s - 1 for s in sh]])},
                lambda o: o["x"].extract(o["q"]))
        yield V(f"{hname}-stored", lambda hb=hb, sh=sh, n=n: {"x": hb(), "q": ia([[0] * n])},
                lambda o: o["x"].extract(o["q"]))


@reg("sptensor.subdims")
def _(g):
    for hname, hb, sh in _sp_first(g):
        n = len(sh)
        yield V(f"{hname}-slices", lambda hb=hb, n=n: {"x": hb(), "region": [slice(None)] * n},
                lambda o: o["x"].subdims(o["region"]))
        yield V(f"{hname}-mixed", lambda hb=hb, sh=sh, n=n: {
            "x": hb(), "region": [ia([0, sh[0] - 1])] + [slice(None)] * (n - 1)},
            lambda o: o["x"].subdims(o["region"]))
        yield V(f"{hname}-ints", lambda hb=hb, n=n: {"x": hb(), "region": [0] * n},
                lambda o: o["x"].subdims(o["region"]))


@reg("sptensor.mask")
def _(g):
    for hname, hb, sh in _sp_first(g):
        for wname, wpat in (("half-other", [1 if i % 3 != 1 else 0 for i in range(prod(sh))]), ("empty", "empty"),
                            ("full", "full")):
            yield V(f"{hname}-{wname}", lambda hb=hb, sh=sh, wpat=wpat: {"x": hb(), "w": g.S(sh, 7, wpat).ones()
                                                                      if wpat != "empty" else g.S(sh, 7, "empty")},
                    lambda o: o["x"].mask(o["w"]))


def _sp_mk(pat="half", rev=False):
    return lambda g, sh: g.S(sh, 0, pat, rev)


def _multi(gens):
    def gen(g):
        for tag, ge in gens:
            for v in ge(g):
                v.name = f"{tag}:{v.name}"
                yield v
    return gen


def _sp_variants(make_gen, quick_pats=(("half", False),), extra_thorough=(("full", False), ("single", False),
                                                                          ("empty", False), ("half", True))):
    def gen(g):
        pats = list(quick_pats) + ([p for p in extra_thorough if p not in quick_pats] if g.thorough else [])
        for pat, rev in pats:
            for v in make_gen(_sp_mk(pat, rev))(g):
                v.name = f"{pat}{'-rev' if rev else ''}:{v.name}"
                yield v
    return gen


REG["sptensor.mttkrp"] = _sp_variants(lambda mk: _mttkrp_gen(mk), quick_pats=(("half", False), ("empty", False)))
REG["sptensor.nvecs"] = _sp_variants(lambda mk: _nvecs_gen(mk), extra_thorough=(("full", False), ("half", True)))
REG["sptensor.permute"] = _sp_variants(lambda mk: _permute_gen(mk, lambda g: g.dshapes()),
                                       quick_pats=(("half", False), ("empty", False)))
REG["sptensor.ttm"] = _sp_variants(lambda mk: _ttm_gen(mk, lambda g: g.dshapes()),
                                   quick_pats=(("half", False), ("full", False)),
                                   extra_thorough=(("single", False), ("empty", False), ("half", True)))
REG["sptensor.ttv"] = _sp_variants(lambda mk: _ttv_gen(mk, lambda g: g.dshapes()),
                                   quick_pats=(("half", False), ("full", False), ("empty", False)),
                                   extra_thorough=(("single", False), ("half", True)))


@reg("sptensor.reshape")
def _(g):
    for hname, hb, sh in _sp_first(g):
        for rname, ns in _reshapes(sh):
            yield V(f"{hname}-{rname}", lambda hb=hb, ns=ns: {"x": hb(), "shape": tuple(ns)},
                    lambda o: o["x"].reshape(o["shape"]))
        if len(sh) >= 3:
            yield V(f"{hname}-old-modes", lambda hb=hb, sh=sh: {"x": hb(), "shape": (sh[0] * sh[1],), "old": ia([0, 1])},
                    lambda o: o["x"].reshape(o["shape"], o["old"]))
            yield V(f"{hname}-old-mode-int", lambda hb=hb, sh=sh: {"x": hb(), "shape": (sh[0], 1)},
                    lambda o: o["x"].reshape(o["shape"], 0))


@reg("sptensor.scale")
def _(g):
    for hname, hb, sh in _sp_first(g):
        if len(sh) < 2:
            continue
        n = len(sh)
        for m in g.modes(n):
            yield V(f"{hname}-vec-m{m}", lambda hb=hb, sh=sh, m=m: {"x": hb(), "f": g.vec(sh[m]), "dims": ia([m])},
                    lambda o: o["x"].scale(o["f"], o["dims"]))
        yield V(f"{hname}-tensor-2modes", lambda hb=hb, sh=sh: {"x": hb(), "f": g.T(sh[:2], salt=3), "dims": ia([0, 1])},
                lambda o: o["x"].scale(o["f"], o["dims"]))
        yield V(f"{hname}-sptensor-2modes", lambda hb=hb, sh=sh: {"x": hb(), "f": g.S(sh[:2], 3, "full"), "dims": ia([0, 1])},
                lambda o: o["x"].scale(o["f"], o["dims"]))


@reg("sptensor.squeeze")
def _(g):
    for sh in _squeeze_shapes(g):
        for pat in ("half", "empty") + (("full",) if g.thorough else ()):
            yield V(f"{_sh(sh)}-{pat}", lambda sh=sh, pat=pat: {"x": g.S(sh, 0, pat)}, lambda o: o["x"].squeeze())


@reg("sptensor.to_sptenmat")
def _(g):
    for hname, hb, sh in _sp_first(g):
        for pname, r, c, cyc in _partitions(g, len(sh)):
            def build(hb=hb, r=r, c=c):
                o = {"x": hb()}
                if r is not None:
                    o["rdims"] = ia(r)
                if c is not None:
                    o["cdims"] = ia(c)
                return o
            yield V(f"{hname}-{pname}", build,
                    lambda o, cyc=cyc: o["x"].to_sptenmat(o.get("rdims"), o.get("cdims"), cyc))


def _sparse_keys(g, sh):
    n = len(sh)
    N = prod(sh)
    full = tuple(slice(None) for _ in sh)
    out = [
        ("ints", lambda: tuple(0 for _ in sh)),
        ("ints-zero-cell", lambda: tuple(s - 1 for s in sh) if prod(sh) % 2 == 0 else tuple([0] * (n - 1) + [1])),
        ("all-slices", lambda: full),
        ("part-slices", lambda: tuple(slice(0, max(1, s - 1)) for s in sh)),
        ("subs-array", lambda: ia([[0] * n, [s - 1 for s in sh]])),
        ("lin-array", lambda: ia([0, N - 1])),
        ("lin-array-neg", lambda: ia([-1, 0])),
        ("lin-list-neg", lambda: [0, -1]),
        ("lin-int", lambda: 0),
        ("lin-slice", lambda: slice(None)),
    ]
    if n >= 2:
        out += [
            ("int-slices", lambda: (0,) + full[1:]),
            ("neg-int-slices", lambda: (-1,) + full[1:]),
            # an ndarray inside a tuple key is not among the documented sparse key forms (it raises): not used
            ("list-mode", lambda: ([0, sh[0] - 1],) + full[1:]),
        ]
    return out


@reg("sptensor.__getitem__")
def _(g):
    for hname, hb, sh in _sp_first(g):
        for kname, kb in _sparse_keys(g, sh):
            yield V(f"{hname}-{kname}", lambda hb=hb, kb=kb: {"x": hb(), "key": kb()}, lambda o: o["x"][o["key"]])


@reg("sptensor.__setitem__")
def _(g):
    for hname, hb, sh in _sp_first(g):
        n = len(sh)
        full = tuple(slice(None) for _ in sh)
        keys = [("ints", lambda sh=sh: tuple(0 for _ in sh)), ("all-slices", lambda full=full: full),
                ("part-slices", lambda sh=sh: tuple(slice(0, max(1, s - 1)) for s in sh)),
                ("grow-ints", lambda sh=sh: tuple(s for s in sh)),
                ("subs-array", lambda sh=sh, n=n: ia([[0] * n, [s - 1 for s in sh]])),
                ("subs-array-grow", lambda sh=sh: ia([list(sh)]))]
        if n >= 2:
            keys += [("int-slices", lambda full=full: (0,) + full[1:]),
                     ("neg-int-slices", lambda full=full: (-1,) + full[1:])]
        for kname, kb in keys:
            for vname, val in (("scalar", 7.0), ("zero", 0.0)):
                yield V(f"{hname}-{kname}-{vname}", lambda hb=hb, kb=kb: {"x": hb(), "key": kb()},
                        lambda o, val=val: o["x"].__setitem__(o["key"], val), inplace="x")
        yield V(f"{hname}-subs-array-vector", lambda hb=hb, sh=sh, n=n: {
            "x": hb(), "key": ia([[0] * n, [s - 1 for s in sh]]), "val": A([[5.0], [6.0]])},
            lambda o: o["x"].__setitem__(o["key"], o["val"]), inplace="x")
        yield V(f"{hname}-subs-array-vector0", lambda hb=hb, sh=sh, n=n: {
            "x": hb(), "key": ia([[0] * n, [s - 1 for s in sh]]), "val": A([[0.0], [6.0]])},
            lambda o: o["x"].__setitem__(o["key"], o["val"]), inplace="x")
        # sparse right-hand side over the leading block
        blk = tuple(max(1, s - 1) for s in sh)
        yield V(f"{hname}-block-sptensor", lambda hb=hb, blk=blk: {
            "x": hb(), "key": tuple(slice(0, b) for b in blk), "val": g.S(blk, 3, "full")},
            lambda o: o["x"].__setitem__(o["key"], o["val"]), inplace="x")
        yield V(f"{hname}-block-sptensor-empty", lambda hb=hb, blk=blk: {
            "x": hb(), "key": tuple(slice(0, b) for b in blk), "val": g.S(blk, 3, "empty")},
            lambda o: o["x"].__setitem__(o["key"], o["val"]), inplace="x")
        yield V(f"{hname}-all-sptensor", lambda hb=hb, sh=sh: {
            "x": hb(), "key": tuple(slice(None) for _ in sh), "val": g.S(sh, 3, "full")},
            lambda o: o["x"].__setitem__(o["key"], o["val"]), inplace="x")


# ---------------------------------------------------------------------------------------------
# ktensor


def _k_holders(g, shapes=None, cubic=False):
    """(name, builder, shape, rank)"""
    shapes = shapes or ([(2, 2, 2)] if cubic else [(2, 3, 2)])
    if g.thorough:
        shapes = list(shapes) + ([(3, 3), (2, 2, 2, 2)] if cubic else [(3,), (2, 3), (2, 2, 2, 2)])
    for sh in shapes:
        # "signs": every weight of magnitude one, not all +1 (e.g. the difference of two default-weight objects)
        ws = [("general", 2, [2.0, -1.0]), ("unit", 2, [1.0, 1.0]), ("signs", 2, [1.0, -1.0])]
        if g.thorough:
            ws += [("rank1", 1, [3.0]), ("rank3", 3, [2.0, -1.0, 3.0]), ("zero-weight", 2, [0.0, 2.0])]
        for wname, R, w in ws:
            yield f"{_sh(sh)}-{wname}", (lambda sh=sh, R=R, w=w: g.K(sh, R, w)), sh, R


@reg("ktensor.__init__")
def _(g):
    import pyttb as ttb
    for sh in [(2, 3, 2)] + ([(3,), (2, 3)] if g.thorough else []):
        for mo in ("F", "C"):
            fb = lambda sh=sh, mo=mo: {"fm": _factors(g, sh, 2, mo), "w": A([2.0, -1.0])}  # noqa: E731
            yield V(f"{_sh(sh)}-{mo}-copy", fb, lambda o: ttb.ktensor(o["fm"], o["w"]))
            yield V(f"{_sh(sh)}-{mo}-noweights", fb, lambda o: ttb.ktensor(o["fm"]))
            if mo == "F":
                yield V(f"{_sh(sh)}-{mo}-nocopy", fb, lambda o: ttb.ktensor(o["fm"], o["w"], copy=False),
                        share_ok=True, why="copy=False")
        yield V(f"{_sh(sh)}-tuple", lambda sh=sh: {"fm": tuple(_factors(g, sh, 2)), "w": A([2.0, -1.0])},
                lambda o: ttb.ktensor(o["fm"], o["w"]))
    yield V("empty", lambda: {}, lambda o: ttb.ktensor())


@reg("ktensor.from_function")
def _(g):
    import pyttb as ttb
    yield V("ones", lambda: {"shape": (2, 3, 2)}, lambda o: ttb.ktensor.from_function(np.ones, o["shape"], 2))
    yield V("rand", lambda: {"shape": (2, 3, 2)},
            lambda o: ttb.ktensor.from_function(lambda s: np.random.random(s), o["shape"], 2))


@reg("ktensor.from_vector")
def _(g):
    import pyttb as ttb
    sh = (2, 3, 2)
    for cw in (True, False):
        n = 2 * (sum(sh) + (1 if cw else 0))
        yield V(f"flat-{cw}", lambda n=n: {"data": g.vec(n), "shape": sh},
                lambda o, cw=cw: ttb.ktensor.from_vector(o["data"], o["shape"], cw))
        if not cw:  # 2-D vectors together with weights are rejected by the constructor (C08's finding, not C05's)
            yield V(f"row-{cw}", lambda n=n: {"data": g.vec(n).reshape(1, n), "shape": sh},
                    lambda o, cw=cw: ttb.ktensor.from_vector(o["data"], o["shape"], cw))
            yield V(f"col-{cw}", lambda n=n: {"data": g.vec(n).reshape(n, 1), "shape": sh},
                    lambda o, cw=cw: ttb.ktensor.from_vector(o["data"], o["shape"], cw))


def _k_un_holders(g):
    for hname, hb, _, _ in _k_holders(g):
        yield hname, hb


_UN_K = {
    "copy": lambda x: x.copy(), "__deepcopy__": lambda x: _copy.deepcopy(x), "__pos__": lambda x: +x,
    "__neg__": lambda x: -x, "full": lambda x: x.full(), "double": lambda x: x.double(),
    "to_tensor": lambda x: x.to_tensor(), "norm": lambda x: x.norm(), "ndims": lambda x: x.ndims,
    "order": lambda x: x.order, "ncomponents": lambda x: x.ncomponents, "shape": lambda x: x.shape,
    "__repr__": lambda x: repr(x), "__str__": lambda x: str(x),
}
for _n, _gen in _unary(_k_un_holders, _UN_K).items():
    REG[f"ktensor.{_n}"] = _gen


@reg("ktensor.tovec")
def _(g):
    for hname, hb, _, _ in _k_holders(g):
        for iw in (True, False):
            yield V(f"{hname}-{iw}", lambda hb=hb: {"x": hb()}, lambda o, iw=iw: o["x"].tovec(iw))


@reg("ktensor.tolist")
def _(g):
    for hname, hb, sh, _ in _k_holders(g):
        yield V(f"{hname}-all", lambda hb=hb: {"x": hb()}, lambda o: o["x"].tolist())
        for m in g.modes(len(sh)):
            yield V(f"{hname}-mode{m}", lambda hb=hb: {"x": hb()}, lambda o, m=m: o["x"].tolist(m))


@reg("ktensor.issymmetric")
def _(g):
    import pyttb as ttb
    for hname, hb, sh, R in _k_holders(g, cubic=True):
        yield V(hname, lambda hb=hb: {"x": hb()}, lambda o: o["x"].issymmetric())
        yield V(f"{hname}-diffs", lambda hb=hb: {"x": hb()}, lambda o: o["x"].issymmetric(return_diffs=True))
    yield V("symmetric", lambda: {"x": ttb.ktensor([g.mat(2, 2) for _ in range(3)], A([2.0, -1.0]))},
            lambda o: o["x"].issymmetric(return_diffs=True))


@reg("ktensor.symmetrize")
def _(g):
    import pyttb as ttb
    for hname, hb, sh, R in _k_holders(g, cubic=True):
        yield V(hname, lambda hb=hb: {"x": hb()}, lambda o: o["x"].symmetrize())
    yield V("symmetric", lambda: {"x": ttb.ktensor([g.mat(2, 2) for _ in range(3)], A([2.0, -1.0]))},
            lambda o: o["x"].symmetrize())


def _k_addsub(fn):
    def gen(g):
        for hname, hb, sh, R in _k_holders(g):
            yield V(f"{hname}-ktensor", lambda hb=hb, sh=sh: {"x": hb(), "y": g.K(sh, 2, [3.0, 1.0], salt=5)},
                    lambda o: fn(o["x"], o["y"]))
    return gen


REG["ktensor.__add__"] = _k_addsub(lambda x, y: x + y)
REG["ktensor.__sub__"] = _k_addsub(lambda x, y: x - y)


@reg("ktensor.__mul__")
def _(g):
    for hname, hb, sh, R in _k_holders(g):
        yield V(f"{hname}-scalar", lambda hb=hb: {"x": hb()}, lambda o: o["x"] * 3.0)
        yield V(f"{hname}-one", lambda hb=hb: {"x": hb()}, lambda o: o["x"] * 1)


@reg("ktensor.__rmul__")
def _(g):
    for hname, hb, sh, R in _k_holders(g):
        yield V(f"{hname}-scalar", lambda hb=hb: {"x": hb()}, lambda o: 3.0 * o["x"])


@reg("ktensor.arrange")
def _(g):
    for hname, hb, sh, R in _k_holders(g):
        yield V(f"{hname}-default", lambda hb=hb: {"x": hb()}, lambda o: o["x"].arrange(), inplace="x")
        yield V(f"{hname}-weight-factor", lambda hb=hb: {"x": hb()}, lambda o: o["x"].arrange(weight_factor=0),
                inplace="x")
        yield V(f"{hname}-perm-array", lambda hb=hb, R=R: {"x": hb(), "p": ia(list(range(R))[::-1])},
                lambda o: o["x"].arrange(permutation=o["p"]), inplace="x")
        yield V(f"{hname}-perm-identity", lambda hb=hb, R=R: {"x": hb(), "p": ia(list(range(R)))},
                lambda o: o["x"].arrange(permutation=o["p"]), inplace="x")
        yield V(f"{hname}-perm-list", lambda hb=hb, R=R: {"x": hb(), "p": list(range(R))[::-1]},
                lambda o: o["x"].arrange(permutation=o["p"]), inplace="x")


@reg("ktensor.extract")
def _(g):
    for hname, hb, sh, R in _k_holders(g):
        yield V(f"{hname}-none", lambda hb=hb: {"x": hb()}, lambda o: o["x"].extract())
        yield V(f"{hname}-int", lambda hb=hb: {"x": hb()}, lambda o: o["x"].extract(0))
        yield V(f"{hname}-all-array", lambda hb=hb, R=R: {"x": hb(), "idx": ia(list(range(R)))},
                lambda o: o["x"].extract(o["idx"]))
        yield V(f"{hname}-last-list", lambda hb=hb, R=R: {"x": hb(), "idx": [R - 1]}, lambda o: o["x"].extract(o["idx"]))
        yield V(f"{hname}-tuple", lambda hb=hb, R=R: {"x": hb()}, lambda o, R=R: o["x"].extract((R - 1,)))


def _fixsigns_oob(e):
    return isinstance(e, IndexError) and "out of bounds" in str(e)


@reg("ktensor.fixsigns")
def _(g):
    for hname, hb, sh, R in _k_holders(g):
        yield V(f"{hname}-self", lambda hb=hb: {"x": hb()}, lambda o: o["x"].fixsigns(), inplace="x")
        if len(sh) < 2:
            continue  # fixsigns(other) of a one-way Kruskal tensor raises IndexError (C08's territory)
        # an odd number of negatively correlated modes makes fixsigns(other) index past its score vector
        # (IndexError; C08's finding "fixsigns-other-odd-flips"): outside C05's quantifier, operands still compared
        yield V(f"{hname}-other", lambda hb=hb, sh=sh, R=R: {"x": hb(), "other": g.K(sh, R, [3.0, -2.0, 1.0][:R], salt=5)},
                lambda o: o["x"].fixsigns(o["other"]), inplace="x", tolerate=_fixsigns_oob)
        yield V(f"{hname}-other-normalized", lambda hb=hb, sh=sh, R=R: {
            "x": hb(), "other": g.K(sh, R, [3.0, -2.0, 1.0][:R], salt=5).normalize()},
            lambda o: o["x"].fixsigns(o["other"]), inplace="x", tolerate=_fixsigns_oob)


@reg("ktensor.innerprod")
def _(g):
    for hname, hb, sh, R in _k_holders(g):
        for oname, ob in (("tensor", lambda sh=sh: g.T(sh, salt=5)), ("sptensor", lambda sh=sh: g.S(sh, salt=5)),
                          ("ktensor", lambda sh=sh: g.K(sh, 2, salt=5)),
                          ("ttensor", lambda sh=sh: g.TT(sh, tuple(min(2, s) for s in sh), salt=5))):
            yield V(f"{hname}-{oname}", lambda hb=hb, ob=ob: {"x": hb(), "y": ob()}, lambda o: o["x"].innerprod(o["y"]))


@reg("ktensor.isequal")
def _(g):
    for hname, hb, sh, R in _k_holders(g):
        yield V(f"{hname}-same", lambda hb=hb: {"x": hb(), "y": hb()}, lambda o: o["x"].isequal(o["y"]))
        yield V(f"{hname}-other", lambda hb=hb, sh=sh: {"x": hb(), "y": g.K(sh, 2, salt=5)},
                lambda o: o["x"].isequal(o["y"]))


@reg("ktensor.mask")
def _(g):
    import pyttb as ttb
    for hname, hb, sh, R in _k_holders(g):
        yield V(f"{hname}-tensor", lambda hb=hb, sh=sh: {
            "x": hb(), "w": ttb.tensor(np.asfortranarray(rm.arr(sh, [float(p) for p in g.half(sh)])))},
            lambda o: o["x"].mask(o["w"]))
        yield V(f"{hname}-sptensor", lambda hb=hb, sh=sh: {"x": hb(), "w": g.S(sh, 3).ones()},
                lambda o: o["x"].mask(o["w"]))
        yield V(f"{hname}-empty", lambda hb=hb, sh=sh: {"x": hb(), "w": g.S(sh, 3, "empty")},
                lambda o: o["x"].mask(o["w"]))


def _k_mk(w):
    return lambda g, sh: g.K(sh, 2, w)


REG["ktensor.mttkrp"] = _multi([("general", _mttkrp_gen(_k_mk([2.0, -1.0]))), ("unit", _mttkrp_gen(_k_mk([1.0, 1.0])))])
REG["ktensor.nvecs"] = _multi([("general", _nvecs_gen(_k_mk([2.0, -1.0]))), ("unit", _nvecs_gen(_k_mk([1.0, 1.0])))])
REG["ktensor.permute"] = _multi([("general", _permute_gen(_k_mk([2.0, -1.0]), lambda g: g.dshapes())),
                                 ("unit", _permute_gen(_k_mk([1.0, 1.0]), lambda g: [(2, 3, 2)]))])
REG["ktensor.ttv"] = _multi([("general", _ttv_gen(_k_mk([2.0, -1.0]), lambda g: g.dshapes())),
                             ("unit", _ttv_gen(_k_mk([1.0, 1.0]), lambda g: [(2, 3, 2)]))])
REG["ktensor.to_tenmat"] = _to_tenmat_gen(lambda g, sh: g.K(sh, 2))


@reg("ktensor.normalize")
def _(g):
    for hname, hb, sh, R in _k_holders(g):
        opts = [("default", {}), ("wf0", {"weight_factor": 0}), ("wf-all", {"weight_factor": "all"}),
                ("sort", {"sort": True}), ("norm1", {"normtype": 1}), ("mode0", {"mode": 0}),
                ("mode-last", {"mode": len(sh) - 1})]
        for oname, kw in opts:
            yield V(f"{hname}-{oname}", lambda hb=hb: {"x": hb()}, lambda o, kw=kw: o["x"].normalize(**kw), inplace="x")


@reg("ktensor.redistribute")
def _(g):
    for hname, hb, sh, R in _k_holders(g):
        for m in g.modes(len(sh)):
            yield V(f"{hname}-m{m}", lambda hb=hb: {"x": hb()}, lambda o, m=m: o["x"].redistribute(m), inplace="x")


@reg("ktensor.score")
def _(g):
    for hname, hb, sh, R in _k_holders(g):
        for wp in (True, False):
            yield V(f"{hname}-other-{wp}", lambda hb=hb, sh=sh, R=R: {
                "x": hb(), "y": g.K(sh, min(R, 2), [3.0, 1.0][:min(R, 2)], salt=5)},
                lambda o, wp=wp: o["x"].score(o["y"], weight_penalty=wp))
        yield V(f"{hname}-same", lambda hb=hb: {"x": hb(), "y": hb()}, lambda o: o["x"].score(o["y"]))
        yield V(f"{hname}-threshold", lambda hb=hb: {"x": hb(), "y": hb()}, lambda o: o["x"].score(o["y"], threshold=0.5))

        # non-initial state: a receiver already in normal form (normalised in place), matched against the same
        # components listed in the other order (the best matching is not the identity)
        def fb(hb=hb, R=R):
            x = hb()
            x.normalize()
            y = hb()
            if R >= 2:
                y.arrange(permutation=list(range(R - 1, -1, -1)))
            return {"x": x, "y": y}
        yield V(f"{hname}-normalized-reordered", fb, lambda o: o["x"].score(o["y"]))


@reg("ktensor.update")
def _(g):
    for hname, hb, sh, R in _k_holders(g):
        yield V(f"{hname}-weights", lambda hb=hb, R=R: {"x": hb(), "modes": ia([-1]), "data": g.vec(R)},
                lambda o: o["x"].update(o["modes"], o["data"]), inplace="x")
        yield V(f"{hname}-mode0", lambda hb=hb, sh=sh, R=R: {"x": hb(), "data": g.vec(R * sh[0])},
                lambda o: o["x"].update(0, o["data"]), inplace="x")
        n = len(sh)
        yield V(f"{hname}-all", lambda hb=hb, sh=sh, R=R, n=n: {
            "x": hb(), "modes": ia([-1] + list(range(n))), "data": g.vec(R * (1 + sum(sh)))},
            lambda o: o["x"].update(o["modes"], o["data"]), inplace="x")
        yield V(f"{hname}-list-modes", lambda hb=hb, sh=sh, R=R, n=n: {
            "x": hb(), "modes": [0, n - 1] if n > 1 else [0], "data": g.vec(R * (sh[0] + (sh[n - 1] if n > 1 else 0)))},
            lambda o: o["x"].update(o["modes"], o["data"]), inplace="x")


def _viz(x, **kw):
    import matplotlib.pyplot as plt
    try:
        x.viz(show_figure=False, **kw)
    finally:
        plt.close("all")
    return None


@reg("ktensor.viz")
def _(g):
    # receiver exempt (normalize=True documents the in-place normalisation); the figure is not an array result
    for hname, hb, sh, R in list(_k_holders(g))[:3]:
        if R < 2 or len(sh) < 2:
            continue
        yield V(f"{hname}-default", lambda hb=hb: {"x": hb()}, lambda o: _viz(o["x"]), inplace="x")
        yield V(f"{hname}-options", lambda hb=hb, sh=sh, R=R: {
            "x": hb(), "rel_widths": [1] * len(sh), "titles": ["m"] * len(sh)},
            lambda o: _viz(o["x"], normalize=False, rel_widths=o["rel_widths"],
                           mode_titles=o["titles"], title="t"), inplace="x")


# ---------------------------------------------------------------------------------------------
# ttensor


def _tt_holders(g):
    shapes = [(2, 3, 2)] + ([(3,), (2, 3), (2, 2, 2, 2)] if g.thorough else [])
    for sh in shapes:
        core = tuple(min(2, s) for s in sh)
        yield f"{_sh(sh)}-dense", (lambda sh=sh, core=core: g.TT(sh, core)), sh
        yield f"{_sh(sh)}-sparse", (lambda sh=sh, core=core: g.TT(sh, core, sparse_core=True)), sh
        if g.thorough and len(sh) == 3:
            yield f"{_sh(sh)}-core1", (lambda sh=sh: g.TT(sh, (1, 2, 1))), sh


@reg("ttensor.__init__")
def _(g):
    import pyttb as ttb
    for sparse in (False, True):
        for mo in ("F", "C"):
            def fb(sparse=sparse, mo=mo):
                sh, core = (2, 3, 2), (2, 2, 2)
                return {"core": g.S(core, 1) if sparse else g.T(core, 1),
                        "fm": [g.mat(s, c, salt=3 * n, order=mo) for n, (s, c) in enumerate(zip(sh, core))]}
            nm = f"{'sparse' if sparse else 'dense'}-{mo}"
            yield V(f"{nm}-copy", fb, lambda o: ttb.ttensor(o["core"], o["fm"]))
            if mo == "F":
                yield V(f"{nm}-nocopy", fb, lambda o: ttb.ttensor(o["core"], o["fm"], copy=False), share_ok=True,
                        why="copy=False")
    yield V("empty", lambda: {}, lambda o: ttb.ttensor())

    def fb_sp():
        from scipy import sparse
        sh, core = (2, 3, 2), (2, 2, 2)
        return {"core": g.S(core, 1), "fm": [sparse.coo_matrix(g.mat(s, c, salt=3 * n)) for n, (s, c) in enumerate(zip(sh, core))]}
    yield V("spfac-copy", fb_sp, lambda o: ttb.ttensor(o["core"], o["fm"]))


def _tt_un_holders(g):
    for hname, hb, _ in _tt_holders(g):
        yield hname, hb
    # scipy-sparse factor matrices (with a sparse core): the arrays inside the sparse matrices are operands too.  Only
    # for the whole-object operations below and permute (innerprod / isequal / reconstruct / copy=False construction do
    # not take sparse factors: they raise)
    yield "2x3x2-spfac", (lambda: g.TT((2, 3, 2), (2, 2, 2), sparse_core=True, sparse_factors=True))


_UN_TT = {
    "copy": lambda x: x.copy(), "__deepcopy__": lambda x: _copy.deepcopy(x), "__pos__": lambda x: +x,
    "__neg__": lambda x: -x, "full": lambda x: x.full(), "double": lambda x: x.double(),
    "to_tensor": lambda x: x.to_tensor(), "norm": lambda x: x.norm(), "ndims": lambda x: x.ndims,
    "order": lambda x: x.order, "shape": lambda x: x.shape, "__repr__": lambda x: repr(x), "__str__": lambda x: str(x),
    "__mul__": lambda x: x * 3.0, "__rmul__": lambda x: 3.0 * x,
}
for _n, _gen in _unary(_tt_un_holders, _UN_TT).items():
    REG[f"ttensor.{_n}"] = _gen


@reg("ttensor.innerprod")
def _(g):
    for hname, hb, sh in _tt_holders(g):
        for oname, ob in (("tensor", lambda sh=sh: g.T(sh, salt=5)), ("sptensor", lambda sh=sh: g.S(sh, salt=5)),
                          ("ktensor", lambda sh=sh: g.K(sh, 2, salt=5)),
                          ("ttensor", lambda sh=sh: g.TT(sh, tuple(min(2, s) for s in sh), salt=5)),
                          ("ttensor-small-core", lambda sh=sh: g.TT(sh, tuple(1 for _ in sh), salt=5))):
            yield V(f"{hname}-{oname}", lambda hb=hb, ob=ob: {"x": hb(), "y": ob()}, lambda o: o["x"].innerprod(o["y"]))


@reg("ttensor.isequal")
def _(g):
    for hname, hb, sh in _tt_holders(g):
        yield V(f"{hname}-same", lambda hb=hb: {"x": hb(), "y": hb()}, lambda o: o["x"].isequal(o["y"]))
        yield V(f"{hname}-other", lambda hb=hb, sh=sh: {"x": hb(), "y": g.TT(sh, tuple(min(2, s) for s in sh), salt=5)},
                lambda o: o["x"].isequal(o["y"]))


def _tt_mk(sparse):
    return lambda g, sh: g.TT(sh, tuple(min(2, s) for s in sh), sparse_core=sparse)


REG["ttensor.mttkrp"] = _multi([("dense", _mttkrp_gen(_tt_mk(False))), ("sparse", _mttkrp_gen(_tt_mk(True)))])
REG["ttensor.nvecs"] = _multi([("dense", _nvecs_gen(_tt_mk(False))), ("sparse", _nvecs_gen(_tt_mk(True)))])
REG["ttensor.permute"] = _multi([("dense", _permute_gen(_tt_mk(False), lambda g: g.dshapes())),
                                 ("sparse", _permute_gen(_tt_mk(True), lambda g: [(2, 3, 2)])),
                                 ("spfac", _permute_gen(lambda g, sh: g.TT(sh, tuple(min(2, s) for s in sh), sparse_core=True,
                                                                           sparse_factors=True), lambda g: [(2, 3, 2)]))])
REG["ttensor.ttv"] = _multi([("dense", _ttv_gen(_tt_mk(False), lambda g: g.dshapes())),
                             ("sparse", _ttv_gen(_tt_mk(True), lambda g: [(2, 3, 2)]))])
REG["ttensor.ttm"] = _multi([("dense", _ttm_gen(_tt_mk(False), lambda g: g.dshapes())),
                             ("sparse", _ttm_gen(_tt_mk(True), lambda g: [(2, 3, 2)]))])


@reg("ttensor.reconstruct")
def _(g):
    for hname, hb, sh in _tt_holders(g):
        n = len(sh)
        yield V(f"{hname}-full", lambda hb=hb: {"x": hb()}, lambda o: o["x"].reconstruct())
        yield V(f"{hname}-index-mode0", lambda hb=hb: {"x": hb(), "samples": ia([0]), "modes": ia([0])},
                lambda o: o["x"].reconstruct(o["samples"], o["modes"]))
        yield V(f"{hname}-scalar-mode0", lambda hb=hb: {"x": hb()}, lambda o: o["x"].reconstruct(0, 0))
        yield V(f"{hname}-matrix-mode0", lambda hb=hb, sh=sh: {"x": hb(), "samples": [g.mat(2, sh[0])], "modes": [0]},
                lambda o: o["x"].reconstruct(o["samples"], o["modes"]))
        yield V(f"{hname}-all-modes", lambda hb=hb, sh=sh: {"x": hb(), "samples": [ia([0, s - 1]) for s in sh]},
                lambda o: o["x"].reconstruct(o["samples"]))
        if n >= 2:
            yield V(f"{hname}-two-modes", lambda hb=hb, sh=sh, n=n: {
                "x": hb(), "samples": [ia([0]), ia([sh[n - 1] - 1, 0])], "modes": ia([0, n - 1])},
                lambda o: o["x"].reconstruct(o["samples"], o["modes"]))


# ---------------------------------------------------------------------------------------------
# sumtensor


def _sum_holders(g):
    kinds = ["tk", "s", "t", "tsku"] if not g.thorough else ["tk", "s", "t", "k", "u", "tsku", "kk"]
    shapes = [(2, 3, 2)] + ([(2, 3)] if g.thorough else [])
    for sh in shapes:
        for k in kinds:
            yield f"{_sh(sh)}-{k}", (lambda sh=sh, k=k: g.SUM(sh, k)), sh


@reg("sumtensor.__init__")
def _(g):
    import pyttb as ttb
    for kinds in ("tk", "s", "tsku"):
        def fb(kinds=kinds):
            return {"parts": list(g.SUM((2, 3, 2), kinds).parts)}
        yield V(f"{kinds}-copy", fb, lambda o: ttb.sumtensor(o["parts"]))
        yield V(f"{kinds}-nocopy", fb, lambda o: ttb.sumtensor(o["parts"], copy=False), share_ok=True, why="copy=False")
    yield V("empty", lambda: {}, lambda o: ttb.sumtensor())


def _sum_un_holders(g):
    for hname, hb, _ in _sum_holders(g):
        yield hname, hb


_UN_SUM = {
    "copy": lambda x: x.copy(), "__deepcopy__": lambda x: _copy.deepcopy(x), "__pos__": lambda x: +x,
    "__neg__": lambda x: -x, "full": lambda x: x.full(), "double": lambda x: x.double(),
    "to_tensor": lambda x: x.to_tensor(), "norm": lambda x: x.norm(), "ndims": lambda x: x.ndims,
    "order": lambda x: x.order, "shape": lambda x: x.shape, "__repr__": lambda x: repr(x), "__str__": lambda x: str(x),
}
for _n, _gen in _unary(_sum_un_holders, _UN_SUM).items():
    REG[f"sumtensor.{_n}"] = _gen


def _sum_add(fn):
    def gen(g):
        for hname, hb, sh in _sum_holders(g):
            for oname, ob in (("tensor", lambda sh=sh: g.T(sh, salt=5)), ("sptensor", lambda sh=sh: g.S(sh, salt=5)),
                              ("ktensor", lambda sh=sh: g.K(sh, 2, salt=5)),
                              ("ttensor", lambda sh=sh: g.TT(sh, tuple(min(2, s) for s in sh), salt=5))):
                # (sumtensor + sumtensor is rejected with a TypeError: not an admissible operand)
                yield V(f"{hname}-{oname}", lambda hb=hb, ob=ob: {"x": hb(), "y": ob()}, lambda o: fn(o["x"], o["y"]))
    return gen


REG["sumtensor.__add__"] = _sum_add(lambda x, y: x + y)
REG["sumtensor.__radd__"] = _sum_add(lambda x, y: x.__radd__(y))


@reg("sumtensor.innerprod")
def _(g):
    for hname, hb, sh in _sum_holders(g):
        for oname, ob in (("tensor", lambda sh=sh: g.T(sh, salt=5)), ("sptensor", lambda sh=sh: g.S(sh, salt=5)),
                          ("ktensor", lambda sh=sh: g.K(sh, 2, salt=5)),
                          ("ttensor", lambda sh=sh: g.TT(sh, tuple(min(2, s) for s in sh), salt=5))):
            yield V(f"{hname}-{oname}", lambda hb=hb, ob=ob: {"x": hb(), "y": ob()}, lambda o: o["x"].innerprod(o["y"]))


def _sum_mk(kinds):
    return lambda g, sh: g.SUM(sh, kinds)


REG["sumtensor.mttkrp"] = _multi([("tk", _mttkrp_gen(_sum_mk("tk"))), ("tsku", _mttkrp_gen(_sum_mk("tsku")))])
REG["sumtensor.ttv"] = _multi([("tk", _ttv_gen(_sum_mk("tk"), lambda g: [(2, 3, 2)])),
                               ("tsku", _ttv_gen(_sum_mk("tsku"), lambda g: [(2, 3, 2)])),
                               ("s", _ttv_gen(_sum_mk("s"), lambda g: [(2, 3, 2)]))])


# ---------------------------------------------------------------------------------------------
# tenmat


def _tm_holders(g):
    cfgs = [((2, 3, 2), (0,), None), ((2, 3, 2), (0, 1, 2), None), ((2, 3, 2), (), None)]
    if g.thorough:
        cfgs += [((2, 3, 2), (2,), (1, 0)), ((2, 3), (0,), None), ((3,), (0,), None), ((2, 3, 2), (1, 0), None)]
    for sh, r, c in cfgs:
        yield f"{_sh(sh)}-r{''.join(map(str, r)) or 'none'}" + ("" if c is None else f"-c{''.join(map(str, c))}"), \
            (lambda sh=sh, r=r, c=c: g.TM(sh, r, c)), sh, r, c


@reg("tenmat.__init__")
def _(g):
    import pyttb as ttb
    for hname, hb, sh, r, c in _tm_holders(g):
        for mo in ("F", "C"):
            def fb(hb=hb, mo=mo):
                m = hb()
                d = np.asfortranarray(m.data.copy()) if mo == "F" else np.ascontiguousarray(m.data.copy())
                return {"data": d, "rdims": m.rindices.copy(), "cdims": m.cindices.copy(), "tshape": tuple(m.tshape)}
            yield V(f"{hname}-{mo}-copy", fb, lambda o: ttb.tenmat(o["data"], o["rdims"], o["cdims"], o["tshape"]))
            yield V(f"{hname}-{mo}-nocopy", fb,
                    lambda o: ttb.tenmat(o["data"], o["rdims"], o["cdims"], o["tshape"], copy=False), share_ok=True,
                    why="copy=False")
        yield V(f"{hname}-rdims-only", lambda hb=hb: (lambda m: {"data": m.data.copy(order="F"), "rdims": m.rindices.copy(),
                                                             "tshape": tuple(m.tshape)})(hb()),
                lambda o: ttb.tenmat(o["data"], o["rdims"], tshape=o["tshape"]))
    yield V("empty", lambda: {}, lambda o: ttb.tenmat())


def _tm_un_holders(g):
    for hname, hb, *_ in _tm_holders(g):
        yield hname, hb


_UN_TM = {
    "copy": lambda x: x.copy(), "__deepcopy__": lambda x: _copy.deepcopy(x), "__pos__": lambda x: +x,
    "__neg__": lambda x: -x, "double": lambda x: x.double(), "ctranspose": lambda x: x.ctranspose(),
    "norm": lambda x: x.norm(), "ndims": lambda x: x.ndims, "order": lambda x: x.order, "shape": lambda x: x.shape,
    "__repr__": lambda x: repr(x), "__str__": lambda x: str(x),
}
for _n, _gen in _unary(_tm_un_holders, _UN_TM).items():
    REG[f"tenmat.{_n}"] = _gen


@reg("tenmat.to_tensor")
def _(g):
    for hname, hb, *_ in _tm_holders(g):
        yield V(f"{hname}-copy", lambda hb=hb: {"x": hb()}, lambda o: o["x"].to_tensor())
        yield V(f"{hname}-nocopy", lambda hb=hb: {"x": hb()}, lambda o: o["x"].to_tensor(copy=False), share_ok=True,
                why="copy=False")


@reg("tenmat.isequal")
def _(g):
    for hname, hb, sh, r, c in _tm_holders(g):
        yield V(f"{hname}-same", lambda hb=hb: {"x": hb(), "y": hb()}, lambda o: o["x"].isequal(o["y"]))
        yield V(f"{hname}-other", lambda hb=hb, sh=sh, r=r, c=c: {"x": hb(), "y": g.TM(sh, r, c, salt=5)},
                lambda o: o["x"].isequal(o["y"]))


def _tm_bin(fn, scalar=True, matmul=False):
    def gen(g):
        for hname, hb, sh, r, c in _tm_holders(g):
            if matmul:
                yield V(f"{hname}-tenmat", lambda hb=hb: {"x": hb(), "y": hb().ctranspose()}, lambda o: fn(o["x"], o["y"]))
            else:
                yield V(f"{hname}-tenmat", lambda hb=hb, sh=sh, r=r, c=c: {"x": hb(), "y": g.TM(sh, r, c, salt=5)},
                        lambda o: fn(o["x"], o["y"]))
            if scalar:
                yield V(f"{hname}-scalar", lambda hb=hb: {"x": hb()}, lambda o: fn(o["x"], 3.0))
    return gen


REG["tenmat.__add__"] = _tm_bin(lambda x, y: x + y)
REG["tenmat.__radd__"] = _tm_bin(lambda x, y: x.__radd__(y))
REG["tenmat.__sub__"] = _tm_bin(lambda x, y: x - y)
REG["tenmat.__rsub__"] = _tm_bin(lambda x, y: x.__rsub__(y))
REG["tenmat.__mul__"] = _tm_bin(lambda x, y: x * y, matmul=True)
REG["tenmat.__rmul__"] = _tm_bin(lambda x, y: x.__rmul__(y), matmul=True)


def _mat_keys(shape2):
    r, c = shape2
    return [("ints", lambda: (r - 1, c - 1)), ("all-slices", lambda: (slice(None), slice(None))),
            ("row-slice", lambda: (slice(0, 1), slice(None))), ("row-int", lambda: (0, slice(None))),
            ("arrays", lambda: (ia([0, r - 1]), ia([0, c - 1]))), ("single", lambda: 0),
            ("neg", lambda: (-1, -1)), ("bool-mask", lambda: np.ones((r, c), dtype=bool))]


@reg("tenmat.__getitem__")
def _(g):
    for hname, hb, sh, r, c in _tm_holders(g):
        s2 = tuple(int(i) for i in hb().shape)
        for kname, kb in _mat_keys(s2):
            yield V(f"{hname}-{kname}", lambda hb=hb, kb=kb: {"x": hb(), "key": kb()}, lambda o: o["x"][o["key"]])


@reg("tenmat.__setitem__")
def _(g):
    for hname, hb, sh, r, c in _tm_holders(g):
        s2 = tuple(int(i) for i in hb().shape)
        for kname, kb in _mat_keys(s2):
            yield V(f"{hname}-{kname}-scalar", lambda hb=hb, kb=kb: {"x": hb(), "key": kb()},
                    lambda o: o["x"].__setitem__(o["key"], 7.0), inplace="x")
        yield V(f"{hname}-all-array", lambda hb=hb, s2=s2: {"x": hb(), "key": (slice(None), slice(None)),
                                                            "val": g.mat(s2[0], s2[1], salt=5)},
                lambda o: o["x"].__setitem__(o["key"], o["val"]), inplace="x")
        yield V(f"{hname}-row-array", lambda hb=hb, s2=s2: {"x": hb(), "key": (0, slice(None)), "val": g.vec(s2[1])},
                lambda o: o["x"].__setitem__(o["key"], o["val"]), inplace="x")


# ---------------------------------------------------------------------------------------------
# sptenmat


def _sm_holders(g):
    cfgs = [((2, 3, 2), (0,), None, "half"), ((2, 3, 2), (0, 1, 2), None, "half"), ((2, 3, 2), (0,), None, "empty")]
    if g.thorough:
        cfgs += [((2, 3, 2), (2,), (1, 0), "half"), ((2, 3), (0,), None, "full"), ((2, 3, 2), (), None, "half")]
    for sh, r, c, pat in cfgs:
        yield f"{_sh(sh)}-r{''.join(map(str, r)) or 'none'}-{pat}", (lambda sh=sh, r=r, c=c, pat=pat: g.SM(sh, r, c, 0, pat)), sh, r, c


@reg("sptenmat.__init__")
def _(g):
    import pyttb as ttb
    for hname, hb, sh, r, c in _sm_holders(g):
        def fb(hb=hb):
            m = hb()
            return {"subs": m.subs.copy(), "vals": m.vals.copy(), "rdims": m.rdims.copy(), "cdims": m.cdims.copy(),
                    "tshape": tuple(m.tshape)}
        yield V(f"{hname}-copy", fb, lambda o: ttb.sptenmat(o["subs"], o["vals"], o["rdims"], o["cdims"], o["tshape"]))
        yield V(f"{hname}-nocopy", fb,
                lambda o: ttb.sptenmat(o["subs"], o["vals"], o["rdims"], o["cdims"], o["tshape"], copy=False),
                share_ok=True, why="copy=False")
    yield V("unsorted-dup", lambda: {"subs": ia([[1, 2], [0, 0], [1, 2]]), "vals": A([[3.0], [4.0], [5.0]]),
                                     "rdims": ia([0]), "cdims": ia([1, 2]), "tshape": (2, 3, 2)},
            lambda o: ttb.sptenmat(o["subs"], o["vals"], o["rdims"], o["cdims"], o["tshape"]))


@reg("sptenmat.from_array")
def _(g):
    import pyttb as ttb
    from scipy import sparse
    for hname, hb, sh, r, c in _sm_holders(g):
        def fb_coo(hb=hb):
            m = hb()
            d = O.dense_of(m)
            return {"array": sparse.coo_matrix(d), "rdims": m.rdims.copy(), "cdims": m.cdims.copy(),
                    "tshape": tuple(m.tshape)}

        def fb_dense(hb=hb):
            m = hb()
            return {"array": np.asarray(O.dense_of(m)).copy(), "rdims": m.rdims.copy(), "cdims": m.cdims.copy(),
                    "tshape": tuple(m.tshape)}
        yield V(f"{hname}-coo", fb_coo,
                lambda o: ttb.sptenmat.from_array(o["array"], o["rdims"], o["cdims"], o["tshape"]))
        yield V(f"{hname}-dense", fb_dense,
                lambda o: ttb.sptenmat.from_array(o["array"], o["rdims"], o["cdims"], o["tshape"]))


def _sm_un_holders(g):
    for hname, hb, *_ in _sm_holders(g):
        yield hname, hb


_UN_SM = {
    "copy": lambda x: x.copy(), "__deepcopy__": lambda x: _copy.deepcopy(x), "__pos__": lambda x: +x,
    "__neg__": lambda x: -x, "double": lambda x: x.double(), "full": lambda x: x.full(),
    "to_sptensor": lambda x: x.to_sptensor(), "norm": lambda x: x.norm(), "nnz": lambda x: x.nnz,
    "order": lambda x: x.order, "shape": lambda x: x.shape, "__repr__": lambda x: repr(x), "__str__": lambda x: str(x),
}
for _n, _gen in _unary(_sm_un_holders, _UN_SM).items():
    REG[f"sptenmat.{_n}"] = _gen


@reg("sptenmat.isequal")
def _(g):
    for hname, hb, sh, r, c in _sm_holders(g):
        yield V(f"{hname}-same", lambda hb=hb: {"x": hb(), "y": hb()}, lambda o: o["x"].isequal(o["y"]))
        yield V(f"{hname}-other", lambda hb=hb, sh=sh, r=r, c=c: {"x": hb(), "y": g.SM(sh, r, c, 5, "full")},
                lambda o: o["x"].isequal(o["y"]))


@reg("sptenmat.__setitem__")
def _(g):
    for hname, hb, sh, r, c in _sm_holders(g):
        s2 = tuple(int(i) for i in hb().shape)
        keys = [("ints", lambda: (0, 0)), ("last", lambda s2=s2: (s2[0] - 1, s2[1] - 1)),
                ("arrays", lambda s2=s2: (ia([0]), ia([0, s2[1] - 1]))), ("row-slice", lambda: (0, slice(None)))]
        for kname, kb in keys:
            yield V(f"{hname}-{kname}-scalar", lambda hb=hb, kb=kb: {"x": hb(), "key": kb()},
                    lambda o: o["x"].__setitem__(o["key"], 7.0), inplace="x")
        yield V(f"{hname}-arrays-vector", lambda hb=hb, s2=s2: {
            "x": hb(), "key": (ia([0]), ia([0, s2[1] - 1])), "val": A([[5.0], [6.0]])},
            lambda o: o["x"].__setitem__(o["key"], o["val"]), inplace="x")


# ---------------------------------------------------------------------------------------------
# pyttb_utils helpers, khatrirao


def _rows(g, k, salt=0):
    pool = [[0, 0], [0, 1], [1, 0], [1, 1], [0, 1], [2, 1]]
    return ia([pool[(i * 2 + salt + g.seed) % len(pool)] for i in range(k)]).reshape(k, 2)


def _rows_gen(fname):
    def gen(g):
        import pyttb.pyttb_utils as pu
        fn = getattr(pu, fname)
        for ka, kb in [(3, 2), (0, 2), (3, 0), (1, 1)] + ([(4, 4), (2, 3)] if g.thorough else []):
            yield V(f"{ka}x{kb}", lambda ka=ka, kb=kb: {"a": _rows(g, ka), "b": _rows(g, kb, 1)},
                    lambda o: fn(o["a"], o["b"]))
        yield V("same", lambda: {"a": _rows(g, 3), "b": _rows(g, 3)}, lambda o: fn(o["a"], o["b"]))
    return gen


for _n in ("tt_union_rows", "tt_setdiff_rows", "tt_intersect_rows", "tt_ismember_rows"):
    REG[f"pyttb_utils.{_n}"] = _rows_gen(_n)


@reg("pyttb_utils.tt_dimscheck")
def _(g):
    from pyttb.pyttb_utils import tt_dimscheck
    for N in (3,) + ((1, 4) if g.thorough else ()):
        yield V(f"N{N}-none", lambda: {}, lambda o, N=N: tt_dimscheck(N))
        yield V(f"N{N}-dims", lambda N=N: {"dims": ia([N - 1, 0][: N])}, lambda o, N=N: tt_dimscheck(N, None, o["dims"]))
        yield V(f"N{N}-dims-M", lambda N=N: {"dims": ia([N - 1, 0][: N])},
                lambda o, N=N: tt_dimscheck(N, min(2, N), o["dims"]))
        yield V(f"N{N}-dims-MN", lambda N=N: {"dims": ia([N - 1, 0][: N])}, lambda o, N=N: tt_dimscheck(N, N, o["dims"]))
        yield V(f"N{N}-exclude", lambda N=N: {"ex": ia([0])}, lambda o, N=N: tt_dimscheck(N, None, None, o["ex"]))
        yield V(f"N{N}-dims-list", lambda N=N: {"dims": [0]}, lambda o, N=N: tt_dimscheck(N, 1, o["dims"]))
        yield V(f"N{N}-dims-sorted", lambda N=N: {"dims": np.arange(N)}, lambda o, N=N: tt_dimscheck(N, N, o["dims"]))


@reg("pyttb_utils.tt_ind2sub")
def _(g):
    from pyttb.pyttb_utils import tt_ind2sub
    for sh in [(2, 3, 2)] + ([(4,), (2, 3)] if g.thorough else []):
        N = prod(sh)
        for iname, idx in (("pos", [0, N - 1]), ("neg", [-1, 0]), ("all-neg", [-N, -1]), ("empty", [])):
            for order in ("F", "C"):
                yield V(f"{_sh(sh)}-{iname}-{order}", lambda sh=sh, idx=idx: {"shape": tuple(sh), "idx": ia(idx)},
                        lambda o, order=order: tt_ind2sub(o["shape"], o["idx"], order))


@reg("pyttb_utils.tt_sub2ind")
def _(g):
    from pyttb.pyttb_utils import tt_sub2ind
    for sh in [(2, 3, 2)] + ([(4,), (2, 3)] if g.thorough else []):
        n = len(sh)
        for sname, subs in (("two", [[0] * n, [s - 1 for s in sh]]), ("empty", np.empty((0, n), dtype=int))):
            for order in ("F", "C"):
                yield V(f"{_sh(sh)}-{sname}-{order}", lambda sh=sh, subs=subs, n=n: {
                    "shape": tuple(sh), "subs": ia(subs).reshape(-1, n)},
                    lambda o, order=order: tt_sub2ind(o["shape"], o["subs"], order))


@reg("pyttb_utils.tt_irenumber")
def _(g):
    from pyttb.pyttb_utils import tt_irenumber
    yield V("slices", lambda: {"t": g.S((2, 2, 2), 0, "full"), "shape": (3, 3, 3),
                               "range": (slice(0, 2), slice(1, 3), slice(0, 2))},
            lambda o: tt_irenumber(o["t"], o["shape"], o["range"]))
    yield V("lists", lambda: {"t": g.S((2, 2, 2), 0, "half"), "shape": (3, 3, 3),
                              "range": ([0, 2], ia([1, 2]), slice(0, 2))},
            lambda o: tt_irenumber(o["t"], o["shape"], o["range"]))
    yield V("int", lambda: {"t": g.S((2, 2), 0, "full"), "shape": (3, 3, 3), "range": (slice(0, 2), 1, slice(0, 2))},
            lambda o: tt_irenumber(o["t"], o["shape"], o["range"]))
    yield V("empty", lambda: {"t": g.S((2, 2, 2), 0, "empty"), "shape": (3, 3, 3),
                              "range": (slice(0, 2), slice(1, 3), slice(0, 2))},
            lambda o: tt_irenumber(o["t"], o["shape"], o["range"]))


@reg("pyttb_utils.tt_renumber")
def _(g):
    from pyttb.pyttb_utils import tt_renumber
    subs = [[0, 1, 0], [1, 2, 1], [1, 1, 1]]
    yield V("all-slices", lambda: {"subs": ia(subs), "shape": (2, 3, 2), "range": [slice(None)] * 3},
            lambda o: tt_renumber(o["subs"], o["shape"], o["range"]))
    yield V("part-slices", lambda: {"subs": ia(subs), "shape": (2, 3, 2), "range": [slice(None), slice(1, 3), slice(None)]},
            lambda o: tt_renumber(o["subs"], o["shape"], o["range"]))
    yield V("lists", lambda: {"subs": ia(subs), "shape": (2, 3, 2), "range": [[0, 1], [1, 2], slice(None)]},
            lambda o: tt_renumber(o["subs"], o["shape"], o["range"]))
    yield V("empty-subs", lambda: {"subs": np.empty((0, 3), dtype=int), "shape": (2, 3, 2),
                                   "range": [slice(0, 1), [1, 2], 0]},
            lambda o: tt_renumber(o["subs"], o["shape"], o["range"]))


@reg("pyttb_utils.tt_renumberdim")
def _(g):
    from pyttb.pyttb_utils import tt_renumberdim
    yield V("slice", lambda: {"idx": ia([1, 2, 1])}, lambda o: tt_renumberdim(o["idx"], 3, slice(1, 3)))
    yield V("list", lambda: {"idx": ia([1, 2, 1]), "range": [1, 2]}, lambda o: tt_renumberdim(o["idx"], 3, o["range"]))
    yield V("array", lambda: {"idx": ia([1, 2, 1]), "range": ia([2, 1])}, lambda o: tt_renumberdim(o["idx"], 3, o["range"]))
    yield V("int", lambda: {"idx": ia([1, 1])}, lambda o: tt_renumberdim(o["idx"], 3, 1))


@reg("pyttb_utils.tt_subsubsref")
def _(g):
    from pyttb.pyttb_utils import tt_subsubsref
    yield V("array", lambda: {"obj": g.vec(3)}, lambda o: tt_subsubsref(o["obj"], 0), share_ok=True,
            why="returns its argument (pass-through helper)")
    yield V("single", lambda: {"obj": g.vec(1)}, lambda o: tt_subsubsref(o["obj"], 0))


def _pred_gen(fname, args):
    def gen(g):
        import pyttb.pyttb_utils as pu
        fn = getattr(pu, fname)
        for nm, mk in args(g):
            yield V(nm, lambda mk=mk: {"a": mk()}, lambda o: fn(o["a"]))
    return gen


REG["pyttb_utils.tt_sizecheck"] = _pred_gen("tt_sizecheck", lambda g: [("tuple", lambda: (2, 3)), ("array", lambda: ia([2, 3])),
                                                                        ("bad", lambda: A([2.5, -1.0]))])
REG["pyttb_utils.tt_subscheck"] = _pred_gen("tt_subscheck", lambda g: [("ok", lambda: ia([[0, 1], [1, 2]])),
                                                                        ("empty", lambda: np.empty((0, 2), dtype=int)),
                                                                        ("bad", lambda: A([[0.5, -1.0]]))])
REG["pyttb_utils.tt_valscheck"] = _pred_gen("tt_valscheck", lambda g: [("col", lambda: A([[1.0], [2.0]])),
                                                                        ("empty", lambda: np.empty((0, 1))),
                                                                        ("bad", lambda: np.ones((2, 2)))])
REG["pyttb_utils.isrow"] = _pred_gen("isrow", lambda g: [("row", lambda: np.ones((1, 3))), ("col", lambda: np.ones((3, 1)))])
REG["pyttb_utils.isvector"] = _pred_gen("isvector", lambda g: [("row", lambda: np.ones((1, 3))), ("mat", lambda: np.ones((2, 2)))])
REG["pyttb_utils.islogical"] = _pred_gen("islogical", lambda g: [("bool", lambda: np.ones(3, dtype=bool)), ("float", lambda: np.ones(3))])
REG["pyttb_utils.get_index_variant"] = _pred_gen(
    "get_index_variant", lambda g: [("int", lambda: 3), ("array1", lambda: ia([1, 2])), ("array2", lambda: ia([[1, 2]])),
                                    ("tuple", lambda: (slice(None), ia([0]))), ("list", lambda: [0, 1]), ("slice", lambda: slice(None))])


@reg("pyttb_utils.get_mttkrp_factors")
def _(g):
    from pyttb.pyttb_utils import get_mttkrp_factors
    sh = (2, 3, 2)
    for n in (0, 1):
        yield V(f"ktensor-n{n}", lambda: {"U": g.K(sh, 2)}, lambda o, n=n: get_mttkrp_factors(o["U"], n, 3))
        yield V(f"ktensor-unit-n{n}", lambda: {"U": g.K(sh, 2, [1.0, 1.0])}, lambda o, n=n: get_mttkrp_factors(o["U"], n, 3))
        yield V(f"list-n{n}", lambda: {"U": _factors(g, sh)}, lambda o, n=n: get_mttkrp_factors(o["U"], n, 3),
                share_ok=True, why="checks only: a list of matrices is returned as is")


@reg("pyttb_utils.gather_wrap_dims")
def _(g):
    from pyttb.pyttb_utils import gather_wrap_dims
    yield V("rdims", lambda: {"r": ia([0])}, lambda o: gather_wrap_dims(3, o["r"]))
    yield V("cdims", lambda: {"c": ia([1, 2])}, lambda o: gather_wrap_dims(3, None, o["c"]))
    yield V("both", lambda: {"r": ia([2]), "c": ia([1, 0])}, lambda o: gather_wrap_dims(3, o["r"], o["c"]))
    for cyc in ("fc", "bc", "t"):
        yield V(cyc, lambda: {"r": ia([1])}, lambda o, cyc=cyc: gather_wrap_dims(3, o["r"], None, cyc))


@reg("pyttb_utils.np_to_python")
def _(g):
    from pyttb.pyttb_utils import np_to_python
    yield V("tuple", lambda: {"a": (np.int64(2), np.int64(3))}, lambda o: np_to_python(o["a"]))
    yield V("list", lambda: {"a": [np.int64(2), np.float64(3.0)]}, lambda o: np_to_python(o["a"]))


@reg("pyttb_utils.parse_shape")
def _(g):
    from pyttb.pyttb_utils import parse_shape
    for nm, mk in (("tuple", lambda: (2, 3)), ("list", lambda: [2, 3]), ("array", lambda: ia([2, 3])),
                   ("row", lambda: ia([[2, 3]])), ("int", lambda: 3)):
        yield V(nm, lambda mk=mk: {"s": mk()}, lambda o: parse_shape(o["s"]))


@reg("pyttb_utils.parse_one_d")
def _(g):
    from pyttb.pyttb_utils import parse_one_d
    yield V("array", lambda: {"v": g.vec(3)}, lambda o: parse_one_d(o["v"]), share_ok=True,
            why="coercion helper (like np.asarray): a 1-D array is returned as is")
    yield V("row", lambda: {"v": g.vec(3).reshape(1, 3)}, lambda o: parse_one_d(o["v"]), share_ok=True,
            why="coercion helper: squeezes to a view")
    yield V("list", lambda: {"v": [1.0, 2.0]}, lambda o: parse_one_d(o["v"]))
    yield V("scalar", lambda: {}, lambda o: parse_one_d(2.0))


@reg("pyttb_utils.to_memory_order")
def _(g):
    from scipy import sparse
    from pyttb.pyttb_utils import to_memory_order
    for mo in ("F", "C"):
        for want in ("F", "C"):
            yield V(f"{mo}-to-{want}-copy", lambda mo=mo: {"a": g.arr((2, 3), order=mo)},
                    lambda o, want=want: to_memory_order(o["a"], want, copy=True))
            yield V(f"{mo}-to-{want}-nocopy", lambda mo=mo: {"a": g.arr((2, 3), order=mo)},
                    lambda o, want=want: to_memory_order(o["a"], want), share_ok=True, why="copy=False (default)")
    yield V("coo-copy", lambda: {"a": sparse.coo_matrix(g.arr((2, 3), pat=[1, 0, 1, 0, 1, 0]))},
            lambda o: to_memory_order(o["a"], "F", copy=True))
    yield V("coo-nocopy", lambda: {"a": sparse.coo_matrix(g.arr((2, 3), pat=[1, 0, 1, 0, 1, 0]))},
            lambda o: to_memory_order(o["a"], "F"), share_ok=True, why="copy=False (default)")


@reg("pyttb.khatrirao")
def _(g):
    import pyttb as ttb
    for mo in ("F", "C"):
        yield V(f"two-{mo}", lambda mo=mo: {"a": g.mat(2, 2, order=mo), "b": g.mat(3, 2, 1, order=mo)},
                lambda o: ttb.khatrirao(o["a"], o["b"]))
        yield V(f"three-rev-{mo}", lambda mo=mo: {"a": g.mat(2, 2, order=mo), "b": g.mat(3, 2, 1, order=mo),
                                                 "c": g.mat(2, 2, 2, order=mo)},
                lambda o: ttb.khatrirao(o["a"], o["b"], o["c"], reverse=True))
        yield V(f"single-{mo}", lambda mo=mo: {"a": g.mat(2, 2, order=mo)}, lambda o: ttb.khatrirao(o["a"]))
        yield V(f"list-{mo}", lambda mo=mo: {"m": [g.mat(2, 2, order=mo), g.mat(3, 2, 1, order=mo)]},
                lambda o: ttb.khatrirao(*o["m"]))
        yield V(f"single-list-{mo}", lambda mo=mo: {"m": [g.mat(2, 2, order=mo)]}, lambda o: ttb.khatrirao(*o["m"]))


# ---------------------------------------------------------------------------------------------
# module-level generators, import/export


def _shape_gen(fname):
    def gen(g):
        import pyttb as ttb
        fn = getattr(ttb, fname)
        for nm, mk in (("tuple", lambda: (2, 3)), ("array", lambda: ia([2, 3])), ("list", lambda: [2, 3])):
            for order in ("F", "C"):
                yield V(f"{nm}-{order}", lambda mk=mk: {"shape": mk()}, lambda o, order=order: fn(o["shape"], order=order))
    return gen


for _n in ("tenones", "tenzeros", "tenrand"):
    REG[f"pyttb.{_n}"] = _shape_gen(_n)


@reg("pyttb.tendiag")
def _(g):
    import pyttb as ttb
    yield V("array", lambda: {"e": g.vec(2)}, lambda o: ttb.tendiag(o["e"]))
    yield V("array-shape", lambda: {"e": g.vec(2), "shape": (2, 3, 2)}, lambda o: ttb.tendiag(o["e"], o["shape"]))
    yield V("list", lambda: {"e": [1.0, 2.0]}, lambda o: ttb.tendiag(o["e"], order="C"))
    yield V("column", lambda: {"e": g.vec(2).reshape(2, 1)}, lambda o: ttb.tendiag(o["e"]))


@reg("pyttb.sptendiag")
def _(g):
    import pyttb as ttb
    yield V("array", lambda: {"e": g.vec(2)}, lambda o: ttb.sptendiag(o["e"]))
    yield V("array-shape", lambda: {"e": g.vec(2), "shape": (2, 3, 2)}, lambda o: ttb.sptendiag(o["e"], o["shape"]))
    yield V("list", lambda: {"e": [1.0, 2.0]}, lambda o: ttb.sptendiag(o["e"]))
    yield V("column", lambda: {"e": g.vec(2).reshape(2, 1)}, lambda o: ttb.sptendiag(o["e"]))


@reg("pyttb.teneye")
def _(g):
    import pyttb as ttb
    yield V("2-3", lambda: {}, lambda o: ttb.teneye(2, 3))
    yield V("4-2-C", lambda: {}, lambda o: ttb.teneye(4, 2, order="C"))


@reg("pyttb.sptenrand")
def _(g):
    import pyttb as ttb
    yield V("density", lambda: {"shape": (2, 3, 2)}, lambda o: ttb.sptenrand(o["shape"], density=0.5))
    yield V("nonzeros", lambda: {"shape": ia([2, 3, 2])}, lambda o: ttb.sptenrand(o["shape"], nonzeros=3))


def _roundtrip(obj, **kw):
    import pyttb as ttb
    d = tempfile.mkdtemp(prefix="c05_", dir=os.environ.get("TMPDIR", "/tmp"))
    fn = os.path.join(d, "x.tns")
    try:
        ttb.export_data(obj, fn, **kw)
        return ttb.import_data(fn)
    finally:
        try:
            os.remove(fn)
        except OSError:
            pass
        os.rmdir(d)


@reg("pyttb.export_data", "pyttb.import_data")
def _(g):
    # export followed by import: the file is the only channel, so the result must be independent
    yield V("tensor", lambda: {"x": g.T()}, lambda o: _roundtrip(o["x"]))
    yield V("tensor-fmt", lambda: {"x": g.T()}, lambda o: _roundtrip(o["x"], fmt_data="%.3e"))
    yield V("sptensor", lambda: {"x": g.S()}, lambda o: _roundtrip(o["x"]))
    yield V("ktensor", lambda: {"x": g.K()}, lambda o: _roundtrip(o["x"]))
    yield V("ktensor-fmt", lambda: {"x": g.K()}, lambda o: _roundtrip(o["x"], fmt_data="%.3e", fmt_weights="%.2e"))
    yield V("matrix", lambda: {"x": g.mat(2, 3)}, lambda o: _roundtrip(o["x"]))
    yield V("matrix-C", lambda: {"x": g.mat(2, 3, order="C")}, lambda o: _roundtrip(o["x"]))


# ---------------------------------------------------------------------------------------------
# algorithm entry points (tiny: 1-2 iterations)

# the initial guess handed back by the algorithms IS the caller's object; output["params"] echoes the caller's
# dimorder/optdims objects
_RET1 = ("['ret'][1]", "['ret'][2]['params']")


def _lbfgs_bad(e):
    # recorded finding of C11 (pqnr aborts on its first iterate for many small inputs): outside C05's quantifier
    return isinstance(e, AssertionError) and "L-BFGS first iterate is bad" in str(e)


def _alg_data(g, kind, sh=(2, 3, 2), positive=False, zero_slice=False):
    import pyttb as ttb
    if positive:
        a = np.asfortranarray(g.posarr(sh))
        if zero_slice:
            a[0] = 0.0
        if kind == "sptensor":
            a = a * np.asfortranarray(rm.arr(sh, [float(p) for p in g.half(sh)]))
            return ttb.tensor(a).to_sptensor()
        return ttb.tensor(a)
    return {"tensor": lambda: g.T(sh), "sptensor": lambda: g.S(sh), "ttensor": lambda: g.TT(sh, (2, 2, 2)),
            "sumtensor": lambda: g.SUM(sh, "tk")}[kind]()


@reg("alg.cp_als")
def _(g):
    import pyttb as ttb
    kinds = ["tensor", "sptensor"] + (["ttensor", "sumtensor"] if g.thorough else [])
    for kind in kinds:
        for it in (1, 2):
            yield V(f"{kind}-init-ktensor-it{it}", lambda kind=kind: {"X": _alg_data(g, kind), "init": g.K((2, 3, 2), 2, salt=7)},
                    lambda o, it=it: ttb.cp_als(o["X"], 2, init=o["init"], maxiters=it, printitn=0), share_res=_RET1)
        yield V(f"{kind}-random", lambda kind=kind: {"X": _alg_data(g, kind)},
                lambda o: ttb.cp_als(o["X"], 2, maxiters=1, printitn=0), share_res=_RET1[1:])
        if kind != "sumtensor":
            yield V(f"{kind}-nvecs", lambda kind=kind: {"X": _alg_data(g, kind)},
                    lambda o: ttb.cp_als(o["X"], 2, init="nvecs", maxiters=1, printitn=0), share_res=_RET1[1:])
        yield V(f"{kind}-dimorder-optdims", lambda kind=kind: {
            "X": _alg_data(g, kind), "init": g.K((2, 3, 2), 2, salt=7), "dimorder": ia([2, 0, 1]), "optdims": ia([0, 2])},
            lambda o: ttb.cp_als(o["X"], 2, init=o["init"], maxiters=2, printitn=0, dimorder=o["dimorder"],
                                 optdims=o["optdims"], fixsigns=False), share_res=_RET1)
        yield V(f"{kind}-unit-weights-init", lambda kind=kind: {"X": _alg_data(g, kind), "init": g.K((2, 3, 2), 2, [1.0, 1.0], salt=7)},
                lambda o: ttb.cp_als(o["X"], 2, init=o["init"], maxiters=1, printitn=1, stoptol=1.0), share_res=_RET1)


def _apr_gen(alg):
    def gen(g):
        import pyttb as ttb
        tol = _lbfgs_bad if alg == "pqnr" else None
        for kind in ("tensor", "sptensor"):
            for zr in (False, True):
                for it in ((1, 2) if not zr else (1,)):
                    yield V(f"{kind}-init{'-zero-row' if zr else ''}-it{it}", lambda kind=kind, zr=zr: {
                        # (a sparse data tensor with an empty slice makes cp_apr raise IndexError: C11's territory, not used)
                        "X": _alg_data(g, kind, positive=True, zero_slice=zr and kind == "tensor"),
                        "init": g.Kpos((2, 3, 2), 2, salt=7, zero_row=zr)},
                        lambda o, it=it: ttb.cp_apr(o["X"], 2, algorithm=alg, init=o["init"], maxiters=it,
                                                    maxinneriters=2, printitn=0), share_res=_RET1[:1], tolerate=tol)
            if g.thorough:
                yield V(f"{kind}-init-zero-row-generic-data", lambda kind=kind: {
                    "X": _alg_data(g, kind, positive=True), "init": g.Kpos((2, 3, 2), 2, salt=7, zero_row=True)},
                    lambda o: ttb.cp_apr(o["X"], 2, algorithm=alg, init=o["init"], maxiters=1,
                                         maxinneriters=2, printitn=0), share_res=_RET1[:1], tolerate=tol)
            yield V(f"{kind}-random", lambda kind=kind: {"X": _alg_data(g, kind, positive=True)},
                    lambda o: ttb.cp_apr(o["X"], 2, algorithm=alg, maxiters=1, maxinneriters=2, printitn=0),
                    tolerate=tol)
            if g.thorough and alg != "mu":
                yield V(f"{kind}-noprecompute", lambda kind=kind: {
                    "X": _alg_data(g, kind, positive=True), "init": g.Kpos((2, 3, 2), 2, salt=7)},
                    lambda o: ttb.cp_apr(o["X"], 2, algorithm=alg, init=o["init"], maxiters=1, maxinneriters=2,
                                         printitn=0, precompinds=False), share_res=_RET1[:1], tolerate=tol)
    return gen


REG["alg.cp_apr_mu"] = _apr_gen("mu")
REG["alg.cp_apr_pdnr"] = _apr_gen("pdnr")
REG["alg.cp_apr_pqnr"] = _apr_gen("pqnr")


@reg("alg.hosvd")
def _(g):
    import pyttb as ttb
    shapes = [(2, 3, 2)] + ([(3, 3), (2, 2, 2, 2)] if g.thorough else [])
    for sh in shapes:
        n = len(sh)
        yield V(f"{_sh(sh)}-tol", lambda sh=sh: {"X": g.T(sh)}, lambda o: ttb.hosvd(o["X"], 0.1, verbosity=0))
        yield V(f"{_sh(sh)}-tol-verbose", lambda sh=sh: {"X": g.T(sh)}, lambda o: ttb.hosvd(o["X"], 0.5, verbosity=10))
        yield V(f"{_sh(sh)}-ranks", lambda sh=sh, n=n: {"X": g.T(sh), "ranks": ia([1] * n)},
                lambda o: ttb.hosvd(o["X"], 0.1, verbosity=0, ranks=o["ranks"]))
        yield V(f"{_sh(sh)}-ranks-zeros", lambda sh=sh, n=n: {"X": g.T(sh), "ranks": ia([1] + [0] * (n - 1))},
                lambda o: ttb.hosvd(o["X"], 0.1, verbosity=0, ranks=o["ranks"]))
        yield V(f"{_sh(sh)}-ranks-list", lambda sh=sh, n=n: {"X": g.T(sh), "ranks": [1] + [0] * (n - 1)},
                lambda o: ttb.hosvd(o["X"], 0.1, verbosity=0, ranks=o["ranks"]))
        yield V(f"{_sh(sh)}-dimorder-nonseq", lambda sh=sh, n=n: {"X": g.T(sh), "dimorder": ia(list(range(n))[::-1])},
                lambda o: ttb.hosvd(o["X"], 0.1, verbosity=0, dimorder=o["dimorder"], sequential=False))


@reg("alg.tucker_als")
def _(g):
    import pyttb as ttb
    sh = (2, 3, 2)
    for it in (1, 2):
        yield V(f"init-list-it{it}", lambda: {"X": g.T(sh), "init": [g.mat(s, 2, salt=i) for i, s in enumerate(sh)]},
                lambda o, it=it: ttb.tucker_als(o["X"], 2, init=o["init"], maxiters=it, printitn=0), share_res=_RET1)
    yield V("rank-array", lambda: {"X": g.T(sh), "rank": ia([2, 1, 2]), "init": [g.mat(s, r, salt=i) for i, (s, r) in enumerate(zip(sh, (2, 1, 2)))]},
            lambda o: ttb.tucker_als(o["X"], o["rank"], init=o["init"], maxiters=1, printitn=0), share_res=_RET1)
    yield V("random", lambda: {"X": g.T(sh)}, lambda o: ttb.tucker_als(o["X"], 2, maxiters=1, printitn=0))
    yield V("nvecs", lambda: {"X": g.T(sh)}, lambda o: ttb.tucker_als(o["X"], 2, init="nvecs", maxiters=1, printitn=1))
    yield V("dimorder", lambda: {"X": g.T(sh), "dimorder": ia([2, 0, 1]), "init": [g.mat(s, 2, salt=i) for i, s in enumerate(sh)]},
            lambda o: ttb.tucker_als(o["X"], 2, init=o["init"], dimorder=o["dimorder"], maxiters=1, printitn=0),
            share_res=_RET1)
    if g.thorough:
        yield V("sptensor", lambda: {"X": g.S(sh, pat="full"), "init": [g.mat(s, 2, salt=i) for i, s in enumerate(sh)]},
                lambda o: ttb.tucker_als(o["X"], 2, init=o["init"], maxiters=1, printitn=0), share_res=_RET1)


@reg("alg.gcp_opt")
def _(g):
    import pyttb as ttb
    from pyttb.gcp.handles import Objectives
    from pyttb.gcp.optimizers import LBFGSB, SGD, Adam
    from pyttb.gcp.samplers import GCPSampler, Samplers, StratifiedCount
    sh = (2, 3, 2)

    def lb():
        return LBFGSB(maxiter=2, iprint=-1)

    def sgd(cls=SGD):
        return cls(max_iters=1, epoch_iters=2, printitn=0)

    yield V("lbfgsb-init-ktensor", lambda: {"X": g.T(sh), "init": g.K(sh, 2, salt=7)},
            lambda o: ttb.gcp_opt(o["X"], 2, Objectives.GAUSSIAN, lb(), init=o["init"], printitn=0), share_res=_RET1[:1])
    yield V("lbfgsb-init-ktensor-normalized", lambda: {"X": g.T(sh), "init": g.K(sh, 2, salt=7).normalize("all")},
            lambda o: ttb.gcp_opt(o["X"], 2, Objectives.GAUSSIAN, lb(), init=o["init"], printitn=0), share_res=_RET1)
    yield V("lbfgsb-init-list", lambda: {"X": g.T(sh), "init": _factors(g, sh, 2)},
            lambda o: ttb.gcp_opt(o["X"], 2, Objectives.GAUSSIAN, lb(), init=o["init"], printitn=0))
    yield V("lbfgsb-random", lambda: {"X": g.T(sh)},
            lambda o: ttb.gcp_opt(o["X"], 2, Objectives.GAUSSIAN, lb(), printitn=0))
    yield V("lbfgsb-mask", lambda: {"X": g.T(sh), "mask": ttb.tensor(np.asfortranarray(rm.arr(sh, [float(p) for p in g.half(sh)]))),
                                    "init": _factors(g, sh, 2)},
            lambda o: ttb.gcp_opt(o["X"], 2, Objectives.GAUSSIAN, lb(), init=o["init"], mask=o["mask"], printitn=0))
    yield V("lbfgsb-poisson", lambda: {"X": _alg_data(g, "tensor", positive=True), "init": g.Kpos(sh, 2, salt=7).factor_matrices},
            lambda o: ttb.gcp_opt(o["X"], 2, Objectives.POISSON, lb(), init=o["init"], printitn=0))
    yield V("lbfgsb-tuple-objective", lambda: {"X": g.T(sh), "init": _factors(g, sh, 2)},
            lambda o: ttb.gcp_opt(o["X"], 2, (lambda x, m: (x - m) ** 2, lambda x, m: 2 * (m - x), -np.inf), lb(),
                                  init=o["init"], printitn=0))
    for oname, cls in (("sgd", SGD),) + ((("adam", Adam),) if g.thorough else ()):
        yield V(f"{oname}-dense-init-ktensor", lambda: {"X": g.T(sh), "init": g.K(sh, 2, salt=7)},
                lambda o, cls=cls: ttb.gcp_opt(o["X"], 2, Objectives.GAUSSIAN, sgd(cls), init=o["init"], printitn=0),
                share_res=_RET1)
        # tiny sparse tensors: the default (stratified) sampler cannot draw enough distinct zeros and raises
        # (C13's territory); an explicit semi-stratified sampler with two samples per stratum is used instead
        def smp(X):
            return GCPSampler(X, function_sampler=Samplers.STRATIFIED, function_samples=StratifiedCount(2, 2),
                              gradient_sampler=Samplers.SEMISTRATIFIED, gradient_samples=StratifiedCount(2, 2))
        yield V(f"{oname}-sparse-init-list", lambda: {"X": g.S((3, 3, 3)), "init": _factors(g, (3, 3, 3), 2)},
                lambda o, cls=cls: ttb.gcp_opt(o["X"], 2, Objectives.GAUSSIAN, sgd(cls), init=o["init"], printitn=0,
                                               sampler=smp(o["X"])))
        yield V(f"{oname}-sparse-init-ktensor", lambda: {"X": g.S((3, 3, 3)), "init": g.K((3, 3, 3), 2, salt=7)},
                lambda o, cls=cls: ttb.gcp_opt(o["X"], 2, Objectives.GAUSSIAN, sgd(cls), init=o["init"], printitn=0,
                                               sampler=smp(o["X"])), share_res=_RET1[:1])
