"""C17 - index arithmetic, row-set helpers, Khatri-Rao, mode-selection preprocessing."""

import itertools
from math import prod

import numpy as np

from mc import space
from mc.engine import exc_symptom, short_tb

ID = "C17"
RULE = ("product explorer: every case is one concrete argument tuple of a helper; enumeration is "
        "complete over the stated finite domains (shapes x index sets, ordered mode selections, "
        "all pairs of row lists, matrix tuples).  A case is non-trivial when the reference answer "
        "is non-empty and differs from the identity/empty answer.")
ASSUMPTIONS = ["reference semantics in mc/props/C17.py (loops, Python sets) are correct",
               "integer row matrices only (the helpers are used on subscripts)"]
BOUNDS = {
    "quick": "ind/sub: shapes order<=4,size<=3,cells<=24, full index set, both orders, negative and "
             "repeated indices; dimscheck: N<=4 all ordered selections x M in {None,P,N}; rows: all "
             "pairs of row lists over {0,1}^2 of length 0..3; khatrirao: 1-3 matrices rows 1..3 cols 1..2",
    "thorough": "ind/sub: order<=5,size<=3,cells<=48; dimscheck N<=5; rows over {0,1,2}x{0,1} length "
                "0..4 (first operand) x 0..3; khatrirao 1-4 matrices rows 1..3 cols 1..3",
}
CHUNK = 200


def gen_cases(tier, seed):
    thorough = tier == "thorough"
    shp = space.shapes(5, 3, 48) if thorough else space.shapes(4, 3, 24)
    for s in shp:
        yield {"check": "indsub", "shape": list(s)}
    nmax = 5 if thorough else 4
    for n in range(1, nmax + 1):
        for dims in space.ordered_subselections(n, 1):
            yield {"check": "dimscheck", "N": n, "dims": list(dims), "excl": None}
        for ex in space.subsets(range(n), 0, n):
            for order in ([ex] if len(ex) < 2 else [ex, tuple(reversed(ex))]):
                yield {"check": "dimscheck", "N": n, "dims": None, "excl": list(order)}
        yield {"check": "dimscheck", "N": n, "dims": None, "excl": None}
    for n in range(1, (5 if thorough else 4) + 1):
        yield {"check": "wrapdims", "N": n}
    # row helpers
    if thorough:
        rows = [(a, b) for a in range(3) for b in range(2)]
        la, lb = 4, 3
    else:
        rows = [(a, b) for a in range(2) for b in range(2)]
        la, lb = 3, 3
    lists_a = [list(t) for k in range(0, la + 1) for t in itertools.product(rows, repeat=k)]
    lists_b = [list(t) for k in range(0, lb + 1) for t in itertools.product(rows, repeat=k)]
    if thorough:
        # all first operands of length <= 4 over 6 rows (1555) x all second operands of length <= 3 (259)
        pass
    for A in lists_a:
        yield {"check": "rows", "A": [list(r) for r in A], "Bs": "all", "lb": lb,
               "rows": [list(r) for r in rows]}
    # rows with negative / mixed-sign entries (integer rows, not only subscripts): pairs that any positional encoding
    # with a base taken from the largest entry maps to one number ((1,0) / (-1,1); (0,1) / (2,0) ...)
    srows = [(1, 0), (-1, 1), (0, 1), (-1, 0)] + ([(2, 0), (0, -1)] if thorough else [])
    ls = 3 if thorough else 2
    for A in [list(t) for k in range(0, ls + 1) for t in itertools.product(srows, repeat=k)]:
        yield {"check": "rows", "A": [list(r) for r in A], "Bs": "all", "lb": ls, "rows": [list(r) for r in srows]}
    # rows whose entries straddle powers of two (any packing of a row into bit fields / digits sized from the largest
    # entry must give 4 and 8 their own width): (4,0) / (0,1), (8,0) / (0,2) / (0,1), (3,1)
    brows = [(4, 0), (0, 1), (3, 1), (8, 0)] + ([(0, 2), (7, 1)] if thorough else [])
    for A in [list(t) for k in range(0, ls + 1) for t in itertools.product(brows, repeat=k)]:
        yield {"check": "rows", "A": [list(r) for r in A], "Bs": "all", "lb": ls, "rows": [list(r) for r in brows]}
    # khatrirao
    maxm = 4
    maxc = 3 if thorough else 2
    for m in range(1, maxm + 1):
        # (quick: four matrices with 1-2 rows each; the recursion / pairing structure of the product is what matters)
        for rc in itertools.product(range(1, 4) if (thorough or m < 4) else range(1, 3), repeat=m):
            if prod(rc) > 27:
                continue
            for c in range(1, maxc + 1):
                for rev in (False, True):
                    yield {"check": "khatrirao", "rows": list(rc), "cols": c, "reverse": rev,
                           "seed": seed}
    for s in shp[: 40 if not thorough else len(shp)]:
        yield {"check": "parse", "shape": list(s)}


# ---------------------------------------------------------------------------


def run_case(case, ctx):
    globals()["_run_" + case["check"]](case, ctx)


def _call(ctx, op, f, case=None, variant=""):
    try:
        return True, f()
    except Exception as e:  # noqa: BLE001
        ctx.fail(op, exc_symptom(e), short_tb(e), variant=variant, case=case)
        return False, None


def _run_indsub(case, ctx):
    from pyttb.pyttb_utils import tt_ind2sub, tt_sub2ind

    shape = tuple(case["shape"])
    n = prod(shape)
    ctx.state()
    ref_f = [space.sub_f(shape, i) for i in range(n)]
    # C order: last index fastest
    ref_c = [tuple(reversed(space.sub_f(tuple(reversed(shape)), i))) for i in range(n)]
    for order, ref in (("F", ref_f), ("C", ref_c)):
        index_sets = {
            "all": list(range(n)),
            "rev": list(reversed(range(n))),
            "every2": list(range(0, n, 2)),
            "repeat": [i // 2 for i in range(n)],
            "neg": [i - n for i in range(n)],
            "mixed": [(-1 - i if i % 2 else i) for i in range(n)],
            "single_last": [n - 1],
        }
        for name, idxs in index_sets.items():
            ctx.tick()
            ok, got = _call(ctx, "tt_ind2sub", lambda: tt_ind2sub(shape, np.array(idxs, dtype=int), order),
                            variant=order)
            if not ok:
                continue
            want = np.array([ref[i % n] for i in idxs], dtype=int).reshape(len(idxs), len(shape))
            if got.shape != want.shape or not np.array_equal(got, want):
                ctx.fail("tt_ind2sub", "wrong_value", f"idx={idxs} got={got.tolist()} want={want.tolist()}",
                         variant=order)
            ctx.outcome(got)
            if name in ("all", "rev", "every2", "repeat"):
                subs = want
                ctx.tick()
                ok, lin = _call(ctx, "tt_sub2ind", lambda: tt_sub2ind(shape, subs, order), variant=order)
                if ok and not np.array_equal(np.asarray(lin), np.array(idxs)):
                    ctx.fail("tt_sub2ind", "wrong_value", f"subs={subs.tolist()} got={np.asarray(lin).tolist()}",
                             variant=order)
                # explicit loop formula for F order
                if ok and order == "F":
                    loop = [space.lin_f(shape, tuple(r)) for r in subs.tolist()]
                    if list(np.asarray(lin)) != loop:
                        ctx.fail("tt_sub2ind", "wrong_value", "differs from loop formula", variant=order)
        # bijection: image of all subs is exactly 0..n-1
        ctx.tick()
        allsubs = np.array(space.cells(shape), dtype=int).reshape(n, len(shape))
        ok, lin = _call(ctx, "tt_sub2ind", lambda: tt_sub2ind(shape, allsubs, order), variant=order)
        if ok and sorted(np.asarray(lin).tolist()) != list(range(n)):
            ctx.fail("tt_sub2ind", "not_bijective", str(np.asarray(lin).tolist()), variant=order)
        if ok and order == "F" and np.asarray(lin).tolist() != list(range(n)):
            ctx.fail("tt_sub2ind", "wrong_value", "first subscript does not vary fastest", variant=order)
    if n > 1:
        ctx.nontriv()
    # empty index set
    ctx.tick()
    ok, got = _call(ctx, "tt_ind2sub", lambda: tt_ind2sub(shape, np.array([], dtype=int)), variant="empty")
    if ok and got.shape != (0, len(shape)):
        ctx.fail("tt_ind2sub", "wrong_shape", str(got.shape), variant="empty")


def ref_dimscheck(N, M, dims, excl):
    if dims is not None:
        d = list(dims)
    elif excl is not None:
        d = [i for i in range(N) if i not in excl]
    else:
        d = list(range(N))
    sd = sorted(d)
    P = len(d)
    if M is None:
        return sd, None
    if M == P:
        return sd, [d.index(m) for m in sd]
    return sd, sd


def _run_dimscheck(case, ctx):
    from pyttb.pyttb_utils import tt_dimscheck

    N, dims, excl = case["N"], case["dims"], case["excl"]
    ctx.state()
    P = len(dims) if dims is not None else (N - len(excl) if excl is not None else N)
    for M in sorted({None, P, N}, key=lambda x: (x is not None, x)):
        if M == 0:
            continue
        forms = [("list", lambda x: list(x)), ("array", lambda x: np.array(x, dtype=int))]
        for fname, conv in forms:
            kw = {}
            if dims is not None:
                kw["dims"] = conv(dims)
            if excl is not None:
                kw["exclude_dims"] = conv(excl)
            ctx.tick()
            sub = {"check": "dimscheck", "N": N, "dims": dims, "excl": excl}
            before = {k: (v.copy() if isinstance(v, np.ndarray) else list(v)) for k, v in kw.items()}
            ok, got = _call(ctx, "tt_dimscheck", lambda: tt_dimscheck(N, M, **kw), case=sub, variant=f"M={'None' if M is None else ('P' if M == P else 'N')}")
            if not ok:
                continue
            # the helper answers a question: it must leave the caller's designation as it was, and (depth 2) asking
            # again with the very same argument objects must give the same answer
            if any(not np.array_equal(np.asarray(kw[k]), np.asarray(before[k])) for k in kw):
                ctx.fail("tt_dimscheck", "operand_mutated", f"N={N} M={M} {fname}: {before} became {kw}", case=sub)
                continue
            ctx.tick()
            ok2, got2 = _call(ctx, "tt_dimscheck", lambda: tt_dimscheck(N, M, **kw), case=sub, variant="second_call")
            if ok2 and not all((a is None and b is None) or (a is not None and b is not None and np.array_equal(a, b))
                               for a, b in zip(got, got2)):
                ctx.fail("tt_dimscheck", "history_dependent", f"N={N} M={M} dims={dims} excl={excl}: {got} then {got2}",
                         case=sub)
            sd, vidx = got
            wsd, wv = ref_dimscheck(N, M, dims, excl)
            bad = list(np.asarray(sd).tolist()) != wsd
            if wv is None:
                bad = bad or vidx is not None
            else:
                bad = bad or vidx is None or list(np.asarray(vidx).tolist()) != wv
            if bad:
                ctx.fail("tt_dimscheck", "wrong_value",
                         f"N={N} M={M} dims={dims} excl={excl} got=({sd},{vidx}) want=({wsd},{wv})", case=sub)
            ctx.outcome([np.asarray(sd), None if vidx is None else np.asarray(vidx)])
    if dims is not None and list(dims) != sorted(dims):
        ctx.nontriv()
    elif excl:
        ctx.nontriv()


def _run_wrapdims(case, ctx):
    from pyttb.pyttb_utils import gather_wrap_dims

    N = case["N"]
    ctx.state()
    allm = list(range(N))
    for n in range(N):
        for cyc, want_c, want_r in (
            ("fc", list(range(n + 1, N)) + list(range(0, n)), [n]),
            ("bc", list(range(n - 1, -1, -1)) + list(range(N - 1, n, -1)), [n]),
            ("t", [n], [i for i in allm if i != n]),
        ):
            ctx.tick()
            ok, got = _call(ctx, "gather_wrap_dims",
                            lambda: gather_wrap_dims(N, np.array([n]), None, cyc), variant=cyc)
            if ok:
                r, c = got
                if list(r) != want_r or list(c) != want_c:
                    ctx.fail("gather_wrap_dims", "wrong_value", f"N={N} n={n} {cyc}: {list(r)},{list(c)}", variant=cyc)
                ctx.outcome([r, c])
    for r in space.ordered_subselections(N, 0):
        rest = [i for i in allm if i not in r]
        ctx.tick()
        ok, got = _call(ctx, "gather_wrap_dims", lambda: gather_wrap_dims(N, np.array(r, dtype=int)), variant="rdims")
        if ok and (list(got[0]) != list(r) or list(got[1]) != rest):
            ctx.fail("gather_wrap_dims", "wrong_value", f"N={N} rdims={r}: {got}", variant="rdims")
        ctx.tick()
        ok, got = _call(ctx, "gather_wrap_dims", lambda: gather_wrap_dims(N, None, np.array(r, dtype=int)), variant="cdims")
        if ok and (list(got[1]) != list(r) or list(got[0]) != rest):
            ctx.fail("gather_wrap_dims", "wrong_value", f"N={N} cdims={r}: {got}", variant="cdims")
    if N > 1:
        ctx.nontriv()


def _arr(rows):
    return np.array(rows, dtype=int).reshape(len(rows), 2)


def _run_rows(case, ctx):
    from pyttb.pyttb_utils import (
        tt_intersect_rows,
        tt_ismember_rows,
        tt_setdiff_rows,
        tt_union_rows,
    )

    A = [tuple(r) for r in case["A"]]
    if case.get("Bs") == "all":
        rows = [tuple(r) for r in case["rows"]]
        Bs = [list(t) for k in range(0, case["lb"] + 1) for t in itertools.product(rows, repeat=k)]
    else:
        Bs = [[tuple(r) for r in case["B"]]]
    for B in Bs:
        sub = {"check": "rows", "A": [list(r) for r in A], "B": [list(r) for r in B]}
        ctx.state()
        a, b = _arr(A), _arr(B)
        sa, sb = set(A), set(B)
        # ismember(search=A, source=B)
        ctx.tick()
        ok, got = _call(ctx, "tt_ismember_rows", lambda: tt_ismember_rows(a.copy(), b.copy()), case=sub)
        if ok:
            matched, res = got
            good = len(matched) == len(A) and len(res) == len(A)
            if good:
                for i, r in enumerate(A):
                    if r in sb:
                        good &= bool(matched[i]) and 0 <= res[i] < len(B) and B[res[i]] == r
                    else:
                        good &= (not matched[i]) and res[i] == -1
            if not good:
                ctx.fail("tt_ismember_rows", "wrong_value", f"A={A} B={B} got={matched.tolist()},{res.tolist()}", case=sub)
            ctx.outcome([matched, res])
        # intersect
        ctx.tick()
        ok, got = _call(ctx, "tt_intersect_rows", lambda: tt_intersect_rows(a.copy(), b.copy()), case=sub)
        if ok:
            idx = np.asarray(got).astype(int).tolist()
            want = sa & sb
            good = all(0 <= i < len(A) for i in idx)
            if good:
                rr = [A[i] for i in idx]
                good = set(rr) == want and len(rr) == len(want)
            if not good:
                ctx.fail("tt_intersect_rows", "wrong_value", f"A={A} B={B} got={idx} want rows {sorted(want)}", case=sub)
            ctx.outcome(idx)
        # setdiff
        ctx.tick()
        ok, got = _call(ctx, "tt_setdiff_rows", lambda: tt_setdiff_rows(a.copy(), b.copy()), case=sub)
        if ok:
            idx = np.asarray(got).astype(int).tolist()
            want = sa - sb
            good = all(0 <= i < len(A) for i in idx)
            if good:
                rr = [A[i] for i in idx]
                good = set(rr) == want and len(rr) == len(want)
            if not good:
                ctx.fail("tt_setdiff_rows", "wrong_value", f"A={A} B={B} got={idx} want rows {sorted(want)}", case=sub)
            ctx.outcome(idx)
        # union (rows)
        ctx.tick()
        ua, ub = a.copy(), b.copy()
        ok, got = _call(ctx, "tt_union_rows", lambda: tt_union_rows(ua, ub), case=sub)
        if ok:
            g = np.asarray(got)
            # depth 2: the union is a new row set; writing into it must leave both operands as they were
            if g.size and g.flags.writeable:
                g[...] = g + 7
                if not (np.array_equal(ua, a) and np.array_equal(ub, b)):
                    ctx.fail("tt_union_rows", "alias", f"A={A} B={B}: writing into the returned rows changed an operand",
                             case=sub)
                g = g - 7
            want = sa | sb
            rr = [tuple(int(x) for x in r) for r in g.reshape(-1, 2).tolist()] if g.size else []
            if not (set(rr) == want and len(rr) == len(want)):
                ctx.fail("tt_union_rows", "wrong_value", f"A={A} B={B} got={rr} want {sorted(want)}", case=sub)
            ctx.outcome(rr)
        if sa and sb and (sa & sb) and (sa - sb):
            ctx.nontriv()
        # the same rows held in different integer dtypes are the same rows (subscripts arrive as int32 or int64)
        if A and B and len(A) + len(B) <= 4:
            a32, b64 = a.astype(np.int32), b.astype(np.int64)
            ctx.tick()
            ok, got = _call(ctx, "tt_ismember_rows", lambda: tt_ismember_rows(a32.copy(), b64.copy()), case=sub, variant="int32_vs_int64")
            if ok:
                matched, res = got
                good = len(matched) == len(A) and all(
                    (bool(matched[i]) and 0 <= res[i] < len(B) and B[res[i]] == r) if r in sb else ((not matched[i]) and res[i] == -1)
                    for i, r in enumerate(A))
                if not good:
                    ctx.fail("tt_ismember_rows", "wrong_value", f"A(int32)={A} B(int64)={B} got={matched.tolist()},{res.tolist()}",
                             case=sub, variant="int32_vs_int64")
            for nm, fn, want in (("tt_intersect_rows", tt_intersect_rows, sa & sb), ("tt_setdiff_rows", tt_setdiff_rows, sa - sb)):
                ctx.tick()
                ok, got = _call(ctx, nm, lambda: fn(a32.copy(), b64.copy()), case=sub, variant="int32_vs_int64")
                if ok:
                    idx = np.asarray(got).astype(int).tolist()
                    good = all(0 <= i < len(A) for i in idx) and {A[i] for i in idx if 0 <= i < len(A)} == want and len(idx) == len(want)
                    if not good:
                        ctx.fail(nm, "wrong_value", f"A(int32)={A} B(int64)={B} got={idx} want rows {sorted(want)}", case=sub,
                                 variant="int32_vs_int64")


def _run_khatrirao(case, ctx):
    from pyttb.khatrirao import khatrirao

    rows, c, rev, seed = case["rows"], case["cols"], case["reverse"], case.get("seed", 0)
    mats = [np.array(space.int_matrix(r, c, salt=7 * k, seed=seed)) for k, r in enumerate(rows)]
    ctx.state()
    ctx.tick()
    args = [m.copy() for m in mats]
    ok, got = _call(ctx, "khatrirao", lambda: khatrirao(*args, reverse=rev))
    if not ok:
        return
    if any(not np.array_equal(a, m) for a, m in zip(args, mats)):
        ctx.fail("khatrirao", "operand_mutated", f"rows={rows} cols={c} rev={rev}")
    ms = list(reversed(mats)) if rev else mats
    # column-wise Kronecker product in the stated order: kron(A,B)[i*J+j] = A[i]*B[j]
    want = np.zeros((prod(rows), c))
    for col in range(c):
        v = np.array([1.0])
        for m in ms:
            v = np.array([x * y for x in v for y in m[:, col]])
        want[:, col] = v
    if got.shape != want.shape or not np.array_equal(got, want):
        ctx.fail("khatrirao", "wrong_value", f"rows={rows} cols={c} rev={rev}")
    ctx.outcome(got)
    # the flag as a numpy boolean (e.g. the result of a comparison): rejected or honoured, never silently ignored
    ctx.tick()
    try:
        got_np = khatrirao(*[m.copy() for m in mats], reverse=np.bool_(rev))
    except Exception:  # noqa: BLE001
        ctx.count("khatrirao:np_bool_rejected")
    else:
        if got_np.shape != want.shape or not np.array_equal(got_np, want):
            ctx.fail("khatrirao", "wrong_value", f"rows={rows} cols={c} rev=np.bool_({rev})", variant="np_bool")
    if len(rows) >= 2 and len(set(rows)) > 1 or (len(rows) >= 2 and prod(rows) > 1):
        ctx.nontriv()


def _run_parse(case, ctx):
    from pyttb.pyttb_utils import parse_one_d, parse_shape

    shape = tuple(case["shape"])
    ctx.state()
    forms = {
        "tuple": shape,
        "list": list(shape),
        "array": np.array(shape, dtype=int),
        "row": np.array(shape, dtype=int).reshape(1, -1),
        "col": np.array(shape, dtype=int).reshape(-1, 1),
        "npint": tuple(np.int64(s) for s in shape),
    }
    if len(shape) == 1:
        forms["int"] = shape[0]
        forms["np.int"] = np.int64(shape[0])
    for name, f in forms.items():
        ctx.tick()
        ok, got = _call(ctx, "parse_shape", lambda: parse_shape(f), variant=name)
        if ok and (not isinstance(got, tuple) or tuple(int(x) for x in got) != shape):
            ctx.fail("parse_shape", "wrong_value", f"{name}: {got!r}", variant=name)
    vec = [float(s) for s in shape]
    vforms = {"list": vec, "array": np.array(vec), "row": np.array(vec).reshape(1, -1),
              "col": np.array(vec).reshape(-1, 1), "tuple": tuple(vec)}
    if len(shape) == 1:
        vforms["scalar"] = vec[0]
    for name, f in vforms.items():
        ctx.tick()
        ok, got = _call(ctx, "parse_one_d", lambda: parse_one_d(f), variant=name)
        if ok and (not isinstance(got, np.ndarray) or got.ndim != 1 or got.tolist() != vec):
            ctx.fail("parse_one_d", "wrong_value", f"{name}: {got!r}", variant=name)
    if len(shape) > 1:
        ctx.nontriv()
