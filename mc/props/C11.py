"""C11 - CP-APR returns a non-negative model and a truthful objective.

State space.  The transition is ONE outer iteration (a sweep over all modes) of one of the three Poisson CP
algorithms.  It is observed without a source hook by
  * re-running the real `cp_apr` with maxiters = k, k = 1..K, from the same explicit starting guess (state k =
    what the library returns after at most k sweeps),
  * a recording wrapper around `ktensor.redistribute` (every algorithm calls it exactly once per mode per sweep),
    which tells the harness how many sweeps were really performed and in which mode order, and
  * a virtual clock patched into `pyttb.cp_apr` (one tick per `time.time()` call), so that `stoptime` is an explored
    option (default / 0 ticks) instead of a race with the wall clock.
Every reachable state is checked against the invariants the property states; the objective is recomputed entry by
entry from the returned weights / factor matrices by mc.refmodel (no pyttb).
"""

import contextlib
import io
import time as _real_time
import warnings
from math import prod

import numpy as np

from mc import holders as H
from mc import observe as O
from mc import refmodel as rm
from mc.engine import exc_symptom, short_tb

ID = "C11"
RULE = ("product explorer over configurations x iteration horizons: a case is a trajectory group (member of the "
        "explicit non-negative count family - the all-zero tensor (empty operand) included -, tensor order 2..4 (5 in the "
        "thorough tier), holder dense/sparse x storage dtype float64/integer, rank, starting guess, algorithm); the guess "
        "family contains, wherever one is known in closed form, a maximiser of the likelihood itself ('mle': the "
        "generating factors of an exact rank-R product; for rank 1 the normalised marginal counts), from which 'at least "
        "as likely as the guess' is sharp; boolean storage is outside the scope (tensor.to_tenmat refuses non-numeric "
        "data by a documented assertion; counts are numbers); inside, every "
        "option set of the group's slice of the algorithm's option lattice is one state sequence: the real cp_apr "
        "is re-run with maxiters = 1..K from the same guess under a virtual clock (stoptime = 0 ticks: horizons 1 "
        "and K only).  The base option set is run in every group, the complete lattice in the designated 'full' "
        "groups (split into 4 interleaved cases), and a rotating slice elsewhere (one running index per algorithm "
        "and holder kind, stride coprime to the lattice size, so that every lattice point occurs in several groups "
        "of either tier).  A run whose sweep count, taken "
        "from the recorded redistribute calls, is smaller than maxiters must be reproduced bit for bit by every "
        "longer horizon.  pqnr runs that abort with the recorded internal assertion are counted and triaged as a "
        "known finding; all invariants are decided on the pqnr runs that return (counter runs_returned:pqnr), and "
        "finalize() turns a tier in which fewer than 1000 runs of an algorithm returned with a finite objective, or "
        "in which a listed data-dependent side was never reached, into a 'vacuous' violation.  Non-trivial: the run "
        "returned, reported and recomputed log-likelihood are finite, and the likelihood strictly improved on the guess.")
ASSUMPTIONS = [
    "reference Kruskal evaluation (einsum on the explicit factors) and the entrywise Poisson log-likelihood "
    "sum_{x!=0} x log m - sum m in mc/props/C11.py / mc/refmodel.py are correct; log-likelihoods are compared with "
    "1e-9*(1+|L|), -inf equals -inf; 'at least as likely as the guess' with 1e-8*(1+|L0|) (DESIGN 4.3)",
    "data are small explicit non-negative integers held dense (F-ordered; float64 or int64 storage, uint8 in the "
    "thorough tier) or sparse (stored in F order, float64 or int64 values; int32 values and reversed storage order in "
    "the thorough tier; the all-zero member is the library's empty sptensor); every integer dtype used holds the counts "
    "exactly (asserted); guesses are explicit dyadic rationals, the 'mle' guess is computed from the reference array "
    "(marginal sums / total, or the generating integer factors)",
    "the rank-1 Poisson maximum-likelihood model is weight = total count, factors = marginal counts / total; a model "
    "that reproduces the data exactly maximises the Poisson likelihood over all models",
    "ktensor.redistribute is called exactly once per mode per outer iteration by all three algorithms and by "
    "nothing else inside cp_apr (checked: the recorded mode sequence must be (0..N-1)* in every run)",
    "the virtual clock replaces the `time` module object inside pyttb.cp_apr only; one tick per call",
    "init='random': numpy's global stream seeded by np.random.seed(s) (seeded mode of DESIGN 3); the guess the "
    "library must report is re-derived from the documented recipe (uniform(0,1) factors in mode order, unit weights)",
    "pqnr aborts matching the known finding are excluded from the numeric verdicts (nothing is returned)",
]
BOUNDS = {
    "quick": "shapes (2,3),(3,4),(2,3,2),(3,3,3),(2,3,2,2); 8 members per shape (generic counts, strictly positive, exact "
             "integer rank-1 and rank-2 Kruskal products, empty first slice, all-zero fibre, binary, all-zero tensor); "
             "holders tensor, sptensor (float64: every guess) and tensor:int64, sptensor:int64 (guesses positive, zero "
             "row, random); rank 1..3; guesses positive / all-zero first row of mode 0 / zero last weight / likelihood "
             "maximiser 'mle' (rank 1: every member with a count; rank R: the rank-R product member) / init='random' "
             "under np.random.seed(0) (rank 2 only); algorithms mu, "
             "pdnr, pqnr; K = 3 horizons; option lattice maxinneriters {1,2,10} x stoptol {1e-4,1e-10} x printitn {0,1} "
             "x printinneritn {0,1} x stoptime {default, 0 ticks} [x inexact {T,F} pdnr] [x lbfgsMem {1,3} pqnr] "
             "[x precompinds {T,F} pdnr/pqnr on sparse data]: base + 3 rotating lattice points per group, the complete "
             "lattice on the (2,3) generic member, rank 2, positive guess, both holders, all three algorithms; pdnr "
             "groups of rank >= 2 additionally run the base point with the undamped Hessian (mu0 = 0), which reaches "
             "the singular-Hessian and positive-predicted-reduction fall-back directions",
    "thorough": "shapes additionally (2,2,3,2) and (2,2,2,2,2); 11 members per shape (second value seed of "
                "generic/positive, empty last slice of the last mode added); holders additionally tensor:uint8, "
                "sptensor:int32 (positive and zero-row guess) and sptensor stored in reverse order (with the positive, "
                "zero-row and first random guess); guesses "
                "additionally all-zero last row of the last mode, the all-ones guess and init='random' under seeds "
                "{0,1} for every rank; K = 5 horizons; base + 5 "
                "rotating lattice points per group; the complete lattice on shapes (2,3),(2,3,2) x members {generic, "
                "rank-2 product, empty slice} x rank 2 x guesses {positive, zero row} x {tensor, sptensor}; every "
                "pdnr group additionally runs the mu0 = 0 probe",
}
CHUNK = 2

KMAX = {"quick": 3, "thorough": 5}
# orders 2..4 in the quick tier (order >= 4 is where Pi / the Khatri-Rao helper combine three or more factors), order 5
# in the thorough tier (there ktensor.full, too, combines three factors per side)
SHAPES = {"quick": [(2, 3), (3, 4), (2, 3, 2), (3, 3, 3), (2, 3, 2, 2)],
          "thorough": [(2, 3), (3, 4), (2, 3, 2), (3, 3, 3), (2, 3, 2, 2), (2, 2, 3, 2), (2, 2, 2, 2, 2)]}
ALGS = ("mu", "pdnr", "pqnr")
TOL_OBJ = 1e-9
TOL_MONO = 1e-8
KNOWN_ABORT = "L-BFGS first iterate is bad"

# small non-negative integers with many zeros, no arithmetic pattern in the cell index
_COUNTS = [3, 0, 1, 2, 0, 4, 1, 0, 2, 5, 1, 0, 0, 2, 3, 1, 0, 1, 4, 0, 2, 0, 1, 3, 2, 0, 1]
_NN = [1, 2, 0, 3, 1, 0, 2, 1, 3, 0, 1, 2]


# ---------------------------------------------------------------------------
# data family (reference side, no pyttb)


def members(shape, tier, seed):
    sh = list(shape)
    out = [
        {"fam": "generic", "shape": sh, "vseed": seed},
        {"fam": "positive", "shape": sh, "vseed": seed},
        {"fam": "lowrank", "shape": sh, "rank": 1, "vseed": seed},
        {"fam": "lowrank", "shape": sh, "rank": 2, "vseed": seed},
        {"fam": "emptyslice", "shape": sh, "mode": 0, "idx": 0, "vseed": seed},
        {"fam": "zerofibre", "shape": sh, "vseed": seed},
        {"fam": "binary", "shape": sh, "vseed": seed},
        {"fam": "zero", "shape": sh, "vseed": seed},          # the empty operand: no count observed at all
        # the first slice of mode 0 holds a single count, at the very first cell: the first STORED entry of the sparse
        # holder is then the only entry of its row (index set [0])
        {"fam": "lonefirst", "shape": sh, "vseed": seed},
    ]
    if tier == "thorough":
        out += [
            {"fam": "generic", "shape": sh, "vseed": seed + 11},
            {"fam": "positive", "shape": sh, "vseed": seed + 5},
            {"fam": "emptyslice", "shape": sh, "mode": len(sh) - 1, "idx": sh[-1] - 1, "vseed": seed + 1},
        ]
    return out


def lowrank_parts(d):
    R, vs = d["rank"], d.get("vseed", 0)
    w = np.array([2.0, 1.0, 1.0][:R])
    fs = []
    for n, s in enumerate(d["shape"]):
        f = np.array([[float(_NN[(3 * i + 5 * r + 4 * n + vs) % len(_NN)]) for r in range(R)] for i in range(s)])
        for r in range(R):
            if not f[:, r].any():
                f[0, r] = 1.0
        fs.append(f)
    return w, fs


def data_array(d):
    """The non-negative integer array a data descriptor denotes."""
    shape = tuple(d["shape"])
    n = prod(shape)
    vs = d.get("vseed", 0)
    fam = d["fam"]
    cnt = lambda l, a=5: float(_COUNTS[(a * l + vs) % len(_COUNTS)])  # noqa: E731
    if fam == "generic":
        a = rm.arr(shape, [cnt(l) for l in range(n)])
    elif fam == "positive":
        a = rm.arr(shape, [1.0 + cnt(l, 7) for l in range(n)])
    elif fam == "lowrank":
        w, fs = lowrank_parts(d)
        a = np.asarray(rm.kruskal(w, fs), dtype=float)
    elif fam == "emptyslice":
        a = rm.arr(shape, [1.0 + cnt(l) if l % 3 else cnt(l) for l in range(n)])
        ix = [slice(None)] * len(shape)
        ix[d["mode"]] = d["idx"]
        a[tuple(ix)] = 0.0
    elif fam == "zerofibre":
        a = rm.arr(shape, [1.0 + cnt(l, 7) for l in range(n)])
        if len(shape) == 2:
            a[:, shape[1] - 1] = 0.0               # for a matrix a fibre is a column
        else:
            a[(slice(None),) + tuple(s - 1 for s in shape[1:])] = 0.0   # mode-0 fibre, not a whole slice
    elif fam == "binary":
        a = rm.arr(shape, [1.0 if cnt(l) > 1 else 0.0 for l in range(n)])
        if not a.any():
            a[(0,) * len(shape)] = 1.0
    elif fam == "zero":
        a = np.zeros(shape)
    elif fam == "lonefirst":
        a = rm.arr(shape, [1.0 + cnt(l) if l % 3 else cnt(l) for l in range(n)])
        a[0] = 0.0
        a[(0,) * len(shape)] = 2.0
    else:
        raise ValueError(fam)
    assert a.min() >= 0 and (a.any() or fam == "zero") and np.array_equal(a, np.round(a))
    return a


# holder = kind [":" storage dtype]; "tensor_int" (= "tensor:int64") and "sptensor_rev" are kept as spelled in earlier replays
HOLDERS = {"quick": ("tensor", "sptensor", "tensor:int64", "sptensor:int64"),
           "thorough": ("tensor", "sptensor", "tensor:int64", "sptensor:int64", "tensor:uint8", "sptensor:int32",
                        "sptensor_rev")}
PLAIN_HOLDERS = ("tensor", "sptensor")            # float64 storage, F order: run with every guess


def build_data(a, holder):
    import pyttb as ttb

    if holder == "tensor":
        return ttb.tensor(np.asfortranarray(a.copy()))
    if holder == "tensor_int":
        return ttb.tensor(np.asfortranarray(a.astype(np.int64)))
    if ":" in holder:
        kind, dt = holder.split(":")
        assert np.array_equal(a.astype(np.dtype(dt)).astype(float), a), (dt, "does not hold the counts exactly")
        return H.build({"kind": kind, "shape": list(a.shape), "vals": rm.vals_f(a), "dtype": dt})
    subs, vals = H.sp_parts(a.shape, rm.vals_f(a))
    if holder == "sptensor_rev":
        subs, vals = subs[::-1], vals[::-1]
    return H.make_sptensor(a.shape, subs, vals)


def is_sparse(holder):
    return holder.startswith("sptensor")


def holds_exactly(a, holder):
    """Reference-side admissibility of a storage dtype: it must represent every count of the member exactly."""
    if ":" not in holder:
        return True
    dt = np.dtype(holder.split(":")[1])
    return bool(np.array_equal(a.astype(dt).astype(float), a))


# ---------------------------------------------------------------------------
# starting guesses

GUESSES = {"quick": ("pos", "zrow0", "zw", "mle", "rand0"),
           "thorough": ("pos", "zrow0", "zw", "mle", "zrowL", "ones", "rand0", "rand1")}


def mle_parts(d, R):
    """A guess that already maximises the Poisson likelihood over the rank-R models, where one is known in closed form
    (else None): the generating factors of an exact rank-R Kruskal product (model == data), and for R = 1 the normalised
    marginal counts with the total count as weight.  'At least as likely as the guess' is sharp from there: the run may
    not leave the maximiser."""
    if d["fam"] == "lowrank" and d["rank"] == R:
        return lowrank_parts(d)
    a = data_array(d)
    if R == 1 and a.any():
        tot = float(a.sum())
        N = a.ndim
        return np.array([tot]), [a.sum(axis=tuple(m for m in range(N) if m != n)).reshape(-1, 1) / tot for n in range(N)]
    return None


def guess_parts(shape, R, kind, gseed=0, d=None):
    if kind == "mle":
        w, fs = mle_parts(d, R)
        return np.array(w, dtype=float), [np.array(f, dtype=float) for f in fs]
    if kind.startswith("rand"):
        # init="random" under np.random.seed(s): the guess cp_apr draws, re-derived from the documented recipe
        st = np.random.get_state()
        np.random.seed(int(kind[4:]) + 10 * gseed)
        fs = [np.random.uniform(0, 1, (s, R)) for s in shape]
        np.random.set_state(st)
        return np.ones(R), fs
    w = np.array([1.5, 0.5, 2.0][:R])
    fs = [np.array([[(1 + ((2 * i + 3 * r + n + gseed) % 5)) / 4.0 for r in range(R)] for i in range(s)])
          for n, s in enumerate(shape)]
    if kind == "zrow0":
        fs[0][0, :] = 0.0
    elif kind == "zrowL":
        fs[-1][-1, :] = 0.0
    elif kind == "zw":
        w[-1] = 0.0
    elif kind == "ones":
        w = np.ones(R)
        fs = [np.ones((s, R)) for s in shape]
    elif kind != "pos":
        raise ValueError(kind)
    return w, fs


# ---------------------------------------------------------------------------
# option lattices

BASE = {"maxinneriters": 10, "stoptol": 1e-4, "printitn": 0, "printinneritn": 0, "stoptime": "default"}


def lattice(alg, sparse):
    out = []
    for inner in (10, 1, 2):
        for tol in (1e-4, 1e-10):
            for pi in (0, 1):
                for pin in (0, 1):
                    for st in ("default", 0):
                        c = {"maxinneriters": inner, "stoptol": tol, "printitn": pi, "printinneritn": pin,
                             "stoptime": st}
                        if alg == "mu":
                            out.append(c)
                            continue
                        for pre in ((True, False) if sparse else (True,)):
                            for extra in (True, False) if alg == "pdnr" else (3, 1):
                                cc = dict(c, precompinds=pre)
                                cc["inexact" if alg == "pdnr" else "lbfgsMem"] = extra
                                out.append(cc)
    return out


FULL_PARTS = 4          # a 'full' group is split into this many cases (every 4th lattice point each)


def select_cfgs(alg, sparse, mode, gi, part=None):
    """mode: 'full' (optionally one of FULL_PARTS interleaved slices) or the number of rotating lattice points
    beside the base point."""
    lat = lattice(alg, sparse)
    if mode == "full":
        return lat if part is None else lat[part::FULL_PARTS]
    n = len(lat)
    # stride coprime to every lattice size (48, 96, 192): consecutive groups walk through the whole lattice
    picks = [0] + [(1 + (gi * mode + j) * 37) % n for j in range(mode)]
    seen, out = set(), []
    for p in picks:
        if p not in seen:
            seen.add(p)
            out.append(lat[p])
    return out


FULL_GROUPS = {
    "quick": {"shapes": [(2, 3)], "fams": [("generic", None)], "ranks": [2], "guesses": ["pos"],
              "holders": ["tensor", "sptensor"]},
    "thorough": {"shapes": [(2, 3), (2, 3, 2)], "fams": [("generic", None), ("lowrank", 2), ("emptyslice", None)],
                 "ranks": [2], "guesses": ["pos", "zrow0"], "holders": ["tensor", "sptensor"]},
}
ROTATING = {"quick": 3, "thorough": 5}


def _is_full(tier, seed, shape, d, holder, R, guess):
    fg = FULL_GROUPS[tier]
    return (tuple(shape) in fg["shapes"] and (d["fam"], d.get("rank")) in fg["fams"] and d.get("vseed") in (seed, seed + 1)
            and (d["fam"] != "emptyslice" or d["mode"] == 0)
            and R in fg["ranks"] and guess in fg["guesses"] and holder in fg["holders"])


def gen_cases(tier, seed):
    yield from _rerun_cases(tier, seed)
    counters = {}       # (algorithm, sparse holder) -> running group index: the rotation walks each lattice in turn
    for shape in SHAPES[tier]:
        for d in members(shape, tier, seed):
            fits = {h: holds_exactly(data_array(d), h) for h in HOLDERS[tier]}
            for R in (1, 2, 3):
                for guess in GUESSES[tier]:
                    if guess.startswith("rand") and tier == "quick" and R != 2:
                        continue
                    if guess == "mle" and mle_parts(d, R) is None:
                        continue
                    for holder in HOLDERS[tier]:
                        if holder not in PLAIN_HOLDERS and guess not in ("pos", "zrow0", "rand0"):
                            continue
                        if holder in ("tensor:uint8", "sptensor:int32") and guess == "rand0":
                            continue
                        if not fits[holder]:
                            continue        # e.g. uint8 storage of a product member with counts above 255
                        for alg in ALGS:
                            gi = counters.get((alg, is_sparse(holder)), 0)
                            counters[(alg, is_sparse(holder))] = gi + 1
                            full = _is_full(tier, seed, shape, d, holder, R, guess)
                            c = {"check": "apr", "data": d, "holder": holder, "rank": R, "guess": guess,
                                 "gseed": seed, "alg": alg, "cfgs": "full" if full else ROTATING[tier], "gi": gi,
                                 "K": KMAX[tier]}
                            if full:
                                for part in range(1, FULL_PARTS):
                                    yield dict(c, part=part)
                                c["part"] = 0
                            if alg == "pdnr" and (tier == "thorough" or R >= 2):
                                c["probe_mu0"] = True      # undamped Hessian: reaches both fall-back directions
                            yield c


# ---------------------------------------------------------------------------
# environment: virtual clock, sweep recorder


class VirtualClock:
    """Stands in for the `time` module inside pyttb.cp_apr: one tick per reading."""

    def __init__(self):
        self.t = 0.0
        self.calls = 0

    def time(self):
        self.calls += 1
        self.t += 1.0
        return self.t

    perf_counter = time
    monotonic = time

    def __getattr__(self, name):
        return getattr(_real_time, name)


@contextlib.contextmanager
def owned_environment():
    import sys

    import pyttb as ttb

    capr = sys.modules["pyttb.cp_apr"]       # the attribute pyttb.cp_apr is the function, not the module
    clock = VirtualClock()
    modes = []
    orig_redis = ttb.ktensor.redistribute
    orig_time = capr.time

    def recording_redistribute(self, mode):
        modes.append(int(mode))
        return orig_redis(self, mode)

    capr.time = clock
    ttb.ktensor.redistribute = recording_redistribute
    try:
        yield clock, modes
    finally:
        ttb.ktensor.redistribute = orig_redis
        capr.time = orig_time


# ---------------------------------------------------------------------------
# oracles


def ref_loglik(a, w, fs):
    """sum_{x != 0} x log m - sum m, entry by entry; -inf when a positive count meets a zero model entry."""
    m = np.asarray(rm.kruskal(w, fs), dtype=float)
    total = 0.0
    for sub in rm.cells(a.shape):
        x = a[sub]
        if x != 0:
            mv = m[sub]
            if np.isnan(mv):
                return float("nan")
            if mv <= 0:
                return float("-inf")
            total += x * np.log(mv)
    return float(total - m.sum())


def same_ll(got, want, tol=TOL_OBJ):
    if np.isnan(got) or np.isnan(want):
        return False
    if np.isinf(got) or np.isinf(want):
        return got == want
    return abs(got - want) <= tol * (1.0 + abs(want))


def run_case(case, ctx):
    globals()["_run_" + case["check"]](case, ctx)


# ---------------------------------------------------------------------------
# depth-2 histories on the data object: fit, change one count of the same data object in place, fit again.  The second
# fit must be the fit a fresh object holding the changed counts gets: nothing derived from the data before the change
# (index sets of the non-zeros per row, a cached unfolding or norm) may survive it.


def _rerun_cases(tier, seed):
    for shape in SHAPES[tier][: (None if tier == "thorough" else 3)]:
        for fam in ("emptyslice", "generic"):
            d = [m for m in members(shape, tier, seed) if m["fam"] == fam][0]
            for holder in PLAIN_HOLDERS:
                for alg in ALGS:
                    for edit in ("fill_empty", "bump", "clear", "move"):
                        yield {"check": "rerun", "data": d, "holder": holder, "alg": alg, "edit": edit, "gseed": seed}


def _rerun_fit(X, alg, shape, gseed):
    import pyttb as ttb

    w0, f0 = guess_parts(shape, 2, "pos", gseed)
    G = ttb.ktensor([f.copy(order="F") for f in f0], w0.copy())
    kw = dict(BASE)
    kw.pop("stoptime")
    if alg != "mu":
        kw["precompinds"] = True
    with owned_environment(), warnings.catch_warnings(record=True), contextlib.redirect_stdout(io.StringIO()):
        warnings.simplefilter("always")
        M, _, out = ttb.cp_apr(X, 2, algorithm=alg, init=G, maxiters=2, **kw)
    return [np.array(M.weights, dtype=float)] + [np.array(f, dtype=float) for f in M.factor_matrices], float(out["obj"])


def _run_rerun(case, ctx):
    d, holder, alg = case["data"], case["holder"], case["alg"]
    a = data_array(d)
    shape = a.shape
    cells = rm.cells(shape)
    zeros = [c for c in cells if a[c] == 0]
    nonz = [c for c in cells if a[c] != 0]
    if case["edit"] == "fill_empty":
        if not zeros:
            ctx.inadm()
            return
        cell, val = zeros[0], 4.0
    elif case["edit"] == "bump":
        cell, val = nonz[-1], float(a[nonz[-1]] + 3.0)
    elif case["edit"] == "move":
        # one count moved to a cell that held none: shape and number of stored entries stay, their positions change
        if not zeros or not nonz:
            ctx.inadm()
            return
        cell, val = zeros[0], 4.0
    else:
        cell, val = nonz[0], 0.0
    b = a.copy()
    b[cell] = val
    if case["edit"] == "move":
        b[nonz[0]] = 0.0
    ctx.state()

    def attempt(f):
        try:
            return f(), None
        except Exception as e:  # noqa: BLE001
            return None, e

    X = build_data(a, holder)
    ctx.tick()
    first, e1 = attempt(lambda: _rerun_fit(X, alg, shape, case.get("gseed", 0)))
    X[cell] = val
    if case["edit"] == "move":
        X[nonz[0]] = 0.0
    ctx.tick()
    got, eg = attempt(lambda: _rerun_fit(X, alg, shape, case.get("gseed", 0)))
    ctx.tick()
    # the fresh object stores exactly what the edited one stores now (same entries in the same stored order: the line
    # searches of pdnr / pqnr amplify the rounding of a different summation order, which is not what is tested here)
    if is_sparse(holder):
        import pyttb as ttb
        fresh = ttb.sptensor(X.subs.copy(), X.vals.copy(), X.shape) if X.nnz else ttb.sptensor(shape=X.shape)
    else:
        fresh = build_data(b, holder)
    if not np.array_equal(np.asarray(O.dense_of(fresh), dtype=float), b):
        ctx.fail("sptensor.__setitem__" if is_sparse(holder) else "tensor.__setitem__", "wrong_value",
                 "the edited data object does not hold the edited counts", variant="rerun:" + alg, case=case)
        return
    want, ew = attempt(lambda: _rerun_fit(fresh, alg, shape, case.get("gseed", 0)))
    if ew is not None:
        # the fresh fit itself fails (e.g. the recorded pqnr abort): nothing to compare the history with
        ctx.inadm()
        ctx.count("rerun_fresh_raised:" + alg)
        return
    if eg is not None:
        ctx.fail("cp_apr", "history_dependent",
                 f"second fit on the edited data object raised {short_tb(eg)}; a fresh object with the same counts is fitted",
                 variant="rerun:" + alg, case=case)
        return
    ctx.nontriv()
    (gp, gobj), (wp, wobj) = got, want
    dev = max(float(np.max(np.abs(x - y))) if x.shape == y.shape and x.size else (0.0 if x.shape == y.shape else float("inf"))
              for x, y in zip(gp, wp))
    scale = max(1.0, max(float(np.max(np.abs(y))) if y.size else 0.0 for y in wp))
    if not (dev <= 1e-8 * scale) or not same_ll(gobj, wobj, 1e-8):
        ctx.fail("cp_apr", "history_dependent",
                 f"fit on a data object edited in place after an earlier fit differs from the fit of a fresh object with the "
                 f"same counts: max deviation {dev!r}, objective {gobj!r} vs {wobj!r}", variant="rerun:" + alg, case=case)
    ctx.outcome(gp)


def _kwargs(cfg, k):
    kw = {key: v for key, v in cfg.items() if key != "stoptime"}
    if cfg["stoptime"] != "default":
        kw["stoptime"] = float(cfg["stoptime"])
    kw["maxiters"] = k
    return kw


def _run_apr(case, ctx):
    import pyttb as ttb

    d, holder, R, gkind, alg = case["data"], case["holder"], case["rank"], case["guess"], case["alg"]
    K = case["K"]
    a = data_array(d)
    shape = a.shape
    N = len(shape)
    sparse = is_sparse(holder)
    if "cfg" in case:
        cfgs = [case["cfg"]]
    else:
        cfgs = select_cfgs(alg, sparse, case["cfgs"], case["gi"], case.get("part"))
        if case.get("probe_mu0"):
            cfgs = cfgs + [dict(BASE, precompinds=True, inexact=case["gi"] % 2 == 0, mu0=0.0)]
    w0, f0 = guess_parts(shape, R, gkind, case.get("gseed", 0), d)
    L0 = ref_loglik(a, w0, f0)
    group_nontrivial = False

    for cfg in cfgs:
        ctx.state()
        sub = {"check": "apr", "data": d, "holder": holder, "rank": R, "guess": gkind, "gseed": case.get("gseed", 0),
               "alg": alg, "cfg": cfg, "K": K}

        def fail(op, symptom, detail, k, **extra):
            ctx.fail(op, symptom, f"maxiters={k} {detail}", variant=alg, case=dict(sub, K=k, **extra))

        prev = None          # (sweeps, kkt, obj, weights, factors) of the previous horizon
        horizons = range(1, K + 1) if cfg["stoptime"] == "default" else (1, K)
        for k in horizons:
            X = build_data(a, holder)
            if gkind.startswith("rand"):
                G = "random"
                rstate = np.random.get_state()
                np.random.seed(int(gkind[4:]) + 10 * case.get("gseed", 0))
            else:
                G = ttb.ktensor([f.copy(order="F") for f in f0], w0.copy())
            before = O.snapshot({"data": X, "guess": G})
            ctx.tick()
            try:
                with owned_environment() as (clock, modes), warnings.catch_warnings(record=True) as wlist, \
                        contextlib.redirect_stdout(io.StringIO()):
                    warnings.simplefilter("always")
                    try:
                        M, Ginit, out = ttb.cp_apr(X, R, algorithm=alg, init=G, **_kwargs(cfg, k))
                    finally:
                        if isinstance(G, str):
                            np.random.set_state(rstate)
            except Exception as e:  # noqa: BLE001
                msg = str(e)
                if alg == "pqnr" and isinstance(e, AssertionError) and KNOWN_ABORT in msg:
                    ctx.count("pqnr_runs_aborted_first_iterate")
                ctx.count(f"runs_raised:{alg}")
                fail("cp_apr", exc_symptom(e), short_tb(e), k, exc_msg=msg[:120])
                changed = O.diff_snapshot(before, {"data": X, "guess": G})
                if changed:
                    fail("cp_apr.inputs", "operand_mutated", f"after exception: {changed}", k)
                break       # deterministic prefix: every longer horizon repeats the abort
            ctx.count(f"runs_returned:{alg}")
            for wmsg in wlist:
                t = str(wmsg.message)
                for key, name in (("nearly singular", "pdnr_singular_hessian_fallback"),
                                  ("Expected decrease", "pdnr_positive_predicted_reduction_fallback"),
                                  ("Line search failed", "linesearch_failed_multiplicative_fallback"),
                                  ("skipping L-BFGS", "pqnr_lbfgs_pair_skipped"),
                                  ("orthogonal", "pqnr_lbfgs_orthogonal")):
                    if key in t:
                        ctx.flag(name)

            # -- inputs untouched, returned guess is the guess used ------------------------------------
            changed = O.diff_snapshot(before, {"data": X, "guess": G})
            if changed:
                fail("cp_apr.inputs", "operand_mutated", str(changed), k)
            if not isinstance(Ginit, ttb.ktensor) or not (
                    rm.same(Ginit.weights, w0) and len(Ginit.factor_matrices) == N
                    and all(rm.same(x, y) for x, y in zip(Ginit.factor_matrices, f0))):
                fail("cp_apr.init", "wrong_value", "returned initial guess differs from the guess supplied", k)

            # -- structure -----------------------------------------------------------------------------
            if not isinstance(M, ttb.ktensor):
                fail("cp_apr", "wrong_type", type(M).__name__, k)
                break
            wts = np.asarray(M.weights)
            fms = [np.asarray(f) for f in M.factor_matrices]
            if (O.pyshape(M.shape) != tuple(shape) or int(M.ncomponents) != R or wts.shape != (R,)
                    or len(fms) != N or any(f.shape != (s, R) for f, s in zip(fms, shape))):
                fail("cp_apr.model", "wrong_shape",
                     f"shape={M.shape} ncomponents={M.ncomponents} weights{wts.shape} "
                     f"factors={[f.shape for f in fms]} want shape={shape} rank={R}", k)
                break
            Gk = Ginit if isinstance(G, str) else G
            if any(np.shares_memory(f, g) for f in fms + [wts] for g in list(Gk.factor_matrices) + [Gk.weights]):
                fail("cp_apr.inputs", "alias", "returned model shares memory with the caller's guess", k)
            allv = np.concatenate([wts.ravel()] + [f.ravel() for f in fms]).astype(float)
            if np.isnan(allv).any():
                fail("cp_apr.model", "nan_entry", f"weights={wts.tolist()}", k)
            elif (allv < 0).any() or np.isinf(allv).any():
                fail("cp_apr.model", "negative_entry",
                     f"min weight={wts.min()} min factor entry={min(f.min() for f in fms)} max={allv.max()}", k)

            # -- truthful objective --------------------------------------------------------------------
            obj = out.get("obj")
            L = ref_loglik(a, wts, fms)
            try:
                objf = float(obj)
            except Exception:  # noqa: BLE001
                objf = float("nan")
            if not isinstance(obj, (float, np.floating)) or not same_ll(objf, L):
                fail("cp_apr.obj", "wrong_value", f"reported obj={obj!r} recomputed log-likelihood={L!r}", k)
            if np.isinf(L):
                ctx.flag("objective_minus_inf")

            # -- at least as likely as the guess ------------------------------------------------------------
            if not np.isnan(L) and not np.isnan(L0) and L < L0 - TOL_MONO * (1.0 + abs(L0)) and not (
                    np.isinf(L0) and L0 > 0):
                fail("cp_apr.likelihood", "decreased",
                     f"log-likelihood of the result {L!r} < log-likelihood of the guess {L0!r}", k)

            # -- KKT violations / iteration bookkeeping ------------------------------------------------
            sweeps, rem = divmod(len(modes), N)
            if rem or modes != list(range(N)) * sweeps:
                fail("cp_apr.iterations", "irregular_sweeps", f"redistribute modes {modes}", k)
            if sweeps > k:
                fail("cp_apr.iterations", "exceeds_limit", f"{sweeps} sweeps performed", k)
            kv = out.get("kktViolations")
            kv = None if kv is None else np.asarray(kv, dtype=float).reshape(-1)
            if kv is None:
                fail("cp_apr.kktViolations", "missing", "no kktViolations in the output", k)
                kv = np.zeros(0)
            else:
                if not np.all(kv >= 0):      # NaN and the -1 filler of unperformed iterations included
                    fail("cp_apr.kktViolations", "negative", f"{kv.tolist()}", k)
                if len(kv) != sweeps or len(kv) > k:
                    fail("cp_apr.kktViolations", "wrong_length",
                         f"{len(kv)} entries, {sweeps} outer iterations performed", k)

            # -- horizons are prefixes of one trajectory ------------------------------------------------
            sig = (sweeps, kv.tobytes(), objf, wts.tobytes(), tuple(f.tobytes() for f in fms))
            if prev is not None:
                psweeps, pkv = prev[0], np.frombuffer(prev[1], dtype=float)
                if not np.array_equal(kv[: len(pkv)], pkv[: len(kv)], equal_nan=True):
                    fail("cp_apr.kktViolations", "horizon_inconsistent",
                         f"previous horizon {pkv.tolist()} now {kv.tolist()}", k)
                if psweeps < prev[5] and sig != prev[:5]:
                    fail("cp_apr.iterations", "horizon_inconsistent",
                         f"horizon {prev[5]} stopped after {psweeps} sweeps but horizon {k} differs "
                         f"(sweeps {sweeps}, obj {objf!r} vs {prev[2]!r})", k)
            prev = sig + (k,)

            # -- coverage bookkeeping ------------------------------------------------------------------
            if sweeps < k:
                ctx.flag("stopped_by_time_limit" if cfg["stoptime"] != "default" else "converged_before_limit")
            if cfg["stoptime"] != "default":
                ctx.count("stoptime0_runs")
                if sweeps == 1:
                    ctx.count("stoptime0_runs_single_sweep")
            if alg == "mu" and np.any(np.asarray(out.get("nViolations", 0)) > 0):
                ctx.flag("mu_inadmissible_zero_adjusted")
            if any((f == 0).all(axis=1).any() for f in fms):
                ctx.flag("result_has_zero_row")
            if np.isfinite(L) and np.isfinite(objf):
                ctx.count(f"finite_objective_runs:{alg}")
                if (np.isinf(L0) and L0 < 0) or L > L0 + TOL_MONO * (1.0 + abs(L0)):
                    group_nontrivial = True
            ctx.outcome([wts, fms, objf, kv, sweeps])
    if group_nontrivial:
        ctx.nontriv()


# ---------------------------------------------------------------------------
# vacuity control: the tier must reach every data-dependent side the invariants speak about, and must decide the
# invariants on a substantial number of returned runs of every algorithm (pqnr in particular, next to its recorded abort)

NEED_FLAGS = ["converged_before_limit", "stopped_by_time_limit", "mu_inadmissible_zero_adjusted", "objective_minus_inf",
              "result_has_zero_row", "linesearch_failed_multiplicative_fallback", "pqnr_lbfgs_pair_skipped",
              "pdnr_singular_hessian_fallback", "pdnr_positive_predicted_reduction_fallback"]
NEED_RUNS = 1000


def finalize(tier, seed, totals):
    if not totals.cases:
        return
    missing = [f for f in NEED_FLAGS if f not in totals.flags]
    for alg in ALGS:
        n = totals.counters.get(f"finite_objective_runs:{alg}", 0)
        if n < NEED_RUNS:
            missing.append(f"{alg}: only {n} returned runs with a finite objective")
    for m in missing:
        totals.failures.append({"check": "apr", "op": "cp_apr", "variant": "vacuity", "symptom": "vacuous",
                                "case": {"check": "vacuity", "what": m},
                                "detail": f"'{m}': the bounds no longer decide this side of the property"})


def _run_vacuity(case, ctx):
    ctx.fail("cp_apr", "vacuous", "replay the whole tier instead", variant="vacuity", case=case)
