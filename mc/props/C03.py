"""C03 - sparse element-wise arithmetic, logic and comparison match dense semantics."""

import itertools
from math import prod

import numpy as np

from mc import holders as H
from mc import observe as O
from mc import refmodel as rm
from mc import spops
from mc.engine import exc_symptom, short_tb

ID = "C03"
RULE = ("product explorer: left operand = sptensor holding every array over the value alphabet on the shape; right "
        "operand = every array over the alphabet held sparse and dense, plus scalars; every operator of mc/spops.py. "
        "Reference = NumPy's operator on the expanded arrays (np.errstate ignore).  Storage-dtype lattice: every ordered "
        "pair (value dtype of the left sptensor, value dtype of the right sptensor / dense tensor) over float64, int64, bool "
        "(+int8 thorough) with EVERY array over the per-dtype alphabet on a small shape - integer / boolean operands hold "
        "integers, float64 operands additionally hold non-integral values (0.5 truncates to 0, -3.5 truncates to the other "
        "side's -3); scalars additionally non-integral and NumPy-typed.  The reference is always the float64 expansion.  "
        "Non-trivial: both operands have a non-zero and the reference result is neither all-zero nor all-equal.")
ASSUMPTIONS = ["NumPy element-wise semantics on float64 arrays is the dense semantics the property names",
               "results observed through subs/vals/shape (sparse) or data (dense)",
               "stored order of the left operand is F-sorted here (all orders are C06's job; thorough adds reversed/rotated)",
               "the value dtype of an operand is storage only: an int64 / bool / int8 operand denotes the float64 array with the "
               "same (exactly representable) values, and the outcome is compared as a float64 array",
               "scalars are Python int / float (and their subclass np.float64); for other NumPy scalar types (np.int64) an "
               "explicit AssertionError refusal is outside the quantifier (counted inadmissible), an accepted one must be right; "
               "unary minus on bool storage is refused by NumPy itself and is outside the quantifier"]
BOUNDS = {
    "quick": "all 3^4 x 3^4 joint value patterns (left over {0,2,-3}, right over {0,2,-2}: equal, cancelling, same-sign, opposite-sign pairs) on shapes (4,),(2,2),(2,1,2) + (2,2) with reversed/rotated stored orders; rhs sparse+dense; "
             "13 binary ops; 7 scalars x 15 ops; 9 unary ops; storage-dtype lattice {float64,int64,bool}^2 on shape (3,) "
             "((float64,float64) on (2,)): all arrays over left {0,2,-3}(+0.5 if float64) / {0,1} bool x right {0,2,-2}(+0.5,-3.5 if float64) / {0,1} bool, "
             "rhs sparse+dense, 13 binary ops; per left dtype 16 scalars (7 + 0.5,-2.5 + np.float64 0,2,0.5,-2.5 + np.int64 -1,0,2) x 15 ops; 9 unary ops",
    "thorough": "quick + 4^4 x 4^4 over {0,2,-3,5} on (2,2); 3^6 x 3^6 on (2,3); 2^6 x 2^6 signed zero-patterns on (3,2),(1,2,3); "
                "2^8 x 2^8 zero patterns (positive) on (2,2,2),(2,4); re-run of the 4-cell space with left reversed / right rotated; "
                "storage-dtype lattice {float64,int64,bool,int8}^2 on shapes (3,),(1,3) incl. (float64,float64) with non-integral values",
}
CHUNK = 2


def _arrays(ncells, alphabet):
    return [list(t) for t in itertools.product(alphabet, repeat=ncells)]


def _right_alphabet(alpha):
    """Values of the right operand: equal to the left value (2,2), exactly cancelling (2,-2), same sign but
    different (-3,-2), opposite sign (-3,2), and zero against everything."""
    if list(alpha) == [0.0, 2.0, -3.0]:
        return [0.0, 2.0, -2.0]
    return list(alpha) + [-2.0]


def _signed_pattern_arrays(ncells, positive=False):
    out = []
    for pat in itertools.product((0, 1), repeat=ncells):
        out.append([0.0 if not p else (2.0 if (positive or l % 2 == 0) else -3.0) for l, p in enumerate(pat)])
    return out


DTYPES = {"quick": ["float64", "int64", "bool"], "thorough": ["float64", "int64", "bool", "int8"]}
FRACTIONAL_SCALARS = [0.5, -2.5]
NEAR2 = 2.0 + 2.0 ** -30
# (value, NumPy scalar type): np.float64 is a Python float; np.int64 is not a Python int
TYPED_SCALARS = [[0.0, "float64"], [2.0, "float64"], [0.5, "float64"], [-2.5, "float64"],
                 [-1, "int64"], [0, "int64"], [2, "int64"]]


def _dtype_alphabet(dtype, side):
    """Values an operand of the storage dtype ranges over (all exactly representable in it).  Integer storage: the
    base alphabets of the float space.  float64 storage additionally holds non-integral values: 0.5 (truncates to an
    implicit zero; equal on both sides) and, on the right, -3.5 (truncates to the left value -3) and 2 + 2^-30."""
    if dtype == "bool":
        return [0.0, 1.0]
    ints = [0.0, 2.0, -3.0] if side == "L" else [0.0, 2.0, -2.0]
    if np.dtype(dtype).kind == "f":
        # right side also: a value that differs from the left value 2 by 2^-30 (within any "close enough" tolerance, yet
        # not equal: comparisons are exact)
        return ints + ([0.5] if side == "L" else [0.5, -3.5, NEAR2])
    return ints


def _dtype_spaces(tier):
    """(shape, left dtype, right dtype) of the storage-dtype lattice."""
    dts = DTYPES[tier]
    shapes = [(3,)] if tier == "quick" else [(3,), (1, 3)]
    out = []
    for shape in shapes:
        for ldt in dts:
            for rdt in dts:
                if tier == "quick" and ldt == rdt == "float64":
                    out.append(((2,), ldt, rdt))     # the widest pair on one cell less
                else:
                    out.append((shape, ldt, rdt))
    return out


def _gen_dtype_cases(tier):
    for shape, ldt, rdt in _dtype_spaces(tier):
        for A in _arrays(prod(shape), _dtype_alphabet(ldt, "L")):
            for rhs in ("sparse", "dense"):
                yield {"check": "binop", "shape": list(shape), "A": A, "rhs": rhs, "Bspace": ["dtype", rdt],
                       "ldtype": ldt, "rdtype": rdt}
    for ldt in DTYPES[tier]:
        for A in _arrays(3, _dtype_alphabet(ldt, "L")):
            yield {"check": "scalar", "shape": [3], "A": A, "ldtype": ldt, "scalars": "typed"}
            yield {"check": "unary", "shape": [3], "A": A, "ldtype": ldt}


def gen_cases(tier, seed):
    alpha3 = [0.0, 2.0, -3.0]
    spaces = [((4,), alpha3, "full"), ((2, 2), alpha3, "full"), ((2, 1, 2), alpha3, "full")]
    if tier == "thorough":
        spaces += [((1, 4), alpha3, "full"), ((2, 2), [0.0, 2.0, -3.0, 5.0], "full"), ((2, 3), alpha3, "full"),
                   ((3, 2), None, "signed"), ((1, 2, 3), None, "signed"),
                   ((2, 2, 2), None, "positive"), ((2, 4), None, "positive")]
    for shape, alpha, mode in spaces:
        n = prod(shape)
        if mode == "full":
            As = _arrays(n, alpha)
        else:
            As = _signed_pattern_arrays(n, positive=(mode == "positive"))
        for A in As:
            for rhs in ("sparse", "dense"):
                yield {"check": "binop", "shape": list(shape), "A": A, "rhs": rhs, "Bspace": [mode, alpha]}
            if (mode == "full" and len(alpha) == 3) or mode != "full":
                yield {"check": "scalar", "shape": list(shape), "A": A}
                yield {"check": "unary", "shape": list(shape), "A": A}
    for shape in (((2, 2), (1, 4)) if tier == "thorough" else ((2, 2),)):
        for A in _arrays(4, alpha3):
            yield {"check": "binop", "shape": list(shape), "A": A, "rhs": "sparse", "Bspace": ["full", alpha3],
                   "lorder": "reversed", "rorder": "rotated"}
    yield from _gen_dtype_cases(tier)


def run_case(case, ctx):
    globals()["_run_" + case["check"]](case, ctx)


def _order(k, how):
    if how == "reversed":
        return list(reversed(range(k)))
    if how == "rotated":
        return list(range(1, k)) + [0] if k else []
    return None


def _build_sp(shape, vals, how=None, dtype=None):
    k = sum(1 for v in vals if v != 0)
    d = {"kind": "sptensor", "shape": list(shape), "vals": vals, "order": _order(k, how)}
    if dtype and dtype != "float64":
        d["dtype"] = dtype
    if k == 0 and how and "dtype" not in d:
        # an empty operand has no stored order to vary: the ordered cases vary the FORM of the shape argument
        # of the shape-only constructor instead (list / ndarray; the plain cases pass a tuple)
        import pyttb as ttb
        return ttb.sptensor(shape=list(shape) if how == "reversed" else np.array(shape))
    return H.build(d)


def _build_dense(shape, vals, dtype=None):
    d = {"kind": "tensor", "shape": list(shape), "vals": vals}
    if dtype and dtype != "float64":
        d["dtype"] = dtype
    return H.build(d)


def _scalar(c, ctype):
    """The scalar argument: a Python number, or the NumPy scalar of the named type."""
    return c if not ctype else np.dtype(ctype).type(c)


def _python_scalar_type(ctype):
    return not ctype or issubclass(np.dtype(ctype).type, (int, float))


def _cls(v):
    v = float(v)
    if v != v:
        return "nan"
    if v == float("inf"):
        return "+inf"
    if v == float("-inf"):
        return "-inf"
    return "0" if v == 0 else ("+" if v > 0 else "-")


def diff_signature(a, b, got, want):
    """Distinct (class of a, class of b, class of got, class of want) over the cells where the result
    differs from the reference.  Stored in the failure descriptor as `diff` so that a known finding can be
    identified by the exact kind of deviation (any other deviation stays a violation)."""
    got = np.asarray(got, dtype=float)
    sig = set()
    if got.shape != want.shape:
        return [["shape"]]
    bb = np.broadcast_to(np.asarray(b, dtype=float), want.shape)
    for idx in np.ndindex(*want.shape):
        g, w = got[idx], want[idx]
        if not (g == w or (g != g and w != w)):
            sig.add((_cls(a[idx]), _cls(bb[idx]), _cls(g), _cls(w)))
    return sorted(list(t) for t in sig)


def _check_result(ctx, op, name, res, want, variant, sub, rhs_kind, a=None, b=None):
    kind = O.kind_of(res)
    if kind == "sptensor":
        probs = [p for p in O.wf_sptensor(res, allow_explicit_zero=True)]
        if probs:
            ctx.fail(op, "malformed:" + ",".join(probs), str(probs), variant=variant, case=sub)
            return
        if O.pyshape(res.shape) != want.shape:
            ctx.fail(op, "wrong_shape", f"{res.shape} want {want.shape}", variant=variant, case=sub)
            return
        ctx.flag(name + ":sparse_result")
    elif kind == "tensor":
        ctx.flag(name + ":dense_result")
    else:
        ctx.fail(op, "wrong_type", kind, variant=variant, case=sub)
        return
    try:
        got = O.dense_of(res)
    except Exception as e:  # noqa: BLE001
        ctx.fail(op, "malformed_result", f"{type(e).__name__}: {e}", variant=variant, case=sub)
        return
    if not rm.same(got, want):
        if a is not None:
            sub = dict(sub, diff=diff_signature(a, b if b is not None else 0.0, got, want))
        ctx.fail(op, "wrong_value", f"got={np.asarray(got, dtype=float).tolist()} want={want.tolist()}",
                 variant=variant, case=sub)
    ctx.outcome(want)


def _nontrivial(a, b, want):
    return bool(np.any(a != 0) and np.any(np.asarray(b) != 0) and np.any(want != 0)
                and not np.all(want == want.flat[0]))


def _run_binop(case, ctx):
    shape = tuple(case["shape"])
    n = prod(shape)
    A = [float(v) for v in case["A"]]
    a = rm.arr(shape, A)
    rhs = case["rhs"]
    if "B" in case:
        Bs = [[float(v) for v in case["B"]]]
    else:
        mode, alpha = case["Bspace"]
        if mode == "full":
            Bs = _arrays(n, _right_alphabet(alpha))
        elif mode == "dtype":
            Bs = _arrays(n, _dtype_alphabet(alpha, "R"))
        else:
            Bs = _signed_pattern_arrays(n, positive=(mode == "positive"))
    ldt, rdt = case.get("ldtype"), case.get("rdtype")
    names = [case["op"]] if "op" in case else list(spops.BINOPS)
    for B in Bs:
        b = rm.arr(shape, B)
        ctx.state()
        for name in names:
            apply, ref = spops.BINOPS[name]
            sub = {"check": "binop", "shape": list(shape), "A": A, "B": B, "rhs": rhs, "op": name}
            for k_ in ("lorder", "rorder", "ldtype", "rdtype"):
                if k_ in case:
                    sub[k_] = case[k_]
            S = _build_sp(shape, A, case.get("lorder"), ldt)
            R = _build_sp(shape, B, case.get("rorder"), rdt) if rhs == "sparse" else _build_dense(shape, B, rdt)
            want = np.asarray(ref(a, b), dtype=float)
            ctx.tick()
            try:
                res = apply(S, R)
            except Exception as e:  # noqa: BLE001
                ctx.fail(spops.OPNAME[name], exc_symptom(e), short_tb(e), variant=rhs, case=sub)
                continue
            _check_result(ctx, spops.OPNAME[name], name, res, want, rhs, sub, rhs, a, b)
            if _nontrivial(a, b, want):
                ctx.nontriv()


def _run_scalar(case, ctx):
    shape = tuple(case["shape"])
    A = [float(v) for v in case["A"]]
    a = rm.arr(shape, A)
    ctx.state()
    ldt = case.get("ldtype")
    if "c" in case:
        scalars = [[case["c"], case.get("ctype")]]
    else:
        scalars = [[c, None] for c in spops.SCALARS]
        if case.get("scalars") == "typed":
            scalars += [[c, None] for c in FRACTIONAL_SCALARS] + TYPED_SCALARS
    for c, ctype in scalars:
        table = dict(spops.BINOPS)
        table.update(spops.RBINOPS)
        names = [case["op"]] if "op" in case else list(table)
        for name in names:
            apply, ref = table[name]
            sub = {"check": "scalar", "shape": list(shape), "A": A, "c": c, "op": name}
            if ldt:
                sub["ldtype"] = ldt
            if ctype:
                sub["ctype"] = ctype
            S = _build_sp(shape, A, None, ldt)
            want = np.asarray(ref(a, c), dtype=float)
            if want.shape != a.shape:
                want = np.broadcast_to(want, a.shape).copy()
            ctx.tick()
            try:
                res = apply(S, _scalar(c, ctype))
            except AssertionError as e:
                if not _python_scalar_type(ctype):
                    ctx.inadm()        # explicit refusal of a scalar type the library does not promise to take
                    ctx.flag(name + ":numpy_scalar_refused")
                    continue
                ctx.fail(spops.OPNAME[name], exc_symptom(e), short_tb(e), variant="scalar", case=sub)
                continue
            except Exception as e:  # noqa: BLE001
                ctx.fail(spops.OPNAME[name], exc_symptom(e), short_tb(e), variant="scalar", case=sub)
                continue
            if ctype and not _python_scalar_type(ctype):
                ctx.flag(name + ":numpy_scalar_accepted")
            _check_result(ctx, spops.OPNAME[name], name, res, want, "scalar", sub, "scalar", a, c)
            if np.any(a != 0) and c != 0 and not np.all(want == want.flat[0]):
                ctx.nontriv()
            if c == 0 and not ldt and not ctype:
                # depth 2 (see _run_unary): the same comparison / arithmetic with 0 after the object has grown
                ctx.tick()
                try:
                    a2 = _grown(S, a)
                    res2 = apply(S, _scalar(c, ctype))
                except Exception as e:  # noqa: BLE001
                    ctx.fail(spops.OPNAME[name], exc_symptom(e), short_tb(e), variant="scalar:after_growth", case=sub)
                    continue
                want2 = np.asarray(ref(a2, c), dtype=float)
                if want2.shape != a2.shape:
                    want2 = np.broadcast_to(want2, a2.shape).copy()
                _check_result(ctx, spops.OPNAME[name], name, res2, want2, "scalar:after_growth", sub, "scalar", a2, c)


def _grown(S, a, how="element"):
    """depth 2: the same object after an assignment beyond its extent (every mode one longer, the new corner = 5),
    either by one element or by a one-cell sparse right-hand side over the region at that corner."""
    new = tuple(x for x in a.shape)
    if how == "element":
        S[new] = 5.0
    else:
        import pyttb as ttb
        one = ttb.sptensor(np.zeros((1, a.ndim), dtype=int), np.array([[5.0]]), tuple(1 for _ in new))
        S[tuple(slice(x, x + 1) for x in new)] = one
    a2 = np.zeros(tuple(x + 1 for x in a.shape))
    a2[tuple(slice(0, x) for x in a.shape)] = a
    a2[new] = 5.0
    return a2


def _run_unary(case, ctx):
    shape = tuple(case["shape"])
    A = [float(v) for v in case["A"]]
    a = rm.arr(shape, A)
    ctx.state()
    ldt = case.get("ldtype")
    names = [case["op"]] if "op" in case else list(spops.UNOPS)
    for name in names:
        opname, apply, ref = spops.UNOPS[name]
        sub = {"check": "unary", "shape": list(shape), "A": A, "op": name}
        if ldt:
            sub["ldtype"] = ldt
        if ldt == "bool" and name in ("neg", "elemfun_neg"):
            ctx.inadm()                # NumPy defines no unary minus on boolean arrays
            continue
        S = _build_sp(shape, A, None, ldt)
        want = np.asarray(ref(a), dtype=float)
        ctx.tick()
        try:
            res = apply(S)
        except Exception as e:  # noqa: BLE001
            ctx.fail(opname, exc_symptom(e), short_tb(e), variant=name if name.startswith("elemfun") else "", case=sub)
            continue
        _check_result(ctx, opname, name, res, want, "", sub, "unary", a, None)
        # the receiver still denotes the same array
        if not rm.same(O.dense_of(S), a):
            ctx.fail(opname, "operand_mutated", "", case=sub)
        if np.any(a != 0) and np.any(want != 0):
            ctx.nontriv()
        if not ldt:
            # depth 2: the operation again on the same object after it has grown (nothing the first call derived from
            # the old extent may be reused)
            for how in ("element", "sparse_rhs"):
                ctx.tick()
                try:
                    S2 = S if how == "element" else _build_sp(shape, A, None, ldt)
                    if how != "element":
                        apply(S2)
                    a2 = _grown(S2, a, how)
                    res2 = apply(S2)
                except Exception as e:  # noqa: BLE001
                    ctx.fail(opname, exc_symptom(e), short_tb(e), variant="after_growth:" + how, case=sub)
                    continue
                _check_result(ctx, opname, name, res2, np.asarray(ref(a2), dtype=float), "after_growth:" + how, sub, "unary",
                              a2, None)
