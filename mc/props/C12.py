"""C12 - GCP losses, gradients and their tensor-level evaluation are mutually consistent.

Sub-checks (the "check" key of a case):
  handles   g(x, m) == d/dm f(x, m) on a grid of the loss's data x model domain (complex step and 5-point stencil
            of the REAL f; one-sided derivatives at the Huber kink)
  setup     fg_setup.setup(objective, data) with in-domain data selects the same pair as setup(objective, None)
  evaluate  fg.evaluate: F == weighted entrywise sum, G == explicit index-sum MTTKRP of W*g (tight) and
            G == stencil derivative of the objective in EVERY factor coordinate (end to end)
  mttkrps   tensor.mttkrps == per-mode tensor.mttkrp == explicit index sum (exact integers)
  helper    fg_est.estimate_helper: model values at the sample subscripts and leave-one-out Hadamard products (exact)
  estimate  fg_est.estimate on sample lists == definition of the estimator; on the full index set with unit
            weights == fg.evaluate, for every order of the samples, duplicated samples with split weights
"""

import itertools
from math import prod

import numpy as np

from mc import holders as H
from mc import observe as O
from mc import refmodel as rm
from mc import space
from mc.engine import exc_symptom, short_tb

ID = "C12"
RULE = ("product explorer.  handles: one case per (loss, extra parameter), the complete data-grid x model-grid is "
        "evaluated inside; evaluate: one case per (shape, rank, loss, parameter, data holder, Kruskal weights) with "
        "every weight/mask array of the tier inside and every coordinate of every factor matrix differentiated; "
        "mttkrps/helper: one case per (shape, rank); estimate: one case per (shape, rank, loss) with every sample "
        "list of the tier inside.  Non-trivial: the compared gradient / objective is non-zero and the tensor has "
        ">= 2 cells.")
ASSUMPTIONS = [
    "the derivative of the REAL loss handle is observed twice: by the complex step Im f(x, m+ih)/h (the nine "
    "analytic losses are log/exp/power compositions that numpy evaluates on complex arguments; tolerance 1e-12, "
    "measured worst error 3e-15) and by a 5-point central stencil in float64 where that is well conditioned "
    "(model value >= 1e-3 for the bounded losses; tolerance 1e-8, measured worst error 2e-10); Huber (piecewise "
    "quadratic) by the stencil away from the kink and by one-sided 3-point formulas at the kink; the measured "
    "worst errors are evidence counters",
    "Kruskal values of the reference side are computed by mc/refmodel.py (einsum of the definition)",
    "the derivative identity is decided on a finite grid of each loss's domain, not on all of R",
    "1-way models are outside the quantifier (tensor.mttkrp documents them as invalid); empty sample lists and "
    "estimate() on models with non-unit weights are run but only F is asserted (the routine documents that it "
    "re-normalises the model)",
]
BOUNDS = {
    "quick": "handles: 10 losses / 14 configurations (Huber t in {.25,1}, NB r in {1,3.5}, beta in {.3,.5,2}) x 3-6 data "
             "values x 8 model values (incl. the lower bound 0 and 1e-6 above it) + both Huber kinks per data value; "
             "setup: 14 configurations x {dense,sparse} x {positive data, data with zeros}; evaluate: shapes (2,3),"
             "(3,2,2),(2,2,2,2),(1,3,2) x rank 1-2 x 14 configurations x {dense,sparse} data x {unit, non-unit} Kruskal "
             "weights; weight arrays: None + every 0/1 mask with <=2 zeros + 2 generic weight arrays + bool/int/C-order "
             "forms for dense data & unit weights (4 representatives otherwise); every factor coordinate "
             "differentiated; 1-way (3,) objective only; mttkrps/helper: all shapes order 2-4,size<=3,cells<=24 x rank "
             "1-2 x {list, ktensor unit, ktensor weighted} resp. 6 sample lists; estimate: (2,2),(2,3),(3,2,2),(2,2,2,2),"
             "(1,3,2) x rank 1-2 x 14 configurations: all n! sample orders for n<=6 cells (4 orders otherwise), "
             "n+3 duplicated lists with split weights, all sub-lists of 1,2,n-1 samples, 2 weighted lists, 3 crng forms",
    "thorough": "handles: 25 configurations (6 parameter values each), 42 model values for bounded / 41 for unbounded "
                "losses, 3-10 data values; evaluate: + shapes (3,3),(2,3,2),(2,1,2,2),(2,3,4), rank 1-3 (rank 3 with 4 "
                "weight arrays), masks with <=3 zeros up to 16 cells; mttkrps/helper: order 2-5,size<=3,cells<=48, rank "
                "1-3; estimate: + the shapes above and all 8! orders of (2,2,2) for Gaussian/Poisson/Bernoulli-logit",
}
CHUNK = 2

EPS = 1e-10  # the library's shift; used only to pick stencil steps / excluded points

# ---------------------------------------------------------------------------
# domains

#            name                 data domain  model domain
LOSS_DOM = {
    "GAUSSIAN": ("real", "real"),
    "BERNOULLI_ODDS": ("binary", "pos"),
    "BERNOULLI_LOGIT": ("binary", "real"),
    "POISSON": ("count", "pos"),
    "POISSON_LOG": ("count", "real"),
    "RAYLEIGH": ("nonneg", "pos"),
    "GAMMA": ("nonneg", "pos"),
    "HUBER": ("real", "real"),
    "NEGATIVE_BINOMIAL": ("count", "pos"),
    "BETA": ("nonneg", "pos"),
}
PARAMS = {
    "quick": {"HUBER": [0.25, 1.0], "NEGATIVE_BINOMIAL": [1, 3.5], "BETA": [0.3, 0.5, 2.0]},
    "thorough": {"HUBER": [0.25, 0.5, 1.0, 1.5, 2.5, 4.0], "NEGATIVE_BINOMIAL": [1, 2, 3.5, 5, 10, 0.5],
                 "BETA": [0.3, 0.5, 0.75, 1.5, 2.0, 3.0]},
}


def loss_configs(tier):
    out = []
    for name in LOSS_DOM:
        for p in PARAMS[tier].get(name, [None]):
            out.append((name, p))
    return out


def data_grid(kind, tier, seed):
    th = tier == "thorough"
    if kind == "binary":
        return [0.0, 1.0]
    if kind == "count":
        return [0.0, 1.0, 4.0, 17.0] + ([2.0, 3.0, 7.0, 40.0] if th else []) + [float(5 + seed)]
    if kind == "nonneg":
        return [0.0, 0.5, 1.0, 4.0] + ([0.125, 2.5, 9.0, 33.0] if th else []) + [1.5 + seed / 8.0]
    return [-2.0, -0.5, 0.0, 1.5, 3.0] + ([-7.0, -1.0, 0.25, 6.5] if th else []) + [0.75 + seed / 8.0]


def model_grid(kind, tier, seed):
    th = tier == "thorough"
    s = 1.0 + seed / 16.0
    if kind == "pos":
        if th:
            g = [0.0] + [float(10.0 ** (-8 + 0.25 * k)) * s for k in range(41)]
        else:
            g = [0.0, 1e-6 * s, 1e-3 * s, 0.05 * s, 0.5 * s, 1.0 * s, 4.0 * s, 30.0 * s]
        return g
    if th:
        return [-5.0 + 0.25 * k + seed / 32.0 for k in range(41)]
    return [v + seed / 32.0 for v in (-3.0, -1.0, -0.25, 0.0, 0.1, 0.7, 2.0, 4.5)]


def get_handles(name, param, data=None):
    from pyttb.gcp import fg_setup
    from pyttb.gcp.handles import Objectives

    return fg_setup.setup(Objectives[name], data, param)


def d5(fun, h):
    """5-point central stencil of fun at 0 with step h."""
    return (-fun(2 * h) + 8 * fun(h) - 8 * fun(-h) + fun(-2 * h)) / (12 * h)


def _step(mdom, m, name):
    if name == "HUBER":
        return 1e-4
    if mdom == "pos":
        return 1e-3 * (m + EPS)
    return 1e-3 * (1.0 + abs(m))


# ---------------------------------------------------------------------------
# generic values for the tensor level

_POS = [0.5, 1.25, 0.75, 2.0, 0.25, 1.5, 1.0, 1.75]
_SGN = [0.5, -0.75, 1.0, -0.25, 0.75, -1.0, 1.25, 0.25]
_DATA = {
    "binary": [1.0, 0.0, 0.0, 1.0, 1.0, 0.0, 1.0],
    "count": [0.0, 1.0, 4.0, 2.0, 0.0, 3.0, 1.0],
    "nonneg": [0.5, 0.0, 4.0, 2.5, 0.25, 3.0, 0.0],
    "real": [-2.0, 0.0, 1.5, 0.5, -0.75, 3.0, 0.0],
}
_WGT = [1.0, 0.5, 2.0, 0.25, 1.5, 3.0, 0.75]


def factors_for(shape, R, mdom, seed, salt=0):
    pool = _POS if mdom == "pos" else _SGN
    return [np.array([[pool[(3 * i + 5 * r + 7 * n + salt + seed) % len(pool)] for r in range(R)]
                      for i in range(s)], dtype=float) for n, s in enumerate(shape)]


def kweights_for(kind, R, mdom):
    if kind == "unit":
        return np.ones(R)
    w = [2.0, 0.5, 1.5] if mdom == "pos" else [2.0, -0.5, 1.5]
    return np.array(w[:R], dtype=float)


def data_for(shape, ddom, seed):
    pool = _DATA[ddom]
    n = prod(shape)
    return [pool[(l * 3 + seed) % len(pool)] for l in range(n)]


def weight_arrays(n, tier, shape):
    """Descriptors of the weight / mask arrays of a tier for n cells."""
    maxz = 2
    if tier == "thorough" and n <= 16:
        maxz = 3
    out = [None]
    for k in range(0, maxz + 1):
        for z in itertools.combinations(range(n), k):
            out.append({"zeros": list(z)})
    out.append({"generic": 0})
    out.append({"generic": 1})
    out.append({"generic": 2})      # weights of both signs (a weight array is any real array)
    out.append({"zeros": [n - 1], "dtype": "bool"})
    out.append({"zeros": [0], "dtype": "int"})
    out.append({"generic": 1, "corder": True})
    return out


def build_W(wd, shape, seed):
    if wd is None:
        return None
    n = prod(shape)
    if "zeros" in wd:
        v = [0.0 if l in wd["zeros"] else 1.0 for l in range(n)]
    else:
        v = [_WGT[(2 * l + seed) % len(_WGT)] for l in range(n)]
        if wd["generic"] == 1:
            v = [0.0 if l % 4 == 1 else x for l, x in enumerate(v)]
        elif wd["generic"] == 2:
            v = [-x if l % 3 == 1 else x for l, x in enumerate(v)]
    a = rm.arr(shape, v)
    a = np.ascontiguousarray(a) if wd.get("corder") else np.asfortranarray(a)
    if wd.get("dtype") == "bool":
        a = a.astype(bool)
    elif wd.get("dtype") == "int":
        a = a.astype(int)
    return a


def _call(ctx, op, f, case, variant=""):
    ctx.tick()
    try:
        return True, f()
    except Exception as e:  # noqa: BLE001
        ctx.fail(op, exc_symptom(e), short_tb(e), variant=variant, case=case)
        return False, None


def _aslist(G):
    return [np.asarray(g, dtype=float) for g in G]


# ---------------------------------------------------------------------------
# cases


def _eval_shapes(tier):
    s = [(2, 3), (3, 2, 2), (2, 2, 2, 2), (1, 3, 2)]
    if tier == "thorough":
        s += [(3, 3), (2, 3, 2), (2, 1, 2, 2), (2, 3, 4)]
    return s


def gen_cases(tier, seed):
    th = tier == "thorough"
    cfgs = loss_configs(tier)
    for name, p in cfgs:
        yield {"check": "handles", "loss": name, "param": p, "tier": tier, "seed": seed}
    for name, p in loss_configs("quick"):
        for holder in ("tensor", "sptensor"):
            yield {"check": "setup", "loss": name, "param": p, "holder": holder, "seed": seed}
    # mttkrps / helper
    shp = [s for s in (space.shapes(5, 3, 48) if th else space.shapes(4, 3, 24)) if len(s) >= 2]
    for s in shp:
        for R in ((1, 2, 3) if th else (1, 2)):
            yield {"check": "mttkrps", "shape": list(s), "rank": R, "seed": seed}
    for s in shp:
        for R in ((1, 2, 3) if th else (1, 2)):
            yield {"check": "helper", "shape": list(s), "rank": R, "seed": seed}
    # evaluate: 1-way, F only
    for name, p in loss_configs("quick"):
        yield {"check": "evaluate", "shape": [3], "rank": 2, "loss": name, "param": p, "holder": "tensor",
               "kw": "unit", "Ws": "few", "tier": tier, "seed": seed}
    for s in _eval_shapes(tier):
        for R in ((1, 2, 3) if th else (1, 2)):
            for name, p in loss_configs("quick"):
                for holder in ("tensor", "sptensor"):
                    for kw in ("unit", "nonunit"):
                        few = holder == "sptensor" or kw == "nonunit" or (R == 3)
                        base = {"check": "evaluate", "shape": list(s), "rank": R, "loss": name, "param": p,
                                "holder": holder, "kw": kw, "Ws": "few" if few else "all", "tier": tier, "seed": seed}
                        if few:
                            yield base
                            if R == 2:
                                yield dict(base, uz=True)
                        else:
                            nb = max(1, len(weight_arrays(prod(s), tier, s)) * sum(s) * R // 600)
                            for b in range(nb):
                                yield dict(base, Wbatch=[b, nb])
    # estimate
    # every order of the samples: <= 6 cells for every loss; (2,2,2) (8! orders) in the thorough tier for 3 losses
    for s in [(2, 2)] + _eval_shapes(tier) + ([(2, 2, 2)] if th else []):
        for R in (1, 2):
            for q, (name, p) in enumerate(loss_configs("quick")):
                base = {"check": "estimate", "shape": list(s), "rank": R, "loss": name, "param": p,
                        "lists": "all", "tier": tier, "seed": seed}
                n = prod(s)
                if n <= 6:
                    for b in range(2 if n == 6 else 1):
                        yield dict(base, orders="all", obatch=[b, 2 if n == 6 else 1])
                elif th and n == 8 and len(s) == 3 and s == (2, 2, 2) and R == 2 and name in (
                        "GAUSSIAN", "POISSON", "BERNOULLI_LOGIT"):
                    for b in range(16):
                        yield dict(base, orders="all", obatch=[b, 16])
                else:
                    yield dict(base, orders="few")
                if R == 2:
                    yield dict(base, orders="few", uz=True)
    for name, p in loss_configs("quick")[:3]:
        yield {"check": "estimate", "shape": [3], "rank": 2, "loss": name, "param": p, "lists": "all",
               "tier": tier, "seed": seed}
    yield from _rerun_cases(tier, seed)


def run_case(case, ctx):
    globals()["_run_" + case["check"]](case, ctx)


# ---------------------------------------------------------------------------
# depth-2 history on the data object: evaluate, overwrite one stored entry of the same data object in place (entry
# count and shape unchanged), evaluate again.  The second evaluation must be the evaluation of the edited data.


def _rerun_cases(tier, seed):
    for s in ((2, 3), (2, 2, 2)):
        for name, p in loss_configs("quick"):
            for holder in ("tensor", "sptensor"):
                yield {"check": "rerun", "shape": list(s), "rank": 2, "loss": name, "param": p, "holder": holder,
                       "kw": "unit", "tier": tier, "seed": seed}


def _run_rerun(case, ctx):
    from pyttb.gcp import fg

    name, p = case["loss"], case["param"]
    shape = tuple(case["shape"])
    seed = case.get("seed", 0)
    ddom, mdom = LOSS_DOM[name]
    f, g, lb = get_handles(name, p)
    xv = data_for(shape, ddom, seed)
    A = rm.arr(shape, xv)
    cells = rm.cells(shape)
    nz = [c for c in cells if A[c] != 0]
    pool = [v for v in _DATA[ddom] if v != 0.0]
    ctx.state()
    if not nz or len(set(pool)) < 2 and ddom != "binary":
        ctx.inadm()
        return
    cell = nz[-1]
    others = [v for v in pool if v != A[cell]]
    if not others:
        # binary data: the only other value is 0 (the entry leaves the stored pattern of a sparse holder)
        others = [0.0]
    B = A.copy()
    B[cell] = others[0]
    K, U, lam = _model(case)
    Mref = rm.kruskal(lam, U)
    X = _holder(shape, xv, case["holder"])
    sub = dict(case)
    ok, r1 = _call(ctx, "fg.evaluate", lambda: fg.evaluate(_model(case)[0], X, None, f, g), sub, "rerun:first")
    if not ok:
        return
    X[cell] = float(B[cell])
    if not rm.same(np.asarray(O.dense_of(X), dtype=float), B):
        ctx.fail(case["holder"] + ".__setitem__", "wrong_value", "the edited data object does not hold the edited data",
                 "rerun", sub)
        return
    ok, r2 = _call(ctx, "fg.evaluate", lambda: fg.evaluate(_model(case)[0], X, None, f, g), sub, "rerun:second")
    if not ok:
        return
    F2, G2 = r2
    F_ref = float(np.sum(np.asarray(f(B, Mref), dtype=float)))
    F_abs = float(np.sum(np.abs(np.asarray(f(B, Mref), dtype=float)))) + 0.01 * float(np.sum(1.0 + np.abs(B) + np.abs(Mref)))
    ctx.nontriv()
    if not abs(float(F2) - F_ref) <= 1e-11 * F_abs + 1e-300:
        ctx.fail("fg.evaluate", "history_dependent",
                 f"after overwriting one stored entry of the same data object: F={float(F2)!r}, sum of the loss over the "
                 f"edited data={F_ref!r} (first evaluation gave {float(r1[0])!r})", "rerun:F", sub)
        return
    Y = np.asarray(g(B, Mref), dtype=float)
    for n in range(len(shape)):
        want = _ref_grad(Y, U, lam, n)
        scale = _ref_grad(np.abs(Y) + 0.01, [np.abs(u) for u in U], np.abs(lam), n)
        if not np.all(np.abs(np.asarray(G2[n], dtype=float) - want) <= 1e-11 * scale + 1e-300):
            ctx.fail("fg.evaluate", "history_dependent",
                     f"after overwriting one stored entry of the same data object: mode {n} gradient is not the gradient "
                     f"for the edited data", "rerun:G", sub)
            break
    ctx.outcome([name, str(p), list(shape), F_ref])


# ---------------------------------------------------------------------------
# (a) handle pairs

TOL_H = 1e-8   # |stencil - g| <= TOL_H * (1 + |g|)
TOL_C = 1e-12  # |complex step - g| <= TOL_C * (1 + |g|)


def _run_handles(case, ctx):
    name, p = case["loss"], case["param"]
    tier, seed = case.get("tier", "quick"), case.get("seed", 0)
    ddom, mdom = LOSS_DOM[name]
    ok, hs = _call(ctx, "fg_setup.setup", lambda: get_handles(name, p), case, variant=name)
    if not ok:
        return
    f, g, lb = hs
    want_lb = 0.0 if mdom == "pos" else -np.inf
    if float(lb) != want_lb:
        ctx.fail("fg_setup.setup", "wrong_value", f"lower bound {lb!r}, the loss is defined for model values > "
                 f"{want_lb}", variant=name, case=case)
    ctx.outcome([name, str(p), float(lb)])
    if case.get("kink"):
        xs, ms = [], []
    elif "x" in case:
        xs, ms = [case["x"]], [case["m"]]
    else:
        xs, ms = data_grid(ddom, tier, seed), model_grid(mdom, tier, seed)
    X, M = np.meshgrid(np.array(xs, dtype=float), np.array(ms, dtype=float), indexing="ij")
    ok, FV = _call(ctx, "handles." + name.lower(), lambda: np.asarray(f(X.copy(), M.copy()), dtype=float), case, name)
    ok2, GV = _call(ctx, "handles." + name.lower() + "_grad", lambda: np.asarray(g(X.copy(), M.copy()), dtype=float),
                    case, name)
    if not (ok and ok2):
        return
    if FV.shape != X.shape or GV.shape != X.shape:
        ctx.fail("handles." + name.lower(), "wrong_shape", f"{FV.shape} {GV.shape} for inputs {X.shape}", name, case)
        return
    worst = 0.0
    worst_c = 0.0
    for i, x in enumerate(xs):
        for j, m in enumerate(ms):
            sub = {"check": "handles", "loss": name, "param": p, "x": x, "m": m}
            ctx.state()
            xa = np.array([x], dtype=float)
            # element-wise: the value at a point does not depend on the other entries of the arrays
            f1 = float(np.asarray(f(xa, np.array([m])))[0])
            g1 = float(np.asarray(g(xa, np.array([m])))[0])
            ctx.tick(2)
            if not (_same(f1, FV[i, j]) and _same(g1, GV[i, j])):
                ctx.fail("handles." + name.lower(), "not_elementwise",
                         f"x={x} m={m}: alone f={f1!r} g={g1!r}, inside the grid f={FV[i, j]!r} g={GV[i, j]!r}",
                         name, sub)
                continue
            if not (np.isfinite(f1) and np.isfinite(g1)):
                ctx.fail("handles." + name.lower(), "not_finite", f"x={x} m={m} (lower bound {lb}): f={f1!r} g={g1!r}",
                         name, sub)
                continue
            if name == "HUBER":
                d = abs(abs(x - m) - p)
                ctx.flag("huber:" + ("quadratic" if abs(x - m) < p else "linear"))
                if d <= 1e-3:
                    ctx.inadm()
                    ctx.count("huber_kink_excluded")
                    continue
            if g1 != 0.0:
                ctx.nontriv()
            ctx.outcome([name, str(p), x, m, g1])
            # (i) complex step: Im f(x, m + ih) / h for the analytic losses - no cancellation, sharp
            if name != "HUBER":
                cd = cstep(f, xa, m)
                ctx.tick()
                err = abs(cd - g1) / (1.0 + abs(g1))
                worst_c = max(worst_c, err)
                if not err <= TOL_C:
                    ctx.fail("handles." + name.lower() + "_grad", "wrong_value",
                             f"{name}({p}) x={x} m={m}: gradient handle {g1!r}, derivative of the loss handle "
                             f"{cd!r} (complex step)", name, sub)
                    continue
            # (ii) 5-point stencil in real arithmetic where it is well conditioned
            if mdom == "pos" and m < 1e-3:
                ctx.count("stencil_skipped_ill_conditioned")
                continue
            h = _step(mdom, m, name)
            fd = float(d5(lambda t: float(np.asarray(f(xa, np.array([m + t])))[0]), h))
            ctx.tick(4)
            err = abs(fd - g1) / (1.0 + abs(g1))
            worst = max(worst, err)
            if not err <= TOL_H:
                ctx.fail("handles." + name.lower() + "_grad", "wrong_value",
                         f"{name}({p}) x={x} m={m}: gradient handle {g1!r}, derivative of the loss handle "
                         f"{fd!r} (5-point stencil, h={h:g})", name, sub)
    if name == "HUBER":
        # at the kink |x - m| == t the loss is still differentiable: both one-sided derivatives (3-point formulas,
        # exact for the two quadratic/linear pieces) must equal the gradient handle there
        kinks = [(case["x"], case["m"])] if case.get("kink") else (
            [] if "x" in case else [(x, x + sgn * p) for x in data_grid(ddom, tier, seed) for sgn in (-1.0, 1.0)])
        for x, m in kinks:
            sub = {"check": "handles", "loss": name, "param": p, "x": x, "m": m, "kink": 1}
            ctx.state()
            xa = np.array([x], dtype=float)
            fv = lambda t: float(np.asarray(f(xa, np.array([m + t])))[0])  # noqa: E731
            g1 = float(np.asarray(g(xa, np.array([m])))[0])
            h = 2.0 ** -13
            right = (-3 * fv(0.0) + 4 * fv(h) - fv(2 * h)) / (2 * h)
            left = (3 * fv(0.0) - 4 * fv(-h) + fv(-2 * h)) / (2 * h)
            ctx.tick(6)
            ctx.nontriv()
            ctx.flag("huber:kink")
            if not (abs(right - g1) <= 1e-8 * (1 + abs(g1)) and abs(left - g1) <= 1e-8 * (1 + abs(g1))):
                ctx.fail("handles.huber_grad", "wrong_value",
                         f"HUBER({p}) x={x} m={m} (kink): gradient handle {g1!r}, one-sided derivatives of the loss "
                         f"handle left {left!r} right {right!r}", name, sub)
    if "x" not in case:
        ctx.count(f"worst_stencil_err_1e-15:{name}({p})", int(worst * 1e15))
        ctx.count(f"worst_cstep_err_1e-18:{name}({p})", int(worst_c * 1e18))


def cstep(f, xa, m):
    """Complex-step derivative of the real loss handle in the model value."""
    h = 1e-25 * (abs(m) + EPS)
    v = np.asarray(f(xa, np.array([complex(m, h)])))
    return float(np.imag(v.ravel()[0]) / h)


def _same(a, b):
    return (a == b) or (np.isnan(a) and np.isnan(b))


# ---------------------------------------------------------------------------
# setup(): selection with a data tensor


def _holder(shape, vals, holder):
    import pyttb as ttb

    if holder == "tensor":
        return ttb.tensor(np.asfortranarray(rm.arr(shape, vals)))
    subs, v = H.sp_parts(shape, vals, None)
    return H.make_sptensor(shape, subs, v)


# Zeros belong to the documented data domain of the "non-negative" / count losses (Rayleigh, Gamma, negative
# binomial, beta): setup() must accept them for dense data as it does for sparse data.  Set to False to demote this
# to an observation (counter setup_rejects_zero_data) if the validation is judged outside C12.
ASSERT_ZERO_DATA = True


def _run_setup(case, ctx):
    name, p, holder, seed = case["loss"], case["param"], case["holder"], case.get("seed", 0)
    ddom, mdom = LOSS_DOM[name]
    shape = (2, 3)
    ctx.state()
    ok, base = _call(ctx, "fg_setup.setup", lambda: get_handles(name, p), case, variant="nodata")
    if not ok:
        return
    # "positive": no zero entry; "with_zero": the documented domain (binary / counts / "non-negative" data)
    pools = {"positive": [v for v in _DATA[ddom] if v != 0.0] if ddom != "binary" else [1.0],
             "with_zero": _DATA[ddom]}
    for pname, pool in pools.items():
        vals = [pool[(l * 3 + seed) % len(pool)] for l in range(prod(shape))]
        sub = dict(case, pool=pname)
        if "pool" in case and case["pool"] != pname:
            continue
        try:
            ctx.tick()
            hs = get_handles(name, p, _holder(shape, vals, holder))
        except Exception as e:  # noqa: BLE001
            if pname == "with_zero" and not ASSERT_ZERO_DATA and ddom in ("nonneg", "count"):
                ctx.inadm()
                ctx.count(f"setup_rejects_zero_data:{name}:{holder}")
                continue
            ctx.fail("fg_setup.setup", exc_symptom(e), short_tb(e) + f" data={vals}", variant=holder, case=sub)
            continue
        ctx.count(f"setup_accepts:{pname}:{holder}")
        xs = np.array(vals, dtype=float)
        ms = np.array(factors_for((len(vals),), 1, mdom, seed)[0][:, 0])
        same = (rm.same(hs[0](xs, ms), base[0](xs, ms)) and rm.same(hs[1](xs, ms), base[1](xs, ms))
                and float(hs[2]) == float(base[2]))
        ctx.nontriv()
        if not same:
            ctx.fail("fg_setup.setup", "wrong_value", "handles selected with a data tensor differ from those "
                     "selected without", variant=holder, case=sub)


# ---------------------------------------------------------------------------
# (b) tensor level


def _model(case):
    import pyttb as ttb

    shape = tuple(case["shape"])
    R = case["rank"]
    ddom, mdom = LOSS_DOM[case["loss"]]
    U = factors_for(shape, R, mdom, case.get("seed", 0))
    if case.get("uz"):
        # an exact zero among the factor entries (rank >= 2 keeps a positive-domain model positive)
        U[0][0, 0] = 0.0
        if mdom != "pos":
            U[-1][-1, R - 1] = 0.0
    lam = kweights_for(case.get("kw", "unit"), R, mdom)
    if case.get("kw", "unit") == "unit":
        K = ttb.ktensor([u.copy(order="F") for u in U])
    else:
        K = ttb.ktensor([u.copy(order="F") for u in U], lam.copy())
    return K, U, lam


def _ref_grad(Y, U, lam, n):
    """G_n[j, r] = sum_i [i_n = j] Y[i] lam_r prod_{k != n} U_k[i_k, r]  (explicit index sum)."""
    N = len(U)
    if N == 1:
        return np.outer(Y, lam)
    return rm.mttkrp(Y, U, n, lam)


def _run_evaluate(case, ctx):
    from pyttb.gcp import fg

    name, p = case["loss"], case["param"]
    shape = tuple(case["shape"])
    N, R = len(shape), case["rank"]
    seed, tier = case.get("seed", 0), case.get("tier", "quick")
    ddom, mdom = LOSS_DOM[name]
    f, g, lb = get_handles(name, p)
    xv = data_for(shape, ddom, seed)
    A = rm.arr(shape, xv)
    ncell = prod(shape)
    if "W" in case:
        wds = [case["W"]]
    elif case.get("Ws") == "few":
        wds = [None, {"zeros": [0]}, {"zeros": [0, ncell - 1]}, {"generic": 1}, {"generic": 2}]
    else:
        wds = weight_arrays(ncell, tier, shape)
        if "Wbatch" in case:
            wds = wds[case["Wbatch"][0]::case["Wbatch"][1]]
    K0, U, lam = _model(case)
    Mref = rm.kruskal(lam, U)
    if mdom == "pos":
        assert np.all(Mref > 0)
    Fent = np.asarray(f(A, Mref), dtype=float)      # entrywise loss on the reference model values
    Gent = np.asarray(g(A, Mref), dtype=float)
    variant = ("1way" if N == 1 else "") + ("kweights" if case.get("kw") == "nonunit" else "")
    for wd in wds:
        sub = {k: v for k, v in case.items() if k not in ("Ws", "Wbatch")}
        sub["W"] = wd
        ctx.state()
        W = build_W(wd, shape, seed)
        Wf = np.ones(shape) if W is None else np.asarray(W, dtype=float)
        ctx.flag("evaluate:weights=" + ("None" if W is None else str(W.dtype)))
        F_ref = float(np.sum(Wf * Fent))
        # magnitude of the terms: |W f| resp. |W g| plus 1 % of a unit-size loss (a loss value / derivative that
        # vanishes by cancellation, e.g. x == m, still carries the rounding of its O(1+|x|+|m|) terms)
        unitE = np.abs(Wf) * (1.0 + np.abs(A) + np.abs(Mref))
        F_abs = float(np.sum(np.abs(Wf * Fent))) + 0.01 * float(np.sum(unitE))
        K, _, _ = _model(case)
        X = _holder(shape, xv, case["holder"])
        Wc = None if W is None else W.copy()
        # --- objective
        ok, F = _call(ctx, "fg.evaluate", lambda: fg.evaluate(K, X, Wc, f, None), sub, variant)
        if ok:
            if not isinstance(F, float):
                ctx.fail("fg.evaluate", "wrong_type", f"F is {type(F).__name__}", variant, sub)
            elif not abs(F - F_ref) <= 1e-11 * F_abs + 1e-300:
                ctx.fail("fg.evaluate", "wrong_value", f"F={F!r}, weighted sum of the loss over all entries={F_ref!r}",
                         variant + ":F", sub)
            ctx.outcome([name, str(p), list(shape), R, F_ref])
        if W is not None and not rm.same(Wc, W):
            ctx.fail("fg.evaluate", "operand_mutated", "weights array changed", variant, sub)
        if N == 1:
            ctx.inadm()
            continue
        # --- gradient
        K, _, _ = _model(case)
        X = _holder(shape, xv, case["holder"])
        ok, FG = _call(ctx, "fg.evaluate", lambda: fg.evaluate(K, X, None if W is None else W.copy(), f, g), sub, variant)
        if not ok:
            continue
        K2, _, _ = _model(case)
        ok, G2 = _call(ctx, "fg.evaluate", lambda: fg.evaluate(K2, X, None if W is None else W.copy(), None, g), sub,
                       variant)
        try:
            F1, G = FG
            G = _aslist(G)
            shp_ok = len(G) == N and all(G[n].shape == (shape[n], R) for n in range(N))
        except Exception:  # noqa: BLE001
            shp_ok = False
        if not shp_ok:
            ctx.fail("fg.evaluate", "wrong_shape", f"gradient list {[getattr(x, 'shape', None) for x in FG[1]]}",
                     variant, sub)
            continue
        if ok and not (_same(F1, F) and all(rm.same(a, b) for a, b in zip(G, _aslist(G2)))):
            ctx.fail("fg.evaluate", "wrong_value", "F / G differ between the (f,g), (f,None) and (None,g) calls",
                     variant + ":modes", sub)
        Y = Wf * Gent
        mech_ok = True
        for n in range(N):
            want = _ref_grad(Y, U, lam, n)
            scale = _ref_grad(np.abs(Y) + 0.01 * unitE, [np.abs(u) for u in U], np.abs(lam), n)
            if not np.all(np.abs(G[n] - want) <= 1e-11 * scale + 1e-300):
                mech_ok = False
                v = variant + ":G"
                if case.get("kw") == "nonunit":
                    # the one recorded misbehaviour: every mode's G is the MTTKRP with the Kruskal weights left out
                    one = np.ones(R)
                    if all(np.all(np.abs(G[k] - _ref_grad(Y, U, one, k)) <= 1e-11 * _ref_grad(
                            np.abs(Y) + 0.01 * unitE, [np.abs(u) for u in U], one, k) + 1e-300) for k in range(N)):
                        v = variant + ":G_without_kruskal_weights"
                ctx.fail("fg.evaluate", "wrong_value",
                         f"mode {n}: G={G[n].tolist()} but sum_i W[i] g(x_i,m_i) dm_i/dU={want.tolist()} "
                         f"(Kruskal weights {lam.tolist()})", v, sub)
                break
        # --- end to end: every coordinate of every factor matrix, derivative of the objective
        if not mech_ok:
            continue  # G is already known to be wrong for this configuration
        nz = False
        bad = False
        for n in range(N):
            scale = _ref_grad(np.abs(Y) + 0.01 * unitE, [np.abs(u) for u in U], np.abs(lam), n)
            for j in range(shape[n]):
                for r in range(R):
                    # direction of the model values when U_n[j, r] moves
                    E = [u[:, r] for u in U]
                    E[n] = np.zeros(shape[n])
                    E[n][j] = 1.0
                    D = lam[r] * rm.kruskal(np.ones(1), [e.reshape(-1, 1) for e in E])
                    got = G[n][j, r]
                    if got != 0:
                        nz = True
                    h = 1e-3 * (abs(U[n][j, r]) if mdom == "pos" else 1.0)
                    if h == 0.0:
                        # a zero factor entry of a positive-domain model: step relative to the room the model values leave
                        mask = D != 0
                        h = 1e-3 * (0.1 * float(np.min(Mref[mask] / np.abs(D[mask]))) if np.any(mask) else 1.0)
                    if name == "HUBER":
                        h = 1e-4
                        lo = np.abs(A - (Mref - 2 * h * D)) < p
                        hi = np.abs(A - (Mref + 2 * h * D)) < p
                        mid = np.abs(A - Mref) < p
                        if np.any((lo != hi) | (lo != mid)) or np.any(np.abs(np.abs(A - Mref) - p) <= 1e-3):
                            ctx.count("huber_kink_coordinate_skipped")
                            continue
                        cd = None
                    else:
                        hc = 1e-25
                        cd = float(np.imag(np.sum(Wf * np.asarray(f(A, Mref + (1j * hc) * D)))) / hc)
                        ctx.tick()
                    fd = d5(lambda t: float(np.sum(Wf * np.asarray(f(A, Mref + t * D), dtype=float))), h)
                    ctx.tick(4)
                    good = abs(fd - got) <= 1e-7 * (1.0 + abs(got))
                    if cd is not None:
                        good = good and abs(cd - got) <= 1e-11 * scale[j, r] + 1e-300
                    if not good:
                        pair_bad = _pair_inconsistent(f, g, A, Mref, mdom, name, p)
                        v = variant + (":pair_inconsistent" if pair_bad else ":dF")
                        ctx.fail("fg.evaluate", "wrong_value",
                                 f"dF/dU_{n}[{j},{r}]: stencil {fd!r}, complex step {cd!r} of the weighted loss sum, "
                                 f"but G={got!r}", v, sub)
                        bad = True
                        break
                if bad:
                    break
            if bad:
                break
        if nz and ncell >= 2:
            ctx.nontriv()


def _pair_inconsistent(f, g, A, Mref, mdom, name, p):
    """True when the handle pair itself is inconsistent at the entries of this case (cascade of check a)."""
    for x, m in zip(A.ravel(), Mref.ravel()):
        x, m = float(x), float(m)
        xa = np.array([x])
        g1 = float(np.asarray(g(xa, np.array([m])))[0])
        if name == "HUBER":
            if abs(abs(x - m) - p) <= 1e-3:
                continue
            fd = d5(lambda t: float(np.asarray(f(xa, np.array([m + t])))[0]), 1e-4)
            if not abs(fd - g1) <= TOL_H * (1 + abs(g1)):
                return True
        elif not abs(cstep(f, xa, m) - g1) <= TOL_C * (1 + abs(g1)):
            return True
    return False


# ---------------------------------------------------------------------------
# (c) mttkrps


def _run_mttkrps(case, ctx):
    import pyttb as ttb
    from pyttb.tensor import min_split

    shape = tuple(case["shape"])
    N, R, seed = len(shape), case["rank"], case.get("seed", 0)
    ctx.state()
    A = rm.arr(shape, space.dense_values(shape, None, seed))
    U = [np.array(space.int_matrix(s, R, salt=4 * n, seed=seed)) for n, s in enumerate(shape)]
    lam = np.array([2.0, -1.0, 3.0][:R])
    try:
        ctx.flag(f"min_split:N={N}:split={int(min_split(shape))}")
    except Exception:  # noqa: BLE001
        pass
    want1 = [rm.mttkrp(A, U, n) for n in range(N)]
    wantw = [rm.mttkrp(A, U, n, lam) for n in range(N)]
    if prod(shape) >= 2:
        ctx.nontriv()

    def T():
        return ttb.tensor(np.asfortranarray(A.copy()))

    def Ul():
        return [u.copy(order="F") for u in U]

    variants = {
        "list": (lambda: T().mttkrps(Ul()), want1, lambda n: T().mttkrp(Ul(), n)),
        "ktensor_unit": (lambda: T().mttkrps(ttb.ktensor(Ul())), want1, lambda n: T().mttkrp(ttb.ktensor(Ul()), n)),
        "ktensor_weights": (lambda: T().mttkrps(ttb.ktensor(Ul(), lam.copy())), wantw,
                            lambda n: T().mttkrp(ttb.ktensor(Ul(), lam.copy()), n)),
    }
    for vname, (call, want, single) in variants.items():
        if "variant" in case and case["variant"] != vname:
            continue
        sub = dict(case, variant=vname)
        ok, V = _call(ctx, "tensor.mttkrps", call, sub, vname)
        if not ok:
            continue
        try:
            V = _aslist(V)
            good = len(V) == N and all(V[n].shape == (shape[n], R) for n in range(N))
        except Exception:  # noqa: BLE001
            good = False
        if not good:
            ctx.fail("tensor.mttkrps", "wrong_shape", str([getattr(v, "shape", None) for v in V]), vname, sub)
            continue
        ctx.outcome(V)
        differs = False
        for n in range(N):
            ok, Vn = _call(ctx, "tensor.mttkrp", lambda: single(n), sub, vname)
            if ok and not rm.same(V[n], np.asarray(Vn)):
                differs = True
                ctx.fail("tensor.mttkrps", "wrong_value",
                         f"mode {n}: mttkrps gives {V[n].tolist()}, mttkrp(U,{n}) gives {np.asarray(Vn).tolist()}, "
                         f"index sum {want[n].tolist()}", vname, sub)
                break
        for n in range(N):
            if differs:
                break
            if not rm.same(V[n], want[n]):
                ctx.fail("tensor.mttkrps", "wrong_value",
                         f"mode {n}: got {V[n].tolist()} want {want[n].tolist()} (index sum)", vname, sub)
                break


# ---------------------------------------------------------------------------
# (d) estimate_helper


def _sample_lists(shape, mode):
    """Deterministic family of sample index lists (indices into the F-ordered cell list)."""
    n = prod(shape)
    full = list(range(n))
    out = [("full", full), ("reverse", full[::-1]), ("twice", full + full), ("every2", full[::2]),
           ("repeat_first", [0] * 3 + full), ("single_last", [n - 1])]
    return out


def _run_helper(case, ctx):
    from pyttb.gcp.fg_est import estimate_helper

    shape = tuple(case["shape"])
    N, R, seed = len(shape), case["rank"], case.get("seed", 0)
    U = [np.array(space.int_matrix(s, R, salt=4 * n, seed=seed)) for n, s in enumerate(shape)]
    cl = rm.cells(shape)
    Mref = rm.kruskal(np.ones(R), U)
    ctx.flag(f"estimate_helper:ndim={min(N, 4)}")
    for lname, idx in _sample_lists(shape, "helper"):
        if "list" in case and case["list"] != lname:
            continue
        sub = dict(case, list=lname)
        ctx.state()
        subs = np.array([cl[i] for i in idx], dtype=int).reshape(len(idx), N)
        ok, res = _call(ctx, "fg_est.estimate_helper", lambda: estimate_helper([u.copy() for u in U], subs.copy()),
                        sub, "")
        if not ok:
            continue
        mv, Z = res
        want_m = np.array([Mref[cl[i]] for i in idx])
        if not rm.same(np.asarray(mv), want_m):
            ctx.fail("fg_est.estimate_helper", "wrong_value", f"model values {np.asarray(mv).tolist()} want "
                     f"{want_m.tolist()}", "values", sub)
        bad = len(Z) != N
        for k in range(N):
            if bad:
                break
            wz = np.ones((len(idx), R))
            for j in range(N):
                if j != k:
                    wz = wz * U[j][subs[:, j], :]
            if not rm.same(np.asarray(Z[k]), wz):
                bad = True
                ctx.fail("fg_est.estimate_helper", "wrong_value",
                         f"Zexp[{k}]={np.asarray(Z[k]).tolist()} want leave-one-out product {wz.tolist()}", "zexp", sub)
        if len(Z) != N:
            ctx.fail("fg_est.estimate_helper", "wrong_shape", f"{len(Z)} exploded factors for {N} modes", "zexp", sub)
        ctx.outcome([np.asarray(mv)] + [np.asarray(z) for z in Z])
        if len(idx) >= 2:
            ctx.nontriv()


# ---------------------------------------------------------------------------
# (e) estimate


def _est_lists(shape, tier, orders="few", obatch=None):
    """(name, sample cell indices, weights, crng|None, coarse class)"""
    n = prod(shape)
    full = list(range(n))
    out = []
    if orders == "all":
        for q, perm in enumerate(itertools.permutations(full)):
            if obatch is None or q % obatch[1] == obatch[0]:
                out.append((list(perm), [1.0] * n, None, "order"))
        if obatch is not None and obatch[0] != 0:
            return out          # the other list classes run once, in batch 0
    else:
        for o in space.orders(n, 3):
            out.append((list(o), [1.0] * n, None, "order"))
    # duplicated samples carrying split weights
    for c in full:
        out.append((full + [c], [0.5 if i == c else 1.0 for i in full] + [0.5], None, "dup"))
    out.append((full + full, [0.5] * (2 * n), None, "dup"))
    out.append((full + full[::-1], [0.25] * n + [0.75] * n, None, "dup"))
    out.append(([i for i in full for _ in (0, 1)], [0.5] * (2 * n), None, "dup"))
    # general sample lists: definition of the estimator
    for k in (1, 2):
        for c in itertools.combinations(full, k):
            out.append((list(c), [_WGT[(i + k) % len(_WGT)] for i in c], None, "partial"))
    for c in full:
        out.append(([i for i in full if i != c], [float(n) / (n - 1)] * (n - 1), None, "partial") if n > 1 else
                   ([c], [1.0], None, "partial"))
    out.append((full, [_WGT[i % len(_WGT)] for i in full], None, "weighted"))
    out.append((full, [0.0 if i % 3 == 0 else 1.0 for i in full], None, "weighted"))
    # corrections for samples drawn as zeros
    out.append((full, [1.0] * n, [], "crng"))
    out.append((full + full[: max(1, n // 2)], [1.0] * n + [2.0] * max(1, n // 2),
                list(range(n, n + max(1, n // 2))), "crng"))
    out.append((full, [_WGT[i % len(_WGT)] for i in full], [n - 1], "crng"))
    return out


def _run_estimate(case, ctx):
    import pyttb as ttb
    from pyttb.gcp import fg
    from pyttb.gcp.fg_est import estimate

    name, p = case["loss"], case["param"]
    shape = tuple(case["shape"])
    N, R = len(shape), case["rank"]
    seed, tier = case.get("seed", 0), case.get("tier", "quick")
    ddom, mdom = LOSS_DOM[name]
    f, g, lb = get_handles(name, p)
    xv = data_for(shape, ddom, seed)
    A = rm.arr(shape, xv)
    n = prod(shape)
    cl = rm.cells(shape)
    U = factors_for(shape, R, mdom, seed)
    if case.get("uz"):
        U[0][0, 0] = 0.0
        if mdom != "pos":
            U[-1][-1, R - 1] = 0.0
    Mref = rm.kruskal(np.ones(R), U)
    if "idx" in case:
        lists = [(case["idx"], case["w"], case["crng"], case["cls"])]
    else:
        lists = _est_lists(shape, tier, case.get("orders", "few"), case.get("obatch"))

    def model(lam=None):
        if lam is None:
            return ttb.ktensor([u.copy(order="F") for u in U])
        return ttb.ktensor([u.copy(order="F") for u in U], np.array(lam, dtype=float))

    # the exact evaluation by the real fg.evaluate (compared with the full unit-weight sample lists)
    exact = None
    if N >= 2:
        try:
            exact = fg.evaluate(model(), ttb.tensor(np.asfortranarray(A)), None, f, g)
        except Exception:  # noqa: BLE001  (reported by the evaluate sub-check)
            exact = None
    unitA = 1.0 + np.abs(A) + np.abs(Mref)
    ex_sc = float(np.sum(np.abs(np.asarray(f(A, Mref), dtype=float)) + 0.01 * unitA))
    ex_gs = [_ref_grad(np.abs(np.asarray(g(A, Mref), dtype=float)) + 0.01 * unitA, [np.abs(u) for u in U],
                       np.ones(R), k) for k in range(N)] if N >= 2 else []
    li = -1
    for idx, w, crng, cls in lists:
        sub = {k: v for k, v in case.items() if k not in ("lists", "orders", "obatch")}
        sub.update(idx=list(idx), w=list(w), crng=crng, cls=cls)
        ctx.state()
        variant = cls + ("" if N >= 2 else ":1way")
        subs = np.array([cl[i] for i in idx], dtype=int).reshape(len(idx), N)
        vals = np.array([A[cl[i]] for i in idx], dtype=float)
        wts = np.array(w, dtype=float)
        ms = np.array([Mref[cl[i]] for i in idx], dtype=float)
        fe = np.asarray(f(vals, ms), dtype=float) if len(idx) else np.zeros(0)
        ge = np.asarray(g(vals, ms), dtype=float) if len(idx) else np.zeros(0)
        if crng:
            fe = fe.copy()
            ge = ge.copy()
            fe[crng] -= np.asarray(f(np.zeros(len(crng)), ms[crng]), dtype=float)
            ge[crng] -= np.asarray(g(np.zeros(len(crng)), ms[crng]), dtype=float)
        F_ref = float(np.sum(wts * fe))
        unitS = np.abs(wts) * (1.0 + np.abs(vals) + np.abs(ms))
        F_abs = float(np.sum(np.abs(wts * fe))) + 0.01 * float(np.sum(unitS))
        cr = None if crng is None else np.array(crng, dtype=int)
        ctx.flag("estimate:crng=" + ("None" if crng is None else ("empty" if not crng else "some")))
        if N < 2:
            # outside the quantifier (mttkrp documents 1-way as invalid); run, do not assert
            ctx.inadm()
            try:
                estimate(model(), subs, vals.copy(), wts.copy(), f, g, False, cr)
                ctx.count("estimate_1way_returns")
            except Exception as e:  # noqa: BLE001
                ctx.count("estimate_1way_raises:" + type(e).__name__)
            continue
        li += 1
        for lc in ((True, False) if (cls == "dup" or (cls == "order" and li < 24)) else (False,)):
            ok, FG = _call(ctx, "fg_est.estimate",
                           lambda: estimate(model(), subs.copy(), vals.copy(), wts.copy(), f, g, lc, cr), sub, variant)
            if not ok:
                continue
            ctx.flag(f"estimate:lambda_check={lc}")
            try:
                F, G = FG
                G = _aslist(G)
                good = len(G) == N and all(G[k].shape == (shape[k], R) for k in range(N))
            except Exception:  # noqa: BLE001
                good = False
            if not good:
                ctx.fail("fg_est.estimate", "wrong_shape", repr(FG)[:300], variant, sub)
                continue
            if not abs(float(F) - F_ref) <= 1e-11 * F_abs + 1e-300:
                ctx.fail("fg_est.estimate", "wrong_value", f"F={float(F)!r}, sum_s w_s f(x_s,m_s)={F_ref!r}",
                         variant + ":F", sub)
            Y = wts * ge
            gbad = False
            for k in range(N):
                # G_k[j, :] = sum_{s : sub_s[k] = j} w_s g(x_s, m_s) prod_{l != k} U_l[sub_s[l], :]
                z = np.ones((len(idx), R))
                for l in range(N):
                    if l != k:
                        z = z * U[l][subs[:, l], :]
                want = np.zeros((shape[k], R))
                scale = np.zeros((shape[k], R))
                np.add.at(want, subs[:, k], Y[:, None] * z)
                np.add.at(scale, subs[:, k], (np.abs(Y) + 0.01 * unitS)[:, None] * np.abs(z))
                if not np.all(np.abs(G[k] - want) <= 1e-11 * scale + 1e-300):
                    gbad = True
                    ctx.fail("fg_est.estimate", "wrong_value",
                             f"mode {k}: G={G[k].tolist()} want sum_s w_s g(x_s,m_s) dm_s/dU={want.tolist()}",
                             variant + ":G", sub)
                    break
            if cls in ("order", "dup") and exact is not None:
                Fx, Gx = exact
                Gx = _aslist(Gx)
                same = abs(float(F) - Fx) <= 1e-10 * ex_sc + 1e-300
                for k in range(N):
                    same = same and bool(np.all(np.abs(G[k] - Gx[k]) <= 1e-10 * ex_gs[k] + 1e-300))
                if not same and not gbad:
                    ctx.fail("fg_est.estimate", "wrong_value",
                             f"estimate on every entry F={float(F)!r} G0={G[0].tolist()} but evaluate F={Fx!r} "
                             f"G0={Gx[0].tolist()}", variant + ":vs_evaluate", sub)
            ctx.outcome([name, str(p), list(shape), R, sorted(idx) == list(range(n)), F_ref])
            # function only / gradient only
            if lc is False and cls != "order":
                ok1, F1 = _call(ctx, "fg_est.estimate",
                                lambda: estimate(model(), subs.copy(), vals.copy(), wts.copy(), f, None, lc, cr), sub, variant)
                ok2, G1 = _call(ctx, "fg_est.estimate",
                                lambda: estimate(model(), subs.copy(), vals.copy(), wts.copy(), None, g, lc, cr), sub, variant)
                if ok1 and ok2 and not (_same(float(F1), float(F)) and all(rm.same(a, b) for a, b in zip(_aslist(G1), G))):
                    ctx.fail("fg_est.estimate", "wrong_value", "F / G differ between the (f,g), (f,None), (None,g) calls",
                             variant + ":modes", sub)
        if cls == "weighted":
            # non-unit Kruskal weights with lambda_check: the model is re-normalised, the objective is unchanged
            lam = [2.0, 1.0][:R]   # one unit weight: 'any weight differs from 1' must trigger the normalisation
            Mw = rm.kruskal(np.array(lam), U)
            few = wts * np.asarray(f(vals, np.array([Mw[cl[i]] for i in idx])), dtype=float)
            Fw = float(np.sum(few))
            Fa = float(np.sum(np.abs(few))) + 0.01 * float(np.sum(unitS)) * 2.0
            ok, F = _call(ctx, "fg_est.estimate",
                          lambda: estimate(model(lam), subs.copy(), vals.copy(), wts.copy(), f, None, True, None), sub,
                          "kweights")
            if ok and not abs(float(F) - Fw) <= 1e-10 * Fa + 1e-300:
                ctx.fail("fg_est.estimate", "wrong_value", f"F={float(F)!r} want {Fw!r} (Kruskal weights {lam})",
                         "kweights:F", sub)
        if n >= 2:
            ctx.nontriv()
    # empty sample list: run, not asserted (outside the statement)
    if "idx" not in case and N >= 2 and (case.get("obatch") or [0])[0] == 0:
        ctx.inadm()
        try:
            estimate(model(), np.zeros((0, N), dtype=int), np.zeros(0), np.zeros(0), f, g, False, None)
            ctx.count("estimate_empty_samples_returns")
        except Exception as e:  # noqa: BLE001
            ctx.count("estimate_empty_samples_raises:" + type(e).__name__)
