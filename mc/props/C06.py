"""C06 - sparse results are well-formed and independent of the stored order of nonzeros."""

import itertools
from math import prod

import numpy as np

from mc import observe as O
from mc import refmodel as rm
from mc import space
from mc import spops
from mc.holders import make_sptensor

ID = "C06"
RULE = ("product explorer: for every set of <= k non-zero cells of the shape (distinct signed values) EVERY stored order "
        "(all k! permutations) of each operand is built as a real sptensor and every operation of the catalogue is run; "
        "the canonical observation (expanded array / scalar / subscript->value mapping) must be identical across all "
        "orders (one outcome per (operand sets, operation)) and every sparse result well-formed.  Scalar arguments range over "
        "a scalar-TYPE alphabet (int, float, np.float64 | np.float32, np.int64, np.uint8) x {zero, non-zero}; assignment keys "
        "over a per-mode index-FORM alphabet (int, full / prefix / suffix slice, descending list, list and ndarray naming an "
        "index twice), all modes crossed.  Non-trivial: an operand with >= 2 stored entries (so that >= 2 distinct orders "
        "collide on the same cells).")
ASSUMPTIONS = ["canonical observation drops only the stored order of the RESULT (which the property does not constrain)",
               "outputs documented as indexed by an operand's stored order (mask/extract by W's rows, find) are observed as mappings",
               "Python numbers and their subclasses (np.float64) are 'a scalar' and must be accepted; for the other numpy scalar "
               "types a rejection (AssertionError/TypeError/ValueError) is a legal outcome - the receiver it leaves behind is then "
               "observed instead - but an accepted one must yield a well-formed, order-independent result",
               "tuples nested inside a region key and bare lists / 1-d arrays on a 1-way tensor are not index forms (subdims and the "
               "linear-assignment clause of the documentation reject them)"]
BOUNDS = {
    "quick": "shapes (2,2),(4,),(2,1,2): all sets of <=3 non-zero cells x all k! orders (41 (set,order) pairs per shape); "
             "binary ops on all 1681 pairs (sparse right-hand-side assignment under all 2^N {slice, descending list} keys); ~45 "
             "unary/structural operation instances + 15 scalar operator forms x 12 (type, value) scalars; from_aggregator/sptenmat "
             "ctor over all orders; assign: all region keys (product of 5 (size 1) / 8 (size >= 2) index forms per mode: 8, 64, 320 "
             "keys) and 3 subscript-array keys (distinct rows, a row repeated, bare 1-way int/slice) x 6 scalar types x {0, 5}, "
             "plus float / int value vectors",
    "thorough": "adds shapes (2,3),(3,2),(1,2,3) with all sets of <=4 non-zero cells x all k! orders (binary ops: sets <=3 x <=3 "
                "plus 4 x <=2; assign lattice: sets <=3)",
}
CHUNK = 4

# Scalar-type alphabet: (name, native).  "native" = Python numbers and their subclasses (np.float64 is a float): the
# library documents "a scalar" and must accept them.  The other numpy scalar types are FOREIGN: the library may reject them
# (AssertionError / TypeError / ValueError) - then the receiver must be left well-formed and the same for every stored
# order - or accept them - then the result obeys the property like any other result.  Values used: 0 and a non-zero.
SCALAR_TYPES = [("int", True), ("float", True), ("float64", True), ("float32", False), ("int64", False), ("uint8", False)]
_SCALAR_CTOR = {"int": int, "float": float, "float64": np.float64, "float32": np.float32, "int64": np.int64, "uint8": np.uint8}
_REJECTIONS = (AssertionError, TypeError, ValueError)


def _scalar(tname, v):
    return _SCALAR_CTOR[tname](v)


VA = [3.0, -5.0, 7.0, -9.0, 11.0, -13.0, 15.0, -17.0]
VB = [3.0, 5.0, -14.0, -9.0, 22.0, 13.0, 15.0, 17.0]   # equal to VA at cells 0 and 3, exactly cancelling at cells 1 and 5, different elsewhere


def _sets(ncells, kmax):
    out = []
    for k in range(0, kmax + 1):
        out.extend(itertools.combinations(range(ncells), k))
    return out


def gen_cases(tier, seed):
    # a mode of size 4 next to another mode (unary operations only): a sparse VECTOR result (at most half of the mode
    # stored) can then hold two entries
    for sa in _sets(8, 3 if tier == "thorough" else 2):
        yield {"check": "unary", "shape": [4, 2], "A": list(sa)}
    shapes = [((2, 2), 3), ((4,), 3), ((2, 1, 2), 3)]
    if tier == "thorough":
        shapes += [((2, 3), 4), ((3, 2), 4), ((1, 2, 3), 4)]
    for shape, kmax in shapes:
        n = prod(shape)
        sets = _sets(n, kmax)
        for sa in sets:
            yield {"check": "unary", "shape": list(shape), "A": list(sa)}
            for sb in sets:
                if len(sa) == 4 and len(sb) > 2 or len(sb) == 4 and len(sa) > 2:
                    continue
                yield {"check": "binary", "shape": list(shape), "A": list(sa), "B": list(sb)}
        for sa in sets:
            if sa:
                yield {"check": "ctor", "shape": list(shape), "A": list(sa)}
        for sa in sets:
            if len(sa) > 3:
                continue
            for k0 in range(-1, _n_k0(shape)):
                yield {"check": "assign", "shape": list(shape), "A": list(sa), "k0": k0}


def run_case(case, ctx):
    globals()["_run_" + case["check"]](case, ctx)


# ---------------------------------------------------------------------------


def _mk(shape, cellset, order, vals):
    cl = rm.cells(tuple(shape))
    subs = [list(cl[cellset[i]]) for i in order]
    v = [vals[cellset[i]] for i in order]
    return make_sptensor(shape, subs, v)


class Malformed(Exception):
    pass


def canon(res, allow_zero=False):
    """Order-free canonical observation; raises Malformed for ill-formed sparse results."""
    import pyttb as ttb
    from scipy import sparse as sp

    if isinstance(res, ttb.sptensor):
        probs = O.wf_sptensor(res, allow_explicit_zero=allow_zero)
        if probs:
            raise Malformed(",".join(probs))
        return ("T", O.pyshape(res.shape), np.asarray(O.dense_of(res), dtype=float))
    if isinstance(res, ttb.tensor):
        return ("T", O.pyshape(res.shape), np.asarray(res.data, dtype=float))
    if isinstance(res, ttb.sptenmat):
        probs = O.wf_sptenmat(res, allow_explicit_zero=True)
        if probs:
            raise Malformed(",".join(probs))
        return ("M", O.struct_of(res), np.asarray(O.dense_of(res), dtype=float))
    if isinstance(res, ttb.tenmat):
        return ("M", O.struct_of(res), np.asarray(res.data, dtype=float))
    if sp.issparse(res):
        return ("T", tuple(res.shape), np.asarray(res.toarray(), dtype=float))
    if isinstance(res, np.ndarray):
        return ("A", np.asarray(res, dtype=float))
    if isinstance(res, (bool, np.bool_)):
        return ("S", bool(res))
    if isinstance(res, (int, float, np.generic)):
        return ("S", float(res))
    if isinstance(res, (tuple, list)):
        return ("L", [canon(r, allow_zero) for r in res])
    if isinstance(res, dict):
        return ("D", {str(k): canon(v, allow_zero) for k, v in res.items()})
    raise TypeError(f"cannot canonicalise {type(res)}")


def _key(c):
    from mc.engine import digest
    return digest(c)


def _mapping(subs, vals):
    """subscript -> value mapping (for outputs that follow an operand's stored order)."""
    subs = np.asarray(subs)
    vals = np.asarray(vals, dtype=float).reshape(-1)
    if subs.size == 0:
        return ("MAP", [])
    return ("MAP", sorted((tuple(int(i) for i in r), float(v)) for r, v in zip(subs.tolist(), vals.tolist())))


def _close_key(c):
    """Digest with rounding for numeric (eigen) observations."""
    from mc.engine import digest
    return digest(np.round(np.asarray(c, dtype=float), 8) + 0.0)


def _unary_ops(shape):
    """(name, pyttb op name, fn(S) -> canonical observation, allow explicit zero)"""
    N = len(shape)
    n = prod(shape)
    cl = rm.cells(tuple(shape))
    ops = []
    for name, (opname, apply, _ref) in spops.UNOPS.items():
        ops.append((name, opname, (lambda ap: lambda S: canon(ap(S)))(apply)))
    for c in (-1, 0, 2, 2.0):
        for name in list(spops.BINOPS) + list(spops.RBINOPS):
            ap = (spops.BINOPS.get(name) or spops.RBINOPS.get(name))[0]
            allow = spops.explicit_zero_allowed(name, "scalar")
            ops.append((f"{name}_scalar", spops.OPNAME[name],
                        (lambda ap, c, allow: lambda S: canon(ap(S, c), allow))(ap, c, allow)))
    ops.append(("full", "sptensor.full", lambda S: canon(S.full())))
    ops.append(("double", "sptensor.double", lambda S: canon(S.double())))
    ops.append(("norm", "sptensor.norm", lambda S: ("S", float(S.norm()) ** 2)))
    ops.append(("nnz", "sptensor.nnz", lambda S: ("S", float(S.nnz))))
    ops.append(("copy", "sptensor.copy", lambda S: canon(S.copy())))
    ops.append(("find", "sptensor.find", lambda S: _mapping(*S.find())))
    ops.append(("squeeze", "sptensor.squeeze", lambda S: canon(S.squeeze())))
    ops.append(("squash", "sptensor.squash", lambda S: canon(S.squash())))
    for perm in itertools.permutations(range(N)):
        ops.append(("permute", "sptensor.permute", (lambda p: lambda S: canon(S.permute(np.array(p))))(perm)))
    for tgt in space.factorizations(n, 3):
        ops.append(("reshape", "sptensor.reshape", (lambda t: lambda S: canon(S.reshape(t)))(tgt)))
    for R, C in space.ordered_partitions(N):
        ops.append(("to_sptenmat", "sptensor.to_sptenmat",
                    (lambda R, C: lambda S: canon(S.to_sptenmat(np.array(R, dtype=int), np.array(C, dtype=int))))(R, C)))
        ops.append(("sptenmat_roundtrip", "sptenmat.to_sptensor",
                    (lambda R, C: lambda S: canon(S.to_sptenmat(np.array(R, dtype=int), np.array(C, dtype=int)).to_sptensor()))(R, C)))
        ops.append(("sptenmat_full", "sptenmat.full",
                    (lambda R, C: lambda S: canon(S.to_sptenmat(np.array(R, dtype=int), np.array(C, dtype=int)).full()))(R, C)))
    if N == 2:
        ops.append(("spmatrix", "sptensor.spmatrix", lambda S: canon(S.spmatrix())))
    # multilinear
    for d in range(N):
        v = np.array(space.int_vector(shape[d], salt=d))
        ops.append(("ttv", "sptensor.ttv", (lambda v, d: lambda S: canon(S.ttv(v.copy(), dims=np.array([d]))))(v, d)))
        for zpos in range(shape[d]):
            vz = v.copy()
            vz[zpos] = 0.0
            ops.append(("ttv_zero", "sptensor.ttv", (lambda v, d: lambda S: canon(S.ttv(v.copy(), dims=np.array([d]))))(vz, d)))
        Mz = np.array(space.int_matrix(2, shape[d], salt=d))
        Mz[:, 0] = 0.0
        ops.append(("ttm_zero", "sptensor.ttm", (lambda M, d: lambda S: canon(S.ttm(M.copy(), dims=np.array([d]))))(Mz, d)))
        M = np.array(space.int_matrix(2, shape[d], salt=d))
        ops.append(("ttm", "sptensor.ttm", (lambda M, d: lambda S: canon(S.ttm(M.copy(), dims=np.array([d]))))(M, d)))
        U = [np.array(space.int_matrix(shape[m], 2, salt=m)) for m in range(N)]
        if N >= 2:
            ops.append(("mttkrp", "sptensor.mttkrp", (lambda U, d: lambda S: canon(S.mttkrp([u.copy() for u in U], d)))(U, d)))
        ops.append(("collapse", "sptensor.collapse", (lambda d: lambda S: canon(S.collapse(np.array([d]))))(d)))
        ops.append(("collapse_max", "sptensor.collapse", (lambda d: lambda S: canon(S.collapse(np.array([d]), max)))(d)))
        f = np.array(space.int_vector(shape[d], salt=d + 1))
        ops.append(("scale", "sptensor.scale", (lambda f, d: lambda S: canon(S.scale(f.copy(), np.array([d]))))(f, d)))
        fz = f.copy()
        fz[0] = 0.0
        ops.append(("scale_zero", "sptensor.scale", (lambda f, d: lambda S: canon(S.scale(f.copy(), np.array([d]))))(fz, d)))
    ops.append(("ttv_all", "sptensor.ttv",
                lambda S: canon(S.ttv([np.array(space.int_vector(s, salt=k)) for k, s in enumerate(shape)]))))
    ops.append(("collapse_all", "sptensor.collapse", lambda S: canon(S.collapse())))
    for i, j in itertools.permutations(range(N), 2):
        if shape[i] == shape[j]:
            ops.append(("contract", "sptensor.contract", (lambda i, j: lambda S: canon(S.contract(i, j)))(i, j)))
    # reads
    for sub in cl:
        ops.append(("read_sub", "sptensor.__getitem__", (lambda sub: lambda S: canon(S[tuple(sub)]))(sub)))
    allsubs = np.array(cl, dtype=int).reshape(n, N)
    ops.append(("read_subs_array", "sptensor.__getitem__", lambda S: _mapping(allsubs, np.reshape(S[allsubs.copy()], (-1,)))))
    ops.append(("extract", "sptensor.extract", lambda S: _mapping(allsubs, np.reshape(S.extract(allsubs.copy()), (-1,)))))
    ops.append(("read_linear", "sptensor.__getitem__", lambda S: ("A", np.reshape(S[np.arange(n)], (-1,)).astype(float))))
    if N >= 2:
        for d in range(N):
            for i in range(shape[d]):
                key = tuple(i if m == d else slice(None) for m in range(N))
                ops.append(("read_region", "sptensor.__getitem__", (lambda key: lambda S: canon(S[key]))(key)))
    # dense partner operations
    import pyttb as ttb
    Td = np.asfortranarray(rm.arr(shape, [VB[l] if l % 2 == 0 else 0.0 for l in range(n)]))
    for name in spops.BINOPS:
        ap = spops.BINOPS[name][0]
        ops.append((f"{name}_dense", spops.OPNAME[name], (lambda ap: lambda S: canon(ap(S, ttb.tensor(Td.copy())), False))(ap)))
    ops.append(("innerprod_dense", "sptensor.innerprod", lambda S: ("S", float(S.innerprod(ttb.tensor(Td.copy()))))))
    ops.append(("isequal_dense", "sptensor.isequal", lambda S: ("S", bool(S.isequal(ttb.tensor(Td.copy()))))))
    ops.append(("scale_dense", "sptensor.scale",
                lambda S: canon(S.scale(ttb.tensor(np.array(space.int_vector(shape[0], salt=3))), np.array([0])))))
    # assignment histories (depth 2): the state after the writes must not depend on the stored order
    def w_seq(seq):
        def f(S):
            for key, val in seq:
                S[key] = val
            return canon(S, allow_zero=False)
        return f
    c0, c1 = tuple(cl[0]), tuple(cl[-1])
    ops.append(("write_zero", "sptensor.__setitem__", w_seq([(c0, 0.0)])))
    ops.append(("write_val", "sptensor.__setitem__", w_seq([(c1, 4.0)])))
    ops.append(("write_zero_then_val", "sptensor.__setitem__", w_seq([(c0, 0.0), (c1, 6.0)])))
    ops.append(("write_val_then_zero", "sptensor.__setitem__", w_seq([(c1, 6.0), (c1, 0.0)])))
    two = np.array([cl[0], cl[-1]], dtype=int).reshape(2, N)
    ops.append(("write_subs_mixed", "sptensor.__setitem__", w_seq([(two.copy(), np.array([[0.0], [8.0]]))])))
    ops.append(("write_subs_scalar", "sptensor.__setitem__", w_seq([(two.copy(), 5.0)])))
    ops.append(("write_subs_zero", "sptensor.__setitem__", w_seq([(two.copy(), 0.0)])))
    if N >= 2:
        key = tuple(0 if m == 0 else slice(None) for m in range(N))
        ops.append(("write_region_zero", "sptensor.__setitem__", w_seq([(key, 0.0)])))
        ops.append(("write_region_val", "sptensor.__setitem__", w_seq([(key, 2.0)])))
    # scalar operator forms over the numpy members of the scalar-type alphabet (the Python members are above)
    for tname, native in SCALAR_TYPES:
        if tname in ("int", "float"):
            continue
        for v in (0, 2):
            for name in list(spops.BINOPS) + list(spops.RBINOPS):
                ap = (spops.BINOPS.get(name) or spops.RBINOPS.get(name))[0]
                allow = spops.explicit_zero_allowed(name, "scalar")
                fn = (lambda ap, tname, v, allow: lambda S: canon(ap(S, _scalar(tname, v)), allow))(ap, tname, v, allow)
                if native:
                    ops.append((f"{name}_scalar", spops.OPNAME[name], fn))
                else:
                    ops.append((f"{name}_scalar_foreign", spops.OPNAME[name], _or_rejected(fn)))
    return ops


def _or_rejected(fn):
    """Foreign scalar types: a rejection is a legal outcome; what is observed then is the receiver it leaves behind."""
    def g(*operands):
        try:
            return fn(*operands)
        except _REJECTIONS:
            return ("REJECTED", canon(operands[0], False))
    return g


# ---------------------------------------------------------------------------
# assignment lattice: key forms x scalar types


def _index_forms(n):
    """Per-mode index forms of a region key for a mode of size n (JSON-able)."""
    forms = [["int", 0]]
    if n >= 2:
        forms.append(["int", n - 1])
    forms.append(["slice", None, None])
    if n >= 2:
        forms.append(["slice", 0, 1])
        forms.append(["slice", 1, None])
    forms.append(["list", list(range(n - 1, -1, -1))])      # every index once, not ascending
    forms.append(["list", [0, 0]])                           # one index named twice
    forms.append(["array", [n - 1, 0, n - 1]])               # ndarray; repeated, not adjacent, not sorted
    return forms


def _real_index(f):
    if f[0] == "int":
        return int(f[1])
    if f[0] == "slice":
        return slice(f[1], f[2])
    if f[0] == "list":
        return list(f[1])
    return np.array(f[1], dtype=int)


def _n_k0(shape):
    return len(_index_forms(shape[0]))


def _assign_ops(shape, k0):
    """k0 >= 0: region keys whose mode-0 index is form k0 (all forms in the other modes) x every (scalar type, value);
    k0 == -1: subscript-array keys (distinct rows / a repeated row) x every (scalar type, value) and value vectors,
    plus the bare (non-tuple) int / slice keys of a 1-way tensor."""
    import warnings

    N = len(shape)
    cl = rm.cells(tuple(shape))
    ops = []

    def w(mk_key, mk_val):
        def f(S):
            with warnings.catch_warnings():
                warnings.simplefilter("ignore")
                S[mk_key()] = mk_val()
            return canon(S, allow_zero=False)
        return f

    def scalar_ops(prefix, mk_key):
        for tname, native in SCALAR_TYPES:
            for v in (0, 5):
                name = prefix + ("_zero" if v == 0 else "_val") + ("" if native else "_foreign")
                fn = w(mk_key, (lambda tname, v: lambda: _scalar(tname, v))(tname, v))
                ops.append((name, "sptensor.__setitem__", fn if native else _or_rejected(fn)))

    if k0 >= 0:
        per_mode = [[_index_forms(shape[0])[k0]]] + [_index_forms(s) for s in shape[1:]]
        for forms in itertools.product(*per_mode):
            scalar_ops("region", (lambda forms: lambda: tuple(_real_index(f) for f in forms))(forms))
        return ops
    rowsets = [[cl[0], cl[-1]], [cl[-1], cl[0], cl[-1]], [cl[1], cl[1]]]
    for rows in rowsets:
        mk_key = (lambda rows: lambda: np.array(rows, dtype=int).reshape(len(rows), N))(rows)
        scalar_ops("subs", mk_key)
        p = len(rows)
        for vec in ([4.0, 0.0, 6.0][:p], [0.0, 2.0, 4.0][-p:], [0.0] * p, [4.0] * p):
            for dt in ("float64", "int64"):
                mk_val = (lambda vec, dt: lambda: np.array(vec, dtype=dt).reshape(len(vec), 1))(vec, dt)
                ops.append(("subs_vector" if dt == "float64" else "subs_vector_int", "sptensor.__setitem__", w(mk_key, mk_val)))
    # the listing order of a subscript-array assignment is a stored order too: rows and values permuted together denote
    # the same assignment, so every listing must give the same tensor
    distinct = [c for i, c in enumerate(cl) if c not in cl[:i]]
    for rows, vec in (([distinct[0], distinct[-1]], [4.0, 6.0]),
                      ([distinct[0], distinct[len(distinct) // 2], distinct[-1]], [4.0, 0.0, 6.0])):
        if len({tuple(r) for r in rows}) != len(rows):
            continue

        def f(S, rows=rows, vec=vec):
            outs = []
            for perm in itertools.permutations(range(len(rows))):
                T = S.copy()
                with warnings.catch_warnings():
                    warnings.simplefilter("ignore")
                    T[np.array([rows[i] for i in perm], dtype=int).reshape(len(rows), N)] = np.array(
                        [vec[i] for i in perm], dtype=float).reshape(len(rows), 1)
                outs.append(canon(T, allow_zero=False))
            for o in outs[1:]:
                if o[1] != outs[0][1] or not np.array_equal(o[2], outs[0][2]):
                    raise Malformed("listing_order_dependent")
            return outs[0]
        ops.append(("subs_vector_listing", "sptensor.__setitem__", f))
    if N == 1:
        for f in _index_forms(shape[0]):
            if f[0] in ("int", "slice"):
                scalar_ops("bare", (lambda f: lambda: _real_index(f))(f))
    return ops


def _run_assign(case, ctx):
    shape = tuple(case["shape"])
    A = list(case["A"])
    k0 = int(case["k0"])
    ctx.state()
    orders = list(itertools.permutations(range(len(A))))
    if len(A) >= 2:
        ctx.nontriv()
    builders = [(list(o), (lambda o: lambda: (_mk(shape, A, o, VA),))(o)) for o in orders]
    _run_ops(ctx, case, _assign_ops(shape, k0), builders, {"check": "assign", "shape": list(shape), "A": A, "k0": k0})


def _binary_ops(shape):
    ops = []
    for name, (ap, _ref) in spops.BINOPS.items():
        ops.append((name, spops.OPNAME[name], (lambda ap: lambda S, R: canon(ap(S, R), False))(ap)))
    ops.append(("innerprod", "sptensor.innerprod", lambda S, R: ("S", float(S.innerprod(R)))))
    ops.append(("isequal", "sptensor.isequal", lambda S, R: ("S", bool(S.isequal(R)))))
    ops.append(("mask", "sptensor.mask", lambda S, W: _mapping(W.subs, S.mask(W)) if W.nnz else ("MAP", [])))
    ops.append(("read_by_subs_of", "sptensor.__getitem__",
                lambda S, W: _mapping(W.subs, np.reshape(S[W.subs.copy()], (-1,))) if W.nnz else ("MAP", [])))
    N = len(shape)
    if N >= 1:
        # scale by a sparse factor along mode 0: factor is a 1-way sparse tensor built from W's first fibre -> skip; covered by dense
        pass
    def rhs_kept(R, before):
        # the right-hand side is an operand: after the write it must still be the well-formed tensor it was
        after = canon(R, False)
        if after[1] != before[1] or not np.array_equal(after[2], before[2]):
            raise Malformed("rhs_changed")

    def w_sparse_rhs(S, R):
        key = tuple(slice(None) for _ in range(N))
        before = canon(R, False)
        S[key] = R
        rhs_kept(R, before)
        return canon(S, False)
    ops.append(("write_all_sparse_rhs", "sptensor.__setitem__", w_sparse_rhs))
    if any(x >= 2 for x in shape):
        # a region that does not start at the origin (slice starts / steps), right-hand side = the other operand's
        # entries of that region
        for kname, mk in (("offset", lambda x: slice(1, None) if x >= 2 else slice(None)),
                          ("step", lambda x: slice(None, None, 2) if x >= 2 else slice(None)),
                          ("list", lambda x: list(range(x - 1, 0, -1)) if x >= 2 else slice(None))):
            def w_region(S, R, mk=mk):
                key = tuple(mk(x) for x in shape)
                V = R[key]
                if not hasattr(V, "subs"):
                    raise Malformed("region_read_not_sparse")
                before = canon(V, False)
                S[key] = V
                rhs_kept(V, before)
                return canon(S, False)
            ops.append(("write_" + kname + "_sparse_rhs", "sptensor.__setitem__", w_region))
    # the same with the full extent of a mode named by an index list (not ascending) instead of a slice
    full = [[["slice", None, None], ["list", list(range(s - 1, -1, -1))]] for s in shape]
    for forms in itertools.product(*full):
        if all(f[0] == "slice" for f in forms):
            continue
        def w_forms(S, R, forms=forms):
            before = canon(R, False)
            S[tuple(_real_index(f) for f in forms)] = R
            rhs_kept(R, before)
            return canon(S, False)
        ops.append(("write_lists_sparse_rhs", "sptensor.__setitem__", w_forms))
    return ops


def _run_ops(ctx, case, ops, builders, narrow_key):
    """builders: list over order-combinations of callables returning fresh operand tuples."""
    want_op = case.get("op")
    want_idx = case.get("op_index")
    for idx, (name, opname, fn) in enumerate(ops):
        if want_op is not None and (name != want_op or (want_idx is not None and idx != want_idx)):
            continue
        sub = dict(narrow_key, op=name, op_index=idx)
        outcomes = {}
        for label, build in builders:
            ctx.tick()
            try:
                obs = fn(*build())
                if obs[0] == "REJECTED":
                    ctx.count("foreign_scalar_rejected")
                k = ("OK", _key(obs))
            except Malformed as m:
                ctx.fail(opname, "malformed:" + str(m), f"orders={label}", variant=name, case=sub)
                k = ("MALFORMED", str(m))
            except Exception as e:  # noqa: BLE001
                k = ("EXC", type(e).__name__, str(e)[:80])
            outcomes.setdefault(k, []).append(label)
        ctx.count("op_instances")
        if len(outcomes) > 1:
            desc = {str(k[:2]): v[:3] for k, v in outcomes.items()}
            ctx.fail(opname, "order_dependent", f"{len(outcomes)} outcomes: {desc}", variant=name, case=sub)
        else:
            (k,) = outcomes
            if k[0] == "EXC":
                ctx.fail(opname, "exception:" + k[1], k[2], variant=name, case=sub)
        ctx.outcome([name, idx, sorted(map(str, outcomes))])


def _run_unary(case, ctx):
    shape = tuple(case["shape"])
    A = list(case["A"])
    ctx.state()
    orders = list(itertools.permutations(range(len(A))))
    if len(A) >= 2:
        ctx.nontriv()
    builders = [(list(o), (lambda o: lambda: (_mk(shape, A, o, VA),))(o)) for o in orders]
    _run_ops(ctx, case, _unary_ops(shape), builders, {"check": "unary", "shape": list(shape), "A": A})


def _run_binary(case, ctx):
    shape = tuple(case["shape"])
    A, B = list(case["A"]), list(case["B"])
    ctx.state()
    oa = list(itertools.permutations(range(len(A))))
    ob = list(itertools.permutations(range(len(B))))
    if len(A) >= 2 or len(B) >= 2:
        ctx.nontriv()
    builders = [([list(x), list(y)], (lambda x, y: lambda: (_mk(shape, A, x, VA), _mk(shape, B, y, VB)))(x, y))
                for x in oa for y in ob]
    _run_ops(ctx, case, _binary_ops(shape), builders, {"check": "binary", "shape": list(shape), "A": A, "B": B})


def _run_ctor(case, ctx):
    """Constructors that consume a coordinate list: from_aggregator (with a duplicated row) and sptenmat."""
    import pyttb as ttb

    shape = tuple(case["shape"])
    A = list(case["A"])
    N = len(shape)
    cl = rm.cells(shape)
    ctx.state()
    # rows: the set plus a duplicate of its first cell (to be summed)
    rows = [(cl[c], VA[c]) for c in A] + [(cl[A[0]], 1.0)]
    cancel = [(cl[c], VA[c]) for c in A] + [(cl[A[0]], -VA[A[0]])]     # cancelling duplicate -> entry dropped
    orders = list(itertools.permutations(range(len(rows))))
    if len(rows) >= 2:
        ctx.nontriv()

    def agg(rws, fun=None):
        def f(o):
            subs = np.array([rws[i][0] for i in o], dtype=int).reshape(len(o), N)
            vals = np.array([[rws[i][1]] for i in o], dtype=float)
            if fun is None:
                return (ttb.sptensor.from_aggregator(subs, vals, shape),)
            return (ttb.sptensor.from_aggregator(subs, vals, shape, fun),)
        return f

    def spm(rws):
        def f(o):
            A2 = rm.matricize(np.zeros(shape), [0], list(range(1, N)))
            rsz = shape[0]
            subs2 = np.array([[r[0][0], rm.lin_f(shape[1:], r[0][1:]) if N > 1 else 0] for r in (rws[i] for i in o)], dtype=int)
            vals = np.array([[rws[i][1]] for i in o], dtype=float)
            return (ttb.sptenmat(subs2, vals, np.array([0]), np.arange(1, N), shape),)
        return f

    ops = [("from_aggregator_sum", "sptensor.from_aggregator", lambda S: canon(S, False))]
    for name, rws, fun in (("sum", rows, None), ("cancel", cancel, None), ("max", rows, "max"), ("min", rows, "min")):
        builders = [(list(o), (lambda o, g: lambda: g(o))(o, agg(rws, fun))) for o in orders]
        _run_ops(ctx, case, [("from_aggregator_" + name, "sptensor.from_aggregator", lambda S: canon(S, False))],
                 builders, {"check": "ctor", "shape": list(shape), "A": A})
    for name, rws in (("sum", rows), ("cancel", cancel)):
        builders = [(list(o), (lambda o, g: lambda: g(o))(o, spm(rws))) for o in orders]
        def canon_ctor(M):
            # the constructor combines repeated subscripts: like every combining operation it leaves no explicit zero
            probs = O.wf_sptenmat(M, allow_explicit_zero=False)
            if probs:
                raise Malformed(",".join(probs))
            return canon(M)
        _run_ops(ctx, case, [("sptenmat_ctor_" + name, "sptenmat.__init__", canon_ctor)],
                 builders, {"check": "ctor", "shape": list(shape), "A": A})
