"""C15 - symmetrisation averages over mode permutations; the symmetry test is exact."""

import itertools
from math import factorial, prod

import numpy as np

from mc import refmodel as rm
from mc import space
from mc.engine import exc_symptom, short_tb

ID = "C15"
RULE = ("product explorer.  dense: every (shape, ordered set of disjoint equal-length mode groups with "
        "equal-sized members, argument form) x data family {generic distinct integers (multiples of the group "
        "order so that averages are exact; float64 and int64 holders), constant, symmetric in the groups, symmetric "
        "in all groups but one, symmetric under the permutations of all but one member of every group, "
        "symmetric with one cell of a non-trivial orbit perturbed (every such cell within the tier cap) x "
        "perturbation magnitude {2*prod|g|! (an integer step), 2^-30 (exactly representable, far below any "
        "plausible tolerance), 1 ulp (np.nextafter)}; the two small magnitudes exercise the symmetry test only "
        "(exactness of the test: bitwise different => not symmetric, details = true max difference), because "
        "their averages are not exact; generic multiples of prod|g|!/2, whose averages are exact multiples of 1/2 "
        "and in general NOT integers (float64 and int64 storage); small integers unit*{0..3} / unit*{-3..3} / "
        "{0,1} in uint8 / int8 / bool storage (generic, and symmetric by orbit filling - no arithmetic), wherever "
        "the storage holds the values exactly; bool data are symmetrised only when every orbit size is a power of "
        "two (groups of <= 2 members: exact averages), otherwise only tested for symmetry} x "
        "empty operands: every shape with a mode of extent 0 within the tier bound x every compatible group set x "
        "storage {float64, int64, bool} (no cells: trivially symmetric; both versions must return the empty tensor "
        "of that shape, answer True, give all-zero details) x "
        "{symmetrize new/old, issymmetric new/old x return_details}; oracle = explicit average / explicit "
        "invariance test over the product of the per-group permutation groups (mc/refmodel.py), compared "
        "bitwise (both versions are compared with the same exact reference, which also decides that they agree).  Kruskal: every (order, size, rank, weight sign pattern, factor family) ; oracle = "
        "entrywise Kruskal value from weights/factor_matrices (no pyttb call), relative tolerance 1e-9.  "
        "Non-trivial: a group with >= 2 members of size >= 2 (dense) / a non-zero value (Kruskal).")
ASSUMPTIONS = [
    "reference semantics in mc/refmodel.py (symmetrize, is_symmetric, kruskal) are correct",
    "dense data are integers that are multiples of prod_g |g|! (or of prod_g |g|!/2: averages are multiples of "
    "1/2), so every average is exact in float64 and the "
    "oracle is bitwise equality; the storage dtype of the operand (float64, int64, int8, uint8, bool) holds the "
    "data exactly and does not change the expected VALUE of any result (the dtype of the result is not asserted); "
    "boolean tensors are in scope because the library's own comparison operators produce them (the 2^-30 / 1-ulp perturbed inputs are never symmetrised; for them only "
    "issymmetric is asserted, whose reference is a bitwise invariance test and an exact float subtraction)",
    "grps is passed the way the docstrings show it: None, a 1-D integer ndarray (one group) or a 2-D integer "
    "ndarray (one group per row, hence equal group lengths)",
    "return_details semantics: one row per (group, permutation of the group); perms row = the full mode "
    "permutation (identity outside the group), diffs row = max |X - permute(X, row)|",
    "ktensor.issymmetric is the structural test its documentation describes (all factor matrices equal); "
    "'already symmetric' Kruskal inputs are those whose rank-one terms are each symmetric (factor columns "
    "equal up to scaling/sign)",
    "non-cubical groups lie outside the quantifier: run, observed, never asserted; so is shape (0,), which pyttb "
    "defines as the order-0 empty tensor (ndims == 0: there is no mode to group)",
]
BOUNDS = {
    "quick": "dense: shapes of order 2-4 with sizes in {2,3} plus singleton-mode shapes of order <= 3, plus the "
             "empty shapes (>= 1 mode of extent 0) of order 2-3 with sizes in {0,2,3} and of order 4 with sizes in "
             "{0,2}; storage float64/int64 (+ uint8/int8/bool for the small-integer families); every "
             "ordered selection of disjoint groups (group length 1..N, 1..N/len groups, unsorted members, both "
             "group orders), forms None/1-D/2-D; perturbations: every cell of a non-trivial orbit when <= 16 "
             "such cells else 4 spread cells, each at the 3 magnitudes {2*prod|g|!, 2^-30, 1 ulp}; Kruskal: order 2-4 x size 2-3 x rank 1-2 x weights in {2,-1}^R x "
             "5 factor families",
    "thorough": "dense: adds order 5 with sizes in {2,3} (<= 108 cells), empty shapes of order 4 with sizes in "
                "{0,2,3} and of order 5 with sizes in {0,2}, and order 6 size 2 (canonical group "
                "sets + reversed members); perturbations: every cell when <= 81 else 12 spread cells, each at 3 magnitudes; Kruskal: "
                "order 2-5 x size 2-3 x rank 1-3 x weights in {2,-1,0}^R (rank 3: {2,-1}^3) x 5 families",
}
CHUNK = 8

DATA_ALL = ("generic", "const", "sym", "sym_pert", "half", "small", "ssmall", "bits")
# magnitude of the single-cell perturbation of a symmetric tensor: an integer step (averages stay exact), an exactly
# representable tiny absolute step, and the smallest possible step (1 ulp).  The symmetry test is EXACT, so all three
# make the tensor asymmetric.
PERT_MAGS = ("big", "tiny", "ulp")


# ---------------------------------------------------------------------------
# enumeration


def group_sets(N):
    """Every ordered list of m >= 1 disjoint ordered groups of equal length k >= 1."""
    for k in range(1, N + 1):
        for m in range(1, N // k + 1):
            for sel in itertools.permutations(range(N), k * m):
                yield [list(sel[i * k:(i + 1) * k]) for i in range(m)]


def canonical_group_sets(N):
    """Unordered sets of disjoint groups (members sorted, groups sorted) plus the variant with every
    group reversed and the group list reversed."""
    seen = set()
    for gs in group_sets(N):
        key = tuple(sorted(tuple(sorted(g)) for g in gs))
        if key in seen:
            continue
        seen.add(key)
        yield [list(g) for g in key]
        rev = [list(reversed(g)) for g in reversed(key)]
        if rev != [list(g) for g in key]:
            yield rev


def compatible(shape, groups):
    return all(len({shape[i] for i in g}) == 1 for g in groups)


def _forms(N, groups):
    f = ["2d"]
    if len(groups) == 1:
        f.append("1d")
        if groups[0] == list(range(N)):
            f.append("none")
    return f


def _dense_shapes(tier):
    sh = space.shapes(4, 3, 81, min_order=2, min_size=2)
    sh += [s for s in space.shapes(3, 3, 9, min_order=1) if 1 in s]
    if tier == "thorough":
        sh += space.shapes(5, 3, 108, min_order=5, min_size=2)
    sh += _empty_shapes(tier)
    sh = sorted(set(sh), key=lambda s: (len(s), prod(s), s))
    return sh


def _empty_shapes(tier):
    """Shapes with at least one mode of extent 0 (no cells: trivially symmetric, the operations must still work and
    agree).  (0,) is excluded: pyttb defines it as THE empty tensor of order 0 (ndims == 0), which has no modes to group;
    it is observed with the inadmissible cases."""
    out = []
    full_upto, max_order = ((4, 5) if tier == "thorough" else (3, 4))
    for n in range(1, max_order + 1):
        sizes = (0, 2, 3) if n <= full_upto else (0, 2)
        for sh in itertools.product(sizes, repeat=n):
            if 0 in sh and sh != (0,):
                out.append(tuple(sh))
    return out


def gen_cases(tier, seed):
    thorough = tier == "thorough"
    cap, spread = (81, 12) if thorough else (16, 4)
    for shape in _dense_shapes(tier):
        N = len(shape)
        for groups in group_sets(N):
            if not compatible(shape, groups):
                continue
            for form in _forms(N, groups):
                yield _dense_case(shape, groups, form, seed, cap, spread)
    if thorough:
        shape = (2,) * 6
        for groups in canonical_group_sets(6):
            yield _dense_case(shape, groups, "2d", seed, 16, 6)
    # groups whose members differ in size: outside the quantifier (observed only)
    # (and pyttb's order-0 empty tensor, shape (0,): no modes to group)
    for shape, groups in (((2, 3), [[0, 1]]), ((2, 3, 2), [[0, 1]]), ((3, 2, 2), [[1, 0, 2]]),
                          ((2, 3, 3, 2), [[0, 1], [2, 3]]), ((2, 2, 3), [[0, 1], [1, 2]]), ((0,), [[0]]),
                          ((0, 2), [[0, 1]]), ((3, 0, 3), [[0, 1, 2]])):
        yield {"check": "noncubic", "shape": list(shape), "grps": groups, "vseed": seed}
    # Kruskal
    orders = (2, 3, 4, 5) if thorough else (2, 3, 4)
    ranks = (1, 2, 3) if thorough else (1, 2)
    for N in orders:
        for s in (2, 3):
            for R in ranks:
                alphabet = (2.0, -1.0, 0.0) if (thorough and R <= 2) else (2.0, -1.0)
                for w in itertools.product(alphabet, repeat=R):
                    for fam in ("generic", "equal", "scaled", "signflip", "orth"):
                        yield {"check": "kruskal", "N": N, "size": s, "rank": R, "weights": list(w),
                               "fam": fam, "vseed": seed}
    for shape in ((2, 3), (3, 2, 2), (2, 2, 3)):
        yield {"check": "kruskal_noncubic", "shape": list(shape), "rank": 2, "vseed": seed}


def _dense_case(shape, groups, form, seed, cap, spread):
    N = len(shape)
    k = len(groups[0])
    return {"check": "dense", "shape": list(shape), "grps": [list(g) for g in groups], "form": form,
            "vseed": seed, "N": N, "k": k, "m": len(groups),
            "full": bool(len(groups) == 1 and k == N), "pert_cap": cap, "pert_spread": spread}


# ---------------------------------------------------------------------------
# helpers


def run_case(case, ctx):
    globals()["_run_" + case["check"]](case, ctx)


class Probe:
    def __init__(self, ctx, case):
        self.ctx, self.case = ctx, case

    def call(self, op, f, variant=""):
        self.ctx.tick()
        try:
            return True, f()
        except Exception as e:  # noqa: BLE001
            self.ctx.fail(op, exc_symptom(e), short_tb(e), variant=variant, case=self.case)
            return False, None

    def expect(self, op, cond, symptom, detail="", variant=""):
        if not cond:
            self.ctx.fail(op, symptom, detail, variant=variant, case=self.case)
        return bool(cond)


def _fl(a):
    """F-order value list as plain floats (for messages)."""
    return [float(x) for x in rm.vals_f(a)]


def _mult(groups):
    return prod(factorial(len(g)) for g in groups)


def _generic(shape, groups, vseed):
    M = float(_mult(groups))
    return rm.arr(shape, [space.cell_value(l, vseed) * M for l in range(prod(shape))])


def _unit(groups):
    """Smallest step u such that integer multiples of u have averages that are multiples of 1/2 (exact in float64,
    not integers in general): prod|g|!/2, or 1 when every group has one member."""
    M = _mult(groups)
    return M // 2 if M % 2 == 0 else M


def _mix(j):
    """Fixed integer scrambler (murmur3 finaliser): an irregular but deterministic small-value pattern."""
    x = (j + 0x9E3779B9) & 0xFFFFFFFF
    x ^= x >> 16
    x = (x * 0x85EBCA6B) & 0xFFFFFFFF
    x ^= x >> 13
    x = (x * 0xC2B2AE35) & 0xFFFFFFFF
    return x ^ (x >> 16)


def _small(shape, groups, vseed, kind):
    """Small integers (they fit every storage dtype): unit * s(l) with s in 0..3 ("small"), -3..3 ("ssmall"), or
    s in {0, 1} without the unit ("bits", the value set of boolean storage)."""
    u = 1.0 if kind == "bits" else float(_unit(groups))
    vals = []
    for l in range(prod(shape)):
        c = space.cell_value(l, vseed)
        j = (int(abs(c)) - 3) // 2
        h = _mix(j)
        sv = h % (2 if kind == "bits" else 4)
        if kind == "ssmall" and c < 0:
            sv = -sv
        vals.append(u * sv)
    return rm.arr(shape, vals)


def orbit_fill(A, groups):
    """Symmetric array without arithmetic: every cell takes the value of the representative of its orbit (the
    subscripts sorted within each group)."""
    B = A.copy()
    for sub in rm.cells(A.shape):
        r = list(sub)
        for g in groups:
            for i, v in zip(sorted(g), sorted(sub[i] for i in g)):
                r[i] = v
        B[sub] = A[tuple(r)]
    assert rm.is_symmetric(B, groups)
    return B


def moved_cells(shape, groups):
    """F-order indices of the cells that lie in an orbit with more than one element."""
    out = []
    for l, sub in enumerate(rm.cells(tuple(shape))):
        if any(len({sub[i] for i in g}) > 1 for g in groups):
            out.append(l)
    return out


def pert_choices(shape, groups, cap, spread):
    mv = moved_cells(shape, groups)
    if len(mv) <= cap:
        return mv
    idx = sorted({round(j * (len(mv) - 1) / (spread - 1)) for j in range(spread)})
    return [mv[i] for i in idx]


def dense_data(shape, groups, data, pert, vseed, mag="big"):
    shape = tuple(shape)
    G = _generic(shape, groups, vseed)
    if data == "generic":
        return G
    if data == "half":
        # multiples of prod|g|!/2: every (partial) average is a multiple of 1/2 - exact, generally not an integer
        return G * (float(_unit(groups)) / _mult(groups))
    if data.split("_")[0] in ("small", "ssmall", "bits"):
        S = _small(shape, groups, vseed, data.split("_")[0])
        return orbit_fill(S, groups) if data.endswith("_sym") else S
    if data == "const":
        return np.full(shape, 7.0 * _mult(groups))
    if data == "sym":
        return rm.symmetrize(G, groups)
    if data.startswith("partial"):
        j = int(data.split(":")[1])
        return rm.symmetrize(G, [g for i, g in enumerate(groups) if i != j])
    if data.startswith("subsym"):
        # symmetric under the permutations of all group members but one (first / last listed)
        sl = slice(1, None) if data.endswith("first") else slice(0, -1)
        return rm.symmetrize(G, [g[sl] for g in groups])
    if data == "sym_pert":
        A = rm.symmetrize(G, groups)
        sub = rm.cells(shape)[pert]
        if mag == "big":
            A[sub] = A[sub] + 2.0 * _mult(groups)
        elif mag == "tiny":
            A[sub] = A[sub] + 2.0 ** -30
        elif mag == "ulp":
            A[sub] = np.nextafter(A[sub], np.inf)
        else:
            raise ValueError(mag)
        return A
    raise ValueError(data)


def _garg(groups, form):
    if form == "none":
        return None
    if form == "1d":
        return np.array(groups[0], dtype=int)
    return np.array(groups, dtype=int)


STORES = ("float64", "int64", "int8", "uint8", "bool")


def _store_of(dtype):
    return {"float": "float64", "int": "int64"}.get(dtype, dtype)


def fits(A, store):
    """The storage dtype holds the values of A exactly."""
    dt = np.dtype(_store_of(store))
    if dt == np.float64:
        return True
    if dt == np.bool_:
        return bool(np.all((A == 0) | (A == 1)))
    if not np.array_equal(A, np.round(A)):
        return False
    ii = np.iinfo(dt)
    return bool(A.size == 0 or (A.min() >= ii.min and A.max() <= ii.max))


def _mk(A, dtype="float64"):
    import pyttb as ttb

    store = _store_of(dtype)
    if store == "float64":
        return ttb.tensor(np.asfortranarray(A.copy()))
    assert fits(A, store), f"harness: {store} does not hold the data exactly"
    T = ttb.tensor(np.asfortranarray(A.astype(np.dtype(store))))
    assert T.data.dtype == np.dtype(store), f"harness: holder dtype {T.data.dtype} instead of {store}"
    return T


def _tensor_data(R, shape):
    import pyttb as ttb

    if not isinstance(R, ttb.tensor):
        return None, "wrong_type", type(R).__name__
    d = np.asarray(R.data)
    if tuple(int(s) for s in R.shape) != tuple(shape) or d.shape != tuple(shape):
        return None, "wrong_shape", f"shape={R.shape} data.shape={d.shape} want {tuple(shape)}"
    return d, None, ""


def ref_details(A, groups):
    """Expected rows of the detailed output: (full permutation, max abs difference)."""
    n = A.ndim
    rows = []
    for g in groups:
        for p in itertools.permutations(g):
            q = list(range(n))
            for src, dst in zip(g, p):
                q[src] = dst
            rows.append((tuple(q), float(np.max(np.abs(A - np.transpose(A, q)))) if A.size else 0.0))
    return rows


VERSIONS = (("new", None), ("old", 1))


def _issym_call(T, g, ver, det):
    kw = {"version": ver, "return_details": det}
    if g is not None:
        kw["grps"] = g
    return T.issymmetric(**kw)


def _sym_call(T, g, ver):
    kw = {"version": ver}
    if g is not None:
        kw["grps"] = g
    return T.symmetrize(**kw)


def _check_issym(p, ctx, A, groups, g, want, op, vprefix="", dtype="float64"):
    """All four (version, return_details) configurations of issymmetric on data A."""
    n = A.ndim
    for vname, ver in VERSIONS:
        for det in (False, True):
            variant = vprefix + vname + ("+details" if det else "")
            T = _mk(A, dtype)
            ok, res = p.call(op, lambda: _issym_call(T, None if g is None else g.copy(), ver, det), variant=variant)
            if not ok:
                continue
            p.expect(op, np.array_equal(T.data, A), "operand_mutated", "", variant)
            if det:
                if not p.expect(op, isinstance(res, tuple) and len(res) == 3, "wrong_type",
                                f"details requested, got {type(res).__name__}", variant):
                    continue
                b, diffs, perms = res
            else:
                b = res
            if not p.expect(op, isinstance(b, (bool, np.bool_)), "wrong_type", f"{type(b).__name__}", variant):
                continue
            ctx.flag(f"issymmetric:{bool(b)}")
            p.expect(op, bool(b) == want, "wrong_value",
                     f"issymmetric={bool(b)} want {want}; data(F)={_fl(A)}", variant)
            ctx.outcome([variant, bool(b)])
            if det:
                rows = ref_details(A, groups)
                diffs = np.asarray(diffs)
                perms = np.asarray(perms)
                if not p.expect(op, diffs.shape == (len(rows), 1) and perms.shape == (len(rows), n),
                                "wrong_shape", f"diffs{diffs.shape} perms{perms.shape} want ({len(rows)},1),({len(rows)},{n})",
                                variant):
                    continue
                got = sorted((tuple(int(x) for x in perms[i]), float(diffs[i, 0])) for i in range(len(rows)))
                good = np.array_equal(perms, perms.astype(int)) and got == sorted(rows)
                p.expect(op, good, "wrong_details", f"got={got} want={sorted(rows)}", variant)


# ---------------------------------------------------------------------------
# dense


def _dense_variants(case):
    shape, groups = tuple(case["shape"]), case["grps"]
    F, I = "float64", "int64"
    if prod(shape) == 0:
        # no cells: every data family is the same (empty) array; what remains is the storage dtype
        return [("generic", None, "all", "big", st) for st in (F, I, "bool")]
    out = [("generic", None, "all", "big", F), ("const", None, "all", "big", F), ("sym", None, "all", "big", F),
           ("generic", None, "all", "big", I), ("sym", None, "all", "big", I)]
    if len(groups) > 1:
        for j in range(len(groups)):
            out.append((f"partial:{j}", None, "all", "big", F))
    if len(groups[0]) >= 3:
        out.append(("subsym:first", None, "all", "big", F))
        out.append(("subsym:last", None, "all", "big", F))
    pc = pert_choices(shape, groups, case.get("pert_cap", 16), case.get("pert_spread", 4))
    for i, l in enumerate(pc):
        out.append(("sym_pert", l, "all" if i == len(pc) // 2 else "issym", "big", F))
    # the same cells at the small magnitudes: symmetry test only (averages of such data are not exact)
    for mag in PERT_MAGS[1:]:
        for i, l in enumerate(pc):
            # (middle cell: also symmetrised; the averages are rounded, so the result is asserted to be bitwise
            # symmetric and to agree with the reference average within 1e-12)
            out.append(("sym_pert", l, "symm_approx" if i == len(pc) // 2 else "issym", mag, F))
    # averages that are exact but NOT integers (multiples of 1/2), in floating and in integer storage
    if len(groups[0]) >= 2:
        out.append(("half", None, "all", "big", F))
        out.append(("half", None, "all", "big", I))
    # narrow / unsigned / boolean storage, with data that fit: generic and symmetric.  Boolean data are 0/1, whose
    # averages are exact only when every orbit size is a power of two (groups of <= 2 members); otherwise only the
    # symmetry test is asserted for them.
    M = _mult(groups)
    pow2 = M & (M - 1) == 0
    for fam, st in (("small", "uint8"), ("ssmall", "int8"), ("bits", "bool")):
        ops = "all" if (st != "bool" or pow2) else "issym"
        for suffix in ("", "_sym"):
            if st == "bool" or 3 * _unit(groups) <= np.iinfo(np.dtype(st)).max:     # the values fit
                out.append((fam + suffix, None, ops, "big", st))
    return out


def _run_dense(case, ctx):
    if "data" in case:
        ops = case.get("ops", "all")
        store = case.get("store") or ("int64" if ops.endswith(":int") else "float64")
        variants = [(case["data"], case.get("pert"), ops.split(":")[0], case.get("mag", "big"), store)]
    else:
        variants = _dense_variants(case)
    for data, pert, ops, mag, store in variants:
        sub = {k: v for k, v in case.items() if k not in ("data", "pert", "ops", "mag", "store")}
        sub.update(data=data, pert=pert, ops=ops, mag=mag, store=store)
        _dense_one(sub, ctx)


def _dense_one(case, ctx):
    shape, groups, form = tuple(case["shape"]), case["grps"], case["form"]
    mag = case.get("mag", "big")
    A = dense_data(shape, groups, case["data"], case["pert"], case["vseed"], mag)
    if mag != "big":
        assert case["ops"] in ("issym", "symm_approx"), "harness: small perturbations: symmetry test / approximate average only"
        ctx.flag("pert_" + mag)
    g = _garg(groups, form)
    p = Probe(ctx, case)
    ctx.state()
    N, k = len(shape), len(groups[0])
    nontrivial = k >= 2 and any(shape[i] >= 2 for gg in groups for i in gg) and A.size > 0
    if nontrivial:
        ctx.nontriv()
    if A.size == 0:
        ctx.flag("empty_operand")
    if not case["full"]:
        ctx.flag("proper_subgroup")
    if len(groups) > 1:
        ctx.flag("several_groups")
    if any(gg != sorted(gg) for gg in groups):
        ctx.flag("unsorted_group")
    want_sym = rm.is_symmetric(A, groups)
    ctx.flag("input_symmetric" if want_sym else "input_asymmetric")

    # the symmetry test on the input
    dtype = case.get("store", "float64")
    ctx.flag("store_" + dtype)
    if dtype != "float64":
        ctx.flag("integer_dtype")
    _check_issym(p, ctx, A, groups, g, want_sym, "tensor.issymmetric", dtype=dtype)
    if case["ops"] == "issym":
        return
    if case["ops"] == "symm_approx":
        ref = rm.symmetrize(A, groups)      # rounded averages
        for vname, ver in VERSIONS:
            T = _mk(A, dtype)
            ok, R = p.call("tensor.symmetrize", lambda: _sym_call(T, None if g is None else g.copy(), ver), variant=vname + ":approx")
            if not ok:
                continue
            d, sym, det = _tensor_data(R, shape)
            if d is None:
                p.expect("tensor.symmetrize", False, sym, det, vname + ":approx")
                continue
            p.expect("tensor.symmetrize", rm.is_symmetric(d, groups), "not_symmetric",
                     f"result of symmetrising a nearly symmetric tensor is not invariant under its groups: {_fl(d)}",
                     vname + ":approx")
            p.expect("tensor.symmetrize", bool(np.all(np.abs(d - ref) <= 1e-12 * (1.0 + np.abs(ref)))), "wrong_value",
                     f"got(F)={_fl(d)} reference average(F)={_fl(ref)}", vname + ":approx")
        return
    ref = rm.symmetrize(A, groups)          # exact: the data are multiples of prod |g|!
    assert rm.is_symmetric(ref, groups)

    # symmetrisation
    for vname, ver in VERSIONS:
        T = _mk(A, dtype)
        ok, R = p.call("tensor.symmetrize", lambda: _sym_call(T, None if g is None else g.copy(), ver), variant=vname)
        if not ok:
            continue
        p.expect("tensor.symmetrize", np.array_equal(T.data, A), "operand_mutated", "", vname)
        d, sym, det = _tensor_data(R, shape)
        if d is None:
            p.expect("tensor.symmetrize", False, sym, det, vname)
            continue
        ctx.outcome([vname, d])
        if not p.expect("tensor.symmetrize", rm.same(d, ref), "wrong_value",
                        f"got(F)={_fl(d)} want(F)={_fl(ref)} input(F)={_fl(A)}", vname):
            continue
        # the result passes the symmetry test (the returned object itself is tested)
        for v2name, v2 in VERSIONS:
            for det2 in (False, True):
                variant = v2name + ("+details" if det2 else "")
                ok2, b = p.call("symmetrize>issymmetric",
                                lambda: _issym_call(R, None if g is None else g.copy(), v2, det2), variant=variant)
                if ok2:
                    bb = b[0] if (det2 and isinstance(b, tuple) and len(b) == 3) else b
                    p.expect("symmetrize>issymmetric", isinstance(bb, (bool, np.bool_)) and bool(bb) is True,
                             "wrong_value", f"result of symmetrize({vname}) reported as {bb!r}; data(F)={_fl(d)}", variant)
        # idempotence, on the returned object
        keep = np.array(d, copy=True)
        ok3, R2 = p.call("symmetrize>symmetrize", lambda: _sym_call(R, None if g is None else g.copy(), ver), variant=vname)
        if ok3:
            d2, sym2, det2_ = _tensor_data(R2, shape)
            if d2 is None:
                p.expect("symmetrize>symmetrize", False, sym2, det2_, vname)
            else:
                p.expect("symmetrize>symmetrize", rm.same(d2, keep), "wrong_value",
                         f"second application changed the value: {_fl(d2)} vs {_fl(keep)}", vname)
                p.expect("symmetrize>symmetrize", np.array_equal(np.asarray(R.data), keep), "operand_mutated", "", vname)
        # cross-version idempotence: the other implementation leaves the result alone as well
        other = 1 if ver is None else None
        ok4, R3 = p.call("symmetrize>symmetrize", lambda: _sym_call(R, None if g is None else g.copy(), other),
                         variant=vname + ">other")
        if ok4:
            d3, sym3, det3 = _tensor_data(R3, shape)
            if d3 is None:
                p.expect("symmetrize>symmetrize", False, sym3, det3, vname + ">other")
            else:
                p.expect("symmetrize>symmetrize", rm.same(d3, keep), "wrong_value",
                         f"{_fl(d3)} vs {_fl(keep)}", vname + ">other")
    if want_sym:
        ctx.count("symmetric_inputs")
    else:
        ctx.count("asymmetric_inputs")


def _run_noncubic(case, ctx):
    """Groups with members of different size: outside the quantifier; run and record only."""
    shape, groups = tuple(case["shape"]), case["grps"]
    A = rm.arr(shape, [space.cell_value(l, case["vseed"]) for l in range(prod(shape))])
    g = np.array(groups, dtype=int)
    ctx.state()
    ctx.inadm()
    for vname, ver in VERSIONS:
        for what in ("issymmetric", "symmetrize"):
            ctx.tick()
            try:
                T = _mk(A)
                r = T.issymmetric(g, version=ver) if what == "issymmetric" else T.symmetrize(g, version=ver)
                ctx.outcome([what, vname, repr(r)[:80]])
            except BaseException as e:  # noqa: BLE001  (the library uses `assert False` here)
                if isinstance(e, (KeyboardInterrupt, SystemExit)) or type(e).__name__ == "CaseTimeout":
                    raise
                ctx.outcome([what, vname, type(e).__name__])
                ctx.count("noncubic_rejected")


# ---------------------------------------------------------------------------
# Kruskal


def kruskal_parts(case):
    N, s, R = case["N"], case["size"], case["rank"]
    seed = case.get("vseed", 0)
    fam = case["fam"]
    w = np.array([float(x) for x in case["weights"]])
    base = [np.array(space.int_matrix(s, R, salt=4 * n, seed=seed)) for n in range(N)]
    if fam == "generic":
        fs = base
    elif fam == "equal":
        fs = [base[0].copy() for _ in range(N)]
    elif fam == "scaled":
        sc = [1.0, 2.0, 0.5, 4.0, 0.25, 8.0]
        fs = [base[0] * sc[n % len(sc)] for n in range(N)]
    elif fam == "signflip":
        fs = [base[0].copy() for _ in range(N)]
        fs[1][:, 0] = -fs[1][:, 0]
        if N >= 3:
            fs[2][:, R - 1] = -fs[2][:, R - 1]
    elif fam == "orth":
        # some factor columns orthogonal to the first factor's (inner product exactly 0) or zero
        fs = [b.copy() for b in base]
        v = fs[0][:, 0]
        o = np.zeros(s)
        o[0], o[1] = -v[1], v[0]
        fs[1][:, 0] = o
        if N >= 3:
            fs[2][:, R - 1] = 0.0
    else:
        raise ValueError(fam)
    return w, fs


def _kt(w, fs):
    import pyttb as ttb

    return ttb.ktensor([np.asfortranarray(f.copy()) for f in fs], w.copy())


def _perm_invariant(a, tol):
    n = a.ndim
    for q in itertools.permutations(range(n)):
        if np.max(np.abs(a - np.transpose(a, q))) > tol:
            return False
    return True


def _kstruct(K, shape, R):
    import pyttb as ttb

    if not isinstance(K, ttb.ktensor):
        return "wrong_type", type(K).__name__
    fm = K.factor_matrices
    if len(fm) != len(shape) or any(np.asarray(f).shape != (s, R) for f, s in zip(fm, shape)):
        return "wrong_shape", f"{[np.asarray(f).shape for f in fm]} want {[(s, R) for s in shape]}"
    if np.asarray(K.weights).shape != (R,):
        return "wrong_shape", f"weights {np.asarray(K.weights).shape}"
    if not (np.all(np.isfinite(K.weights)) and all(np.all(np.isfinite(f)) for f in fm)):
        return "malformed:nonfinite", ""
    return None, ""


def _ref_kissym(fs):
    n = len(fs)
    diffs = np.zeros((n, n))
    for i in range(n):
        for j in range(i + 1, n):
            if fs[i].shape != fs[j].shape:
                diffs[i, j] = np.inf
            else:
                diffs[i, j] = float(np.sqrt(np.sum((fs[i] - fs[j]) ** 2)))
    return bool((diffs == 0).all()), diffs


def _check_kissym(p, ctx, K, fs, variant):
    want, wdiffs = _ref_kissym(fs)
    for rd in (False, True):
        v = variant + ("+diffs" if rd else "")
        ok, res = p.call("ktensor.issymmetric", lambda: K.issymmetric(return_diffs=rd) if rd else K.issymmetric(),
                         variant=v)
        if not ok:
            continue
        if rd:
            if not p.expect("ktensor.issymmetric", isinstance(res, tuple) and len(res) == 2, "wrong_type",
                            type(res).__name__, v):
                continue
            b, diffs = res
            diffs = np.asarray(diffs)
            good = diffs.shape == wdiffs.shape and bool(np.all(
                (diffs == wdiffs) | (np.abs(diffs - wdiffs) <= 1e-12 * np.maximum(1.0, np.abs(wdiffs)))))
            p.expect("ktensor.issymmetric", good, "wrong_details", f"diffs={diffs.tolist()} want={wdiffs.tolist()}", v)
        else:
            b = res
        if p.expect("ktensor.issymmetric", isinstance(b, (bool, np.bool_)), "wrong_type", type(b).__name__, v):
            p.expect("ktensor.issymmetric", bool(b) == want, "wrong_value", f"{bool(b)} want {want}", v)
            ctx.flag(f"ktensor.issymmetric:{bool(b)}")
    return want


def _run_kruskal(case, ctx):
    N, s, R, fam = case["N"], case["size"], case["rank"], case["fam"]
    shape = (s,) * N
    w, fs = kruskal_parts(case)
    val = rm.kruskal(w, fs)
    scale = max(1.0, float(np.max(np.abs(val))))
    tol = 1e-9 * scale
    p = Probe(ctx, case)
    ctx.state()
    if np.any(val != 0):
        ctx.nontriv()
    if np.any(w < 0):
        ctx.flag("negative_weight")
    ctx.flag("order_even" if N % 2 == 0 else "order_odd")
    symmetric_input = fam in ("equal", "scaled", "signflip")
    if symmetric_input:
        assert _perm_invariant(val, 0.0), "harness: symmetric family is not symmetric"

    # the structural symmetry test on the input
    K = _kt(w, fs)
    _check_kissym(p, ctx, K, fs, "input")
    p.expect("ktensor.issymmetric", all(np.array_equal(a, b) for a, b in zip(K.factor_matrices, fs))
             and np.array_equal(K.weights, w), "operand_mutated", "", "input")

    K = _kt(w, fs)
    ok, S = p.call("ktensor.symmetrize", lambda: K.symmetrize(), variant=fam)
    if not ok:
        return
    p.expect("ktensor.symmetrize", all(np.array_equal(a, b) for a, b in zip(K.factor_matrices, fs))
             and np.array_equal(K.weights, w), "operand_mutated",
             f"weights {K.weights.tolist()} vs {w.tolist()}", fam)
    sym, det = _kstruct(S, shape, R)
    if sym:
        p.expect("ktensor.symmetrize", False, sym, det, fam)
        return
    sfs = [np.array(f, dtype=float, copy=True) for f in S.factor_matrices]
    sw = np.array(S.weights, dtype=float, copy=True)
    sval = rm.kruskal(sw, sfs)
    ctx.outcome([fam, np.round(sval / scale, 9)])
    # symmetric in all modes: entrywise on the reference Kruskal value, and by the library's own test
    p.expect("ktensor.symmetrize", _perm_invariant(sval, tol), "not_symmetric",
             f"result is not symmetric: value(F)={_fl(sval)}", fam)
    for rd in (False, True):
        v = fam + ("+diffs" if rd else "")
        ok2, res = p.call("symmetrize>issymmetric", lambda: S.issymmetric(return_diffs=rd) if rd else S.issymmetric(),
                          variant=v)
        if ok2:
            b = res[0] if rd and isinstance(res, tuple) else res
            p.expect("symmetrize>issymmetric", isinstance(b, (bool, np.bool_)) and bool(b), "wrong_value",
                     f"result of symmetrize reported as {b!r}", v)
            if rd and isinstance(res, tuple) and len(res) == 2:
                p.expect("symmetrize>issymmetric", not np.any(np.asarray(res[1])), "wrong_details",
                         f"diffs={np.asarray(res[1]).tolist()}", v)
    # an already symmetric tensor keeps its value
    if symmetric_input:
        ctx.flag("kruskal_symmetric_input")
        p.expect("ktensor.symmetrize", rm.close(sval, val, 1e-9, scale), "wrong_value",
                 f"symmetric input changed: got(F)={_fl(sval)} want(F)={_fl(val)}", fam)
    # symmetrising again changes nothing
    S1 = _kt(sw, sfs)
    ok3, S2 = p.call("symmetrize>symmetrize", lambda: S1.symmetrize(), variant=fam)
    if ok3:
        sym2, det2 = _kstruct(S2, shape, R)
        if sym2:
            p.expect("symmetrize>symmetrize", False, sym2, det2, fam)
        else:
            s2val = rm.kruskal(S2.weights, S2.factor_matrices)
            p.expect("symmetrize>symmetrize", rm.close(s2val, sval, 1e-9, scale), "wrong_value",
                     f"second application changed the value: {_fl(s2val)} vs {_fl(sval)}", fam)


def _run_kruskal_noncubic(case, ctx):
    """Non-cubical Kruskal tensors: outside the quantifier; observed only."""
    shape, R = tuple(case["shape"]), case["rank"]
    fs = [np.array(space.int_matrix(s, R, salt=4 * n, seed=case.get("vseed", 0))) for n, s in enumerate(shape)]
    K = _kt(np.array([2.0, -1.0][:R]), fs)
    ctx.state()
    ctx.inadm()
    for what in ("issymmetric", "symmetrize"):
        ctx.tick()
        try:
            r = getattr(K, what)()
            ctx.outcome([what, repr(r)[:40]])
        except BaseException as e:  # noqa: BLE001
            if isinstance(e, (KeyboardInterrupt, SystemExit)) or type(e).__name__ == "CaseTimeout":
                raise
            ctx.outcome([what, type(e).__name__])
            ctx.count("noncubic_rejected")
