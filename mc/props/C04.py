"""C04 - entry reads and writes behave like an F-ordered mutable array over any history.

History explorer (BFS).  A state is the history reaching it; `build(hist)` constructs a FRESH dense tensor and a
FRESH sparse tensor and replays the labels on both and on the reference array.  De-duplication is on the concrete
implementation state of the pair (dense: shape + bytes + contiguity; sparse: shape + subs in stored order + vals).
"""

import itertools
from math import prod

import numpy as np

from mc import observe as O
from mc import refmodel as rm
from mc.engine import bfs, digest, exc_symptom, short_tb
from mc.holders import make_sptensor

ID = "C04"
RULE = ("history explorer (BFS): every word over the write alphabet up to the depth bound, from every initial state; "
        "after every write the dense tensor, the sparse tensor and the reference array (growable, zero padded, F-ordered) "
        "are compared entry by entry, and on every distinct reached state every read of the read alphabet is checked.  "
        "A state violating the invariant is reported and not expanded.  States are de-duplicated on the concrete pair "
        "state.  Slices carry all three components (start, stop, step): unit-step, stepped (::2, 0:3:2), reversed (::-1) "
        "and relative-bound (-1:, :-1) slices occur in the write alphabet and in the region reads.  "
        "Non-trivial: a reached state with at least one non-zero entry.")
ASSUMPTIONS = ["reference = mc/props/C04.py RefArr (rectangular regions = Cartesian product, negative indices relative to the "
               "current extent, growth by zero padding, first index fastest)",
               "linear-index assignment is documented as unsupported for sptensor (N>1): the sparse object receives the "
               "equivalent subscript assignment for such labels",
               "slices follow Python semantics on the CURRENT extent (negative bounds relative to it); a write through a stepped "
               "slice is enabled only if its stop is within the extent or equals the last selected position + 1 (the statement "
               "does not fix how far a write that selects no position beyond the extent would grow the mode); reversed and "
               "relative-bound slices are enabled on existing modes only",
               "array right-hand sides only with int/slice keys (NumPy places list-indexed modes differently; shapes of "
               "list-keyed region reads are compared on values and on the extents of the kept modes)"]
BOUNDS = {}
A_, B_ = 5.0, 7.0
MAXD = 2
TIER = "quick"
CHUNK = 4


# ---------------------------------------------------------------------------
# reference model


class Disabled(Exception):
    """Label not defined in the reference for this state (not part of the enabled alphabet)."""


def _slice_positions(it, ext, new_mode, for_write):
    """Positions selected by the slice item ["s", start, stop(, step)] in a mode of current extent `ext`, in slice order,
    and the extent the mode must have afterwards.  Python slice semantics; negative bounds are relative to the current
    extent.  Disabled (outside the enabled alphabet): an empty selection, a read beyond the extent, an unbounded or
    negative-relative or reversed slice on a mode that does not exist yet, and a stepped slice whose stop lies beyond
    both the extent and the last selected position (the statement does not say how far such a write grows the mode)."""
    a, b = it[1], it[2]
    st = it[3] if len(it) > 3 and it[3] is not None else 1

    def rel(x):
        if x is None or x >= 0:
            return x
        if new_mode or -x > ext:
            raise Disabled()
        return ext + x

    a, b = rel(a), rel(b)
    if st > 0:
        if b is None:
            if new_mode:
                raise Disabled()        # unbounded slice on a new mode: sparse class documents rejection
            stop = ext
        else:
            stop = b
            if not for_write and b > ext:
                raise Disabled()
        start = 0 if a is None else a
        idx = list(range(start, stop, st))
        if not idx:
            raise Disabled()
        if st > 1 and stop > ext and idx[-1] + 1 != stop:
            raise Disabled()
        return idx, max(ext, stop)
    if new_mode:
        raise Disabled()
    start = ext - 1 if a is None else a
    if start >= ext:
        raise Disabled()
    idx = list(range(start, -1 if b is None else b, st))
    if not idx:
        raise Disabled()
    return idx, ext


class RefArr:
    def __init__(self, a=None):
        self.a = None if a is None else np.array(a, dtype=float)

    @property
    def shape(self):
        return () if self.a is None else self.a.shape

    @property
    def ndim(self):
        return len(self.shape)

    def grow(self, newshape):
        newshape = tuple(int(x) for x in newshape)
        old = self.shape
        if newshape == old:
            return
        b = np.zeros(newshape)
        if self.a is not None:
            idx = tuple(slice(0, s) for s in old) + tuple(0 for _ in range(len(newshape) - len(old)))
            b[idx] = self.a
        self.a = b

    def resolve(self, key, for_write):
        """key items -> (index lists per mode, kept flags, new shape)."""
        N = self.ndim
        if len(key) < N or (not for_write and len(key) != N):
            raise Disabled()
        need, sets, kept = [], [], []
        for n, it in enumerate(key):
            ext = self.shape[n] if n < N else 0
            if isinstance(it, int):
                if it < 0:
                    if n >= N or -it > ext:
                        raise Disabled()
                    it = ext + it
                if not for_write and it >= ext:
                    raise Disabled()
                need.append(max(ext, it + 1))
                sets.append([it])
                kept.append(False)
            elif it[0] == "s":
                idx, nd = _slice_positions(it, ext, n >= N, for_write)
                need.append(nd)
                sets.append(idx)
                kept.append(True)
            else:
                lst = list(it[1])
                if any(i < 0 for i in lst) or (not for_write and max(lst) >= ext):
                    raise Disabled()
                need.append(max(ext, max(lst) + 1))
                sets.append(lst)
                kept.append(True)
        return sets, kept, tuple(need)

    def write_region(self, key, rhs):
        sets, kept, newshape = self.resolve(key, True)
        rshape = [len(s) for s, k in zip(sets, kept) if k]
        if isinstance(rhs, str):
            if any((not isinstance(it, int)) and it[0] == "l" for it in key):
                raise Disabled()
            if not rshape:
                raise Disabled()
            vals = arr_vals(prod(rshape))
        self.grow(newshape)
        kidx = [n for n, k in enumerate(kept) if k]
        for l, combo in enumerate(rm.cells(tuple(len(s) for s in sets))):
            pos = tuple(sets[n][combo[n]] for n in range(len(sets)))
            if isinstance(rhs, str):
                sub = tuple(combo[n] for n in kidx)
                self.a[pos] = vals[rm.lin_f(rshape, sub)]
            else:
                self.a[pos] = rhs
        return rshape

    def write_subs(self, rows, vals):
        N = self.ndim
        p, w = len(rows), len(rows[0])
        if w < N:
            raise Disabled()
        mx = [max(r[c] for r in rows) + 1 for c in range(w)]
        newshape = tuple(max(self.shape[c], mx[c]) if c < N else mx[c] for c in range(w))
        self.grow(newshape)
        vs = vals if isinstance(vals, list) else [vals] * p
        for r, v in zip(rows, vs):
            self.a[tuple(r)] = v

    def write_lin(self, idxs, vals):
        if self.a is None or self.a.size == 0 or max(idxs) >= self.a.size or min(idxs) < 0:
            raise Disabled()
        vs = vals if isinstance(vals, list) else [vals] * len(idxs)
        cl = rm.cells(self.shape)
        for i, v in zip(idxs, vs):
            self.a[cl[i]] = v
        return [list(cl[i]) for i in idxs]

    def read_region(self, key):
        sets, kept, _ = self.resolve(key, False)
        rshape = tuple(len(s) for s, k in zip(sets, kept) if k)
        out = np.zeros(rshape)
        kidx = [n for n, k in enumerate(kept) if k]
        for combo in rm.cells(tuple(len(s) for s in sets)):
            pos = tuple(sets[n][combo[n]] for n in range(len(sets)))
            out[tuple(combo[n] for n in kidx)] = self.a[pos]
        return out


def arr_vals(n):
    """Right-hand-side array values mixing zero and non-zero."""
    return [0.0 if l % 2 == 0 else float(10 + l) for l in range(n)]


# ---------------------------------------------------------------------------
# alphabet


def S_(a, b, step=None):
    return ["s", a, b] if step is None else ["s", a, b, step]


def L_(*xs):
    return ["l", list(xs)]


def alphabet(N, tier):
    """Write labels for a tensor of current order N (N=0: the empty tensor, keys of width 2)."""
    W = max(N, 2) if N else 2
    full = tier == "thorough"
    labels = []
    # --- single element by full subscripts
    if W == 2:
        idxs = list(itertools.product(range(3), repeat=2))
    else:
        idxs = list(itertools.product(range(2), repeat=W)) + [tuple(2 if k == j else 0 for k in range(W)) for j in range(W)]
    for idx in idxs:
        for v in ((0.0, A_, B_) if (full or sum(idx) <= 1) else (0.0, A_)):
            labels.append(["region", list(idx), v])
    for idx in ([(-1, -1), (-1, 0), (0, -1)] if W == 2 else [(-1, -1, -1), (0, -1, 0)]):
        for v in (0.0, B_):
            labels.append(["region", list(idx), v])
    # order growth by a longer key
    for idx in ([(0, 1, 1), (1, 0, 0)] if W == 2 else [(0, 0, 0, 1)]):
        labels.append(["region", list(idx), A_])
    # --- regions
    if W == 2:
        keys = [
            [0, S_(None, None)], [S_(None, None), 1], [S_(None, None), S_(None, None)],
            [S_(0, 1), S_(None, None)], [S_(0, 2), S_(0, 2)], [S_(1, 3), 0], [2, S_(None, None)],
            [S_(None, None), 2], [-1, S_(None, None)], [S_(0, 3), S_(0, 1)], [S_(1, None), 0],
            [L_(0, 1), S_(None, None)], [S_(None, None), L_(2, 0)], [0, L_(0, 1)], [L_(1), S_(0, 2)],
            [L_(0, 1), L_(0, 1)], [L_(0, 2), L_(1, 0)],
            [0, S_(0, 2), S_(0, 2)], [S_(0, 1), S_(0, 1), S_(1, 2)], [1, 0, L_(0, 1)],
            # slices with a step (forward, bounded incl. growth to the last selected position, reversed) and with
            # negative (relative) bounds
            [S_(None, None, 2), S_(None, None)], [1, S_(0, 3, 2)], [S_(None, None, -1), 0],
            [S_(-1, None), S_(None, -1)],
        ]
    elif W >= 4:
        # order 4 and up: keys with three and more integer entries around one or two slices / lists (the integer
        # positions are re-inserted one by one when a sparse right-hand side is renumbered)
        z = [0] * (W - 4)
        keys = [
            [0, 1, 0, S_(None, None)] + z, [S_(None, None), 0, 0, 1] + z, [0, S_(None, None), 1, S_(None, None)] + z,
            [S_(None, None)] * W, [1, 0, S_(0, 2), 0] + z, [0, 0, L_(1, 0), 0] + z, [0, 0, 0, S_(0, 3, 2)] + z,
        ]
    else:
        keys = [
            [0, S_(None, None), S_(None, None)], [S_(None, None), 0, 1], [S_(None, None)] * 3,
            [S_(0, 2), 0, S_(0, 2)], [S_(0, 1), S_(0, 2), S_(1, 2)], [1, S_(None, None), 0], [2, 0, S_(None, None)],
            [L_(0, 1), 0, S_(None, None)], [S_(None, None), S_(None, None), L_(1, 0)], [L_(0, 1), 0, L_(0, 1)],
            [-1, S_(None, None), -1],
            [S_(None, None, 2), 0, S_(None, None)], [S_(None, None), S_(None, None, -1), S_(0, 3, 2)],
            [S_(-1, None), 0, S_(None, -1)],
        ]
    for k in keys:
        for rhs in (0.0, A_, "arr", "ten"):
            labels.append(["region", k, rhs])
    # --- arrays of subscripts
    if W == 2:
        rowsets = [[[0, 0]], [[1, 1]], [[0, 0], [1, 1]], [[1, 1], [0, 0]], [[0, 1], [2, 2], [1, 0]], [[0, 0], [0, 0]],
                   [[0, 0, 1]], [[1, 0], [0, 1]]]
    else:
        rowsets = [[[0, 0, 0]], [[1, 0, 1], [0, 0, 0]], [[0, 0, 0], [1, 0, 1]], [[0, 1, 0], [2, 0, 0]], [[0, 0, 0, 1]]]
    for rows in rowsets:
        p = len(rows)
        vals = [0.0, A_]
        if p == 2 and rows[0] != rows[1]:
            vals += [[0.0, A_], [A_, 0.0], [A_, B_]]
        if p == 3:
            vals += [[A_, 0.0, B_]]
        for v in vals:
            labels.append(["subs", rows, v])
    # --- linear indices (no growth)
    for idxs in ([0], [1, 2], [3, 0]):
        for v in (A_, 0.0):
            labels.append(["lin", idxs, v])
    labels.append(["lin", [1, 2], [0.0, B_]])
    labels.append(["linslice", [0, 2], A_])
    # --- pure operations interleaved with the writes (they must not change the state, and a later write + read must
    #     not be affected by anything they left behind)
    for name in OPS:
        labels.append(["op", name])
    if not full:
        labels = [lab for i, lab in enumerate(labels) if _quick_keep(lab, i)]
    return labels


OPS = ["not", "le0", "div0", "gt0_poke", "measure"]


def apply_op(T, S, name):
    """Pure operations on the pair; results are discarded (gt0_poke additionally writes into the RESULT object)."""
    if name == "not":
        S.logical_not()
        T.logical_not()
    elif name == "le0":
        _ = S <= 0
        _ = T <= 0
    elif name == "div0":
        _ = S / 0
    elif name == "measure":
        # scalar summaries (anything memoised from them must not survive the next write)
        S.norm(), T.norm(), S.nnz, T.nnz, S.innerprod(S), T.innerprod(T)
    elif name == "gt0_poke":
        C = S > 0
        if C.nnz:
            C[tuple(int(i) for i in C.subs[0])] = 7.0
        D = T > 0
        if D.data.size:
            D.data[...] = 7.0


def _quick_keep(lab, i):
    """Quick tier: a fixed sub-alphabet (every key form and rhs kind stays represented)."""
    kind = lab[0]
    if kind == "region":
        key, rhs = lab[1], lab[2]
        if all(isinstance(k, int) for k in key):
            return sum(abs(k) for k in key) <= 2 or rhs == A_
        return rhs != "ten" or any(isinstance(k, list) and k[0] == "s" and k[2] is not None for k in key)
    return True


# ---------------------------------------------------------------------------
# initial states


INITS = ["empty", "z12", "z22", "z212", "e22_sorted", "e22_reversed_c", "e22_rotated", "e212_rev", "z2121"]


def build_init(name):
    import pyttb as ttb

    if name == "empty":
        return ttb.tensor(), ttb.sptensor(), RefArr()
    if name.startswith("z"):
        shape = {"z12": (1, 2), "z22": (2, 2), "z212": (2, 1, 2), "z2121": (2, 1, 2, 1)}[name]
        return ttb.tensor(np.zeros(shape)), ttb.sptensor(shape=shape), RefArr(np.zeros(shape))
    if name.startswith("e22"):
        shape = (2, 2)
        ent = [((0, 0), 1.0), ((1, 0), 2.0), ((1, 1), 3.0)]
    else:
        shape = (2, 1, 2)
        ent = [((0, 0, 0), 1.0), ((1, 0, 1), 2.0)]
    a = np.zeros(shape)
    for s, v in ent:
        a[s] = v
    if "reversed" in name or "rev" in name:
        ent = list(reversed(ent))
    if "rotated" in name:
        ent = ent[1:] + ent[:1]
    S = make_sptensor(shape, [list(s) for s, _ in ent], [v for _, v in ent])
    if name.endswith("_c"):
        T = ttb.tensor(np.ascontiguousarray(a))
    else:
        T = ttb.tensor(np.asfortranarray(a))
    return T, S, RefArr(a)


# ---------------------------------------------------------------------------
# applying labels to the real objects


def _pykey(key):
    out = []
    for it in key:
        if isinstance(it, int):
            out.append(it)
        elif it[0] == "s":
            out.append(slice(it[1], it[2], it[3] if len(it) > 3 else None))
        else:
            out.append(list(it[1]))
    return tuple(out)


def apply_label(T, S, R, lab):
    """Applies lab to the reference (may raise Disabled) and then to the dense and sparse objects.
    Returns dict of exceptions per object."""
    import pyttb as ttb

    kind = lab[0]
    errs = {}
    if kind == "op":
        if R.a is None or R.a.size == 0:
            raise Disabled()
        try:
            apply_op(T, S, lab[1])
        except Exception as e:  # noqa: BLE001
            errs["sptensor"] = e
        return errs
    if kind == "region":
        key, rhs = lab[1], lab[2]
        rshape = R.write_region(key, rhs)
        pk = _pykey(key)
        if isinstance(rhs, str):
            arr = rm.arr(rshape, arr_vals(prod(rshape)))
            dval = np.asfortranarray(arr) if rhs == "arr" else ttb.tensor(np.asfortranarray(arr))
            sval = ttb.tensor(np.asfortranarray(arr)).to_sptensor()
        else:
            dval = sval = rhs
        for nm, X, val in (("tensor", T, dval), ("sptensor", S, sval)):
            try:
                X[pk] = val
            except Exception as e:  # noqa: BLE001
                errs[nm] = e
    elif kind == "subs":
        rows, vals = lab[1], lab[2]
        R.write_subs(rows, vals)
        for nm, X in (("tensor", T), ("sptensor", S)):
            k = np.array(rows, dtype=int)
            if isinstance(vals, list):
                v = np.array(vals) if nm == "tensor" else np.array(vals).reshape(-1, 1)
            else:
                v = vals
            try:
                X[k] = v
            except Exception as e:  # noqa: BLE001
                errs[nm] = e
    elif kind in ("lin", "linslice"):
        if kind == "lin":
            idxs, vals = lab[1], lab[2]
        else:
            idxs, vals = list(range(lab[1][0], lab[1][1])), lab[2]
        rows = R.write_lin(idxs, vals)
        try:
            if kind == "lin":
                T[np.array(idxs, dtype=int)] = np.array(vals) if isinstance(vals, list) else vals
            else:
                T[slice(lab[1][0], lab[1][1])] = vals
        except Exception as e:  # noqa: BLE001
            errs["tensor"] = e
        try:  # sparse: equivalent subscript assignment (linear assignment documented as unsupported)
            S[np.array(rows, dtype=int)] = np.array(vals).reshape(-1, 1) if isinstance(vals, list) else vals
        except Exception as e:  # noqa: BLE001
            errs["sptensor"] = e
    else:
        raise ValueError(kind)
    return errs


def describe(lab):
    """Coarse variant name of a label (failure identity): key form + rhs kind."""
    kind = lab[0]
    if kind == "region":
        key, rhs = lab[1], lab[2]
        forms = set()
        nl = 0
        for it in key:
            if isinstance(it, int):
                forms.add("neg" if it < 0 else "int")
            elif it[0] == "s":
                if len(it) > 3 and it[3] is not None:
                    forms.add("step")
                elif (it[1] is not None and it[1] < 0) or (it[2] is not None and it[2] < 0):
                    forms.add("relslice")
                else:
                    forms.add("slice" if it[2] is not None else "uslice")
            else:
                forms.add("list")
                nl += 1
        f = "+".join(sorted(forms)) + ("(2lists)" if nl >= 2 else "")
        r = rhs if isinstance(rhs, str) else ("zero" if rhs == 0 else "scalar")
        return f"region[{f}]={r}"
    if kind == "op":
        return "op:" + lab[1]
    if kind == "subs":
        v = lab[2]
        r = "mixed" if isinstance(v, list) and any(x == 0 for x in v) else ("vec" if isinstance(v, list) else ("zero" if v == 0 else "scalar"))
        return f"subs={r}"
    return kind


def _attr_digest(obj):
    """Every instance attribute of the object (not only the documented ones): two states are merged only if the
    library cannot tell them apart through ANY attribute, so hidden per-object state (a cache, a flag) keeps
    states distinct and their futures are explored separately."""
    out = []
    attrs = dict(getattr(obj, "__dict__", {}))
    for klass in type(obj).__mro__:
        for name in getattr(klass, "__slots__", ()):
            if hasattr(obj, name):
                attrs[name] = getattr(obj, name)
    for name in sorted(attrs):
        v = attrs[name]
        if isinstance(v, np.ndarray):
            out.append([name, str(v.dtype), list(v.shape), bool(v.flags["F_CONTIGUOUS"]), bool(v.flags["C_CONTIGUOUS"]),
                        np.asfortranarray(v)])
        elif isinstance(v, (tuple, list)):
            out.append([name, [int(x) if isinstance(x, (int, np.integer)) else repr(x) for x in v]])
        else:
            out.append([name, repr(v)])
    return out


def concrete_key(T, S):
    return digest([_attr_digest(T), _attr_digest(S)])


def check_state(ctx, hist, T, S, R, lab, extra=None):
    """Invariant after a write.  Returns True if both objects agree with the reference."""
    ok = True
    want = R.a if R.a is not None else np.zeros(())
    info = dict(hist, check="hist", nlists=_nlists(lab), growth=extra)
    for nm, X in (("tensor", T), ("sptensor", S)):
        op = nm + ".__setitem__"
        var = describe(lab)
        if nm == "sptensor":
            probs = O.wf_sptensor(X, allow_explicit_zero=False)
            if probs:
                ctx.fail(op, "malformed:" + ",".join(probs), f"after {lab}", variant=var, case=info)
                ok = False
                continue
        try:
            got = O.dense_of(X)
        except Exception as e:  # noqa: BLE001
            ctx.fail(op, "malformed_result", f"{type(e).__name__}: {e}", variant=var, case=info)
            ok = False
            continue
        if O.pyshape(X.shape) != tuple(want.shape):
            ctx.fail(op, "wrong_shape", f"{X.shape} want {want.shape} after {lab}", variant=var, case=info)
            ok = False
        elif not rm.same(got, want):
            ctx.fail(op, "wrong_value", f"got={np.asarray(got).tolist()} want={want.tolist()} after {lab}", variant=var, case=info)
            ok = False
    return ok


def _adv_split(key):
    """NumPy moves the 'advanced' (int / list) axes to the front when they are separated by a slice."""
    adv = [not (isinstance(it, list) and it[0] == "s") for it in key]
    idx = [i for i, a in enumerate(adv) if a]
    return bool(idx) and (idx[-1] - idx[0] + 1 != len(idx))


def _nlists(lab):
    if lab is None or lab[0] != "region":
        return 0
    return sum(1 for it in lab[1] if isinstance(it, list) and it[0] == "l")


def build(hist, ctx=None):
    """Fresh objects for a history (replays all labels; no checking)."""
    T, S, R = build_init(hist["init"])
    for lab in hist["labels"]:
        apply_label(T, S, R, lab)
    return T, S, R


# ---------------------------------------------------------------------------
# reads


def BASIC_(s):
    """Basic unit-step key forms of a mode of extent s (combined with the stepped / reversed / relative slice forms)."""
    return [S_(None, None), 0, S_(0, 1), (L_(s - 1, 0) if s >= 2 else L_(0))]


def read_keys(shape, full=None, legacy=False):
    """Region-read alphabet.
    Per mode the unit-step key forms (thorough: int 0 / 1 / -1, full / bounded / open-ended slice, two index lists; quick: int,
    negative int on the first mode, full and bounded slice, one index list) are combined as a full product.  The slice forms
    that use the step and relative bounds (stepped ::2, reversed ::-1, relative -1:) are added on top: thorough - every such
    form in every mode x the product of four basic forms (full slice, int, bounded slice, index list) of the other modes;
    quick - stepped in every mode, reversed on the first, relative on the second mode x the product of (full slice, int) of
    the other modes; both - the keys using one such form in all modes.  legacy=True: the unit-step product only (used by the
    thorough tier on its many depth-3 states)."""
    N = len(shape)
    per_mode, extra, rest_items = [], [], []
    full = (TIER == "thorough") if full is None else full
    for m, s in enumerate(shape):
        if full:
            items = [0, -1, S_(None, None), S_(0, 1)]
            if s >= 2:
                items += [1, S_(1, None), L_(0, s - 1), L_(s - 1, 0)]
            else:
                items += [L_(0)]
            extra.append([S_(None, None, 2), S_(None, None, -1), S_(-1, None)])
            rest_items.append(BASIC_(s))
        else:   # quick: every key form once per mode (int, negative int, unbounded / bounded slice, index list)
            items = [0, S_(None, None), S_(0, 1)] + ([-1] if m == 0 else [])
            items += [L_(s - 1, 0)] if s >= 2 else [L_(0)]
            # stepped slice in every mode; reversed slice on the first, relative (negative) bound on the second mode
            extra.append([S_(None, None, 2)] + ([S_(None, None, -1)] if m == 0 else []) + ([S_(-1, None)] if m == 1 else []))
            rest_items.append(BASIC_(s)[:2])
        per_mode.append(items)
    keys = [list(k) for k in itertools.product(*per_mode)]
    if legacy:
        return keys
    for m in range(N):
        for it in extra[m]:
            for rest in itertools.product(*(rest_items[:m] + rest_items[m + 1:])):
                keys.append(list(rest[:m]) + [it] + list(rest[m:]))
    if N >= 2:
        for it in ([S_(None, None, 2), S_(None, None, -1), S_(-1, None)] if full else [S_(None, None, 2)]):
            keys.append([list(it) for _ in range(N)])
    return keys


def check_reads(ctx, hist, T, S, R):
    if R.a is None or R.a.size == 0:
        return
    shape = R.shape
    N = len(shape)
    cl = rm.cells(shape)
    n = len(cl)
    allsubs = np.array(cl, dtype=int).reshape(n, N)
    region_wants = []
    # thorough: the full region alphabet on states up to depth 2, the (unit-step) quick one on the many depth-3 states
    deep = TIER == "thorough" and len(hist["labels"]) > 2
    for key in read_keys(shape, full=(TIER == "thorough" and not deep), legacy=deep):
        if all(isinstance(it, int) for it in key):
            continue
        try:
            region_wants.append((key, R.read_region(key)))
        except Disabled:
            continue
    for nm, X in (("tensor", T), ("sptensor", S)):
        op = nm + ".__getitem__"
        seen_cls = set()

        def rd(f, want, variant, key=None, shape_too=False):
            ctx.tick()
            nl_ = 0 if key is None else sum(1 for it in key if isinstance(it, list) and it[0] == "l")
            info = dict(hist, check="hist", read=[variant, key], nlists=nl_,
                        adv_split=bool(key is not None and nl_ >= 1 and _adv_split(key)))
            if (variant, info["adv_split"]) in seen_cls:
                return  # one report per read class and state keeps the failure volume bounded

            try:
                got = f()
            except Exception as e:  # noqa: BLE001
                seen_cls.add((variant, info["adv_split"]))
                ctx.fail(op, exc_symptom(e), short_tb(e), variant=variant, case=info)
                return
            try:
                g = np.asarray(O.value_of(got), dtype=float)
            except Exception as e:  # noqa: BLE001
                seen_cls.add((variant, info["adv_split"]))
                ctx.fail(op, "malformed_result", f"{type(e).__name__}: {e}", variant=variant, case=info)
                return
            w = np.asarray(want, dtype=float)
            if g.size != w.size or not rm.same(np.reshape(g, -1, order="F"), np.reshape(w, -1, order="F")):
                seen_cls.add((variant, info["adv_split"]))
                ctx.fail(op, "wrong_value", f"key={key} got={g.tolist()} want={w.tolist()}", variant=variant, case=info)
            elif shape_too and w.ndim > 0 and hasattr(got, "shape") and O.pyshape(got.shape) != w.shape:
                seen_cls.add((variant, info["adv_split"]))
                ctx.fail(op, "wrong_shape", f"key={key} got shape {got.shape} want {w.shape}", variant=variant, case=info)

        for c in cl:
            rd(lambda c=c: X[tuple(c)], R.a[c], "sub", list(c))
        last = cl[-1]
        negk = tuple(i - s for i, s in zip(last, shape))
        rd(lambda: X[negk], R.a[last], "neg", list(negk))
        want_all = np.array([R.a[c] for c in cl])
        rd(lambda: X[allsubs.copy()], want_all, "subs_array")
        rev = allsubs[::-1].copy()
        rd(lambda: X[rev.copy()], want_all[::-1], "subs_array_rev")
        rd(lambda: X[np.arange(n)], want_all, "linear")
        rd(lambda: X[np.array([n - 1, 0])], np.array([want_all[-1], want_all[0]]), "linear2")
        rd(lambda: X[np.array([-1, 0])], np.array([want_all[-1], want_all[0]]), "linear_neg")
        rd(lambda: X[0:n], want_all, "linear_slice")
        if n >= 2:
            rd(lambda: X[1:n], want_all[1:], "linear_slice")
        if nm == "sptensor":
            a = R.a
            with np.errstate(all="ignore"):
                derived = [("logical_not", lambda: X.logical_not(), np.logical_not(a).astype(float)),
                           ("le0", lambda: X <= 0, (a <= 0).astype(float)),
                           ("gt0", lambda: X > 0, (a > 0).astype(float)),
                           ("ne0", lambda: X != 0, (a != 0).astype(float)),
                           ("div0", lambda: X / 0, a / 0.0),
                           ("ones", lambda: X.ones(), (a != 0).astype(float)),
                           ("nnz", lambda: X.nnz, float(np.count_nonzero(a))),
                           ("innerprod", lambda: X.innerprod(X), float(np.sum(a * a)))]
            for dn, f, want in derived:
                rd(f, want, "derived_" + dn)
        else:
            a = R.a
            rd(lambda: X.nnz, float(np.count_nonzero(a)), "derived_nnz")
            rd(lambda: X == 0, (a == 0).astype(float), "derived_eq0")
            rd(lambda: X.innerprod(X), float(np.sum(a * a)), "derived_innerprod")
        # the norm is a rounded quantity: compared through its square, within 1e-12 relative
        ctx.tick()
        sq = float(np.sum(R.a * R.a))
        try:
            nv = float(X.norm())
            if not abs(nv * nv - sq) <= 1e-12 * (1.0 + sq):
                info = dict(hist, check="hist", read=["derived_norm", None], nlists=0, adv_split=False)
                ctx.fail(nm + ".__getitem__", "wrong_value", f"norm()**2 = {nv * nv!r}, sum of squares = {sq!r}",
                         variant="derived_norm", case=info)
        except Exception as e:  # noqa: BLE001
            info = dict(hist, check="hist", read=["derived_norm", None], nlists=0, adv_split=False)
            ctx.fail(nm + ".__getitem__", exc_symptom(e), short_tb(e), variant="derived_norm", case=info)
        for key, want in region_wants:
            nl = sum(1 for it in key if isinstance(it, list) and it[0] == "l")
            stepped = any(isinstance(it, list) and it[0] == "s" and len(it) > 3 for it in key)
            forms = "list2" if nl >= 2 else ("list" if nl == 1 else ("step" if stepped else "slice"))
            len1 = any(isinstance(it, list) and it[0] == "l" and len(it[1]) == 1 for it in key)
            rd(lambda key=key: X[_pykey(key)], want, "region_" + forms, key, shape_too=(nl == 0 or (nl == 1 and not len1)))


# ---------------------------------------------------------------------------
# BFS plumbing


def expand(hist, ctx):
    T, S, R = build(hist)
    depth = len(hist["labels"])
    ctx.state(0)
    check_reads(ctx, hist, T, S, R)
    if R.a is not None and np.any(R.a != 0):
        ctx.nontriv()
    out = []
    if depth >= MAXD:
        return out
    for lab in alphabet(R.ndim, TIER):
        T, S, R = build(hist)
        before = R.shape
        try:
            errs = apply_label(T, S, R, lab)
        except Disabled:
            continue
        ctx.tick()
        nh = {"init": hist["init"], "labels": hist["labels"] + [lab]}
        ok = True
        for nm, e in errs.items():
            ctx.fail(nm + ".__setitem__", exc_symptom(e), short_tb(e) + f" on {lab}", variant=describe(lab),
                     case=dict(nh, check="hist", nlists=_nlists(lab), growth=(R.shape != before)))
            ok = False
        if ok:
            ok = check_state(ctx, nh, T, S, R, lab, extra=(R.shape != before))
        ctx.outcome([R.shape, R.a if R.a is not None else 0])
        out.append((nh, concrete_key(T, S) if ok else None))
    return out


def explore(tier, seed, jobs, totals):
    global MAXD, TIER
    TIER = tier
    MAXD = 3 if tier == "thorough" else 2
    BOUNDS[tier] = (f"initial states {INITS}; write alphabet {len(alphabet(2, tier))} labels (order 2) / "
                    f"{len(alphabet(3, tier))} (order 3) over the index space {{0,1,2}}^N (full subscripts incl. negative and "
                    f"longer keys, regions of ints/bounded+unbounded+stepped+reversed+relative-bound slices/index lists, p x N subscript arrays incl. unsorted "
                    f"and repeated rows and mixed zero/non-zero values, linear indices and slices; rhs zero/scalar/array/tensor); "
                    f"depth {MAXD}; all reads (subscripts, negative, subscript arrays, linear, linear slices, regions) on every state; "
                    + ("region reads: full product of 5-8 unit-step key forms per mode (int, negative int, full / bounded / "
                       "open-ended slice, index lists) plus every stepped (::2) / reversed (::-1) / relative-bound (-1:) slice in "
                       "every mode x the product of 4 basic forms (full slice, int, bounded slice, index list) of the other modes, "
                       "plus each such form in all modes at once, on states up to depth 2; the unit-step quick product on "
                       "depth-3 states"
                       if tier == "thorough" else
                       "region reads: full product of the unit-step key forms per mode plus every stepped (::2, all modes) / "
                       "reversed (::-1, first mode) / relative-bound (-1:, second mode) slice combined with full-slice / "
                       "integer keys of the other modes, plus the all-stepped key"))
    inits = []
    for name in INITS:
        T, S, R = build_init(name)
        inits.append(({"init": name, "labels": []}, concrete_key(T, S)))
    cap = 600000 if tier == "thorough" else None
    bfs(__import__("mc.props.C04", fromlist=["x"]), inits, MAXD + 1, jobs, totals, chunk=CHUNK, state_cap=cap)
    totals.cases = totals.states
    totals.samples = totals.samples or [inits[0][0]]


def run_case(case, ctx):
    """Replay of one stored history as a plain unit test (and known-finding witnesses)."""
    hist = {"init": case["init"], "labels": case["labels"]}
    T, S, R = build_init(hist["init"])
    prefix = {"init": hist["init"], "labels": []}
    for lab in hist["labels"]:
        before = R.shape
        errs = apply_label(T, S, R, lab)
        prefix = {"init": hist["init"], "labels": prefix["labels"] + [lab]}
        ctx.tick()
        for nm, e in errs.items():
            ctx.fail(nm + ".__setitem__", exc_symptom(e), short_tb(e) + f" on {lab}", variant=describe(lab),
                     case=dict(prefix, check="hist", nlists=_nlists(lab), growth=(R.shape != before)))
        if errs or not check_state(ctx, prefix, T, S, R, lab, extra=(R.shape != before)):
            return
    check_reads(ctx, hist, T, S, R)


def gen_cases(tier, seed):
    """Used by the determinism self-test only: the initial states and a few depth-1 histories."""
    for name in INITS:
        yield {"check": "hist", "init": name, "labels": []}
    for lab in alphabet(2, "quick")[:6]:
        yield {"check": "hist", "init": "z22", "labels": [lab]}
