"""C18 - decomposition results do not depend on how the problem is presented.

Relational invariant, product explorer over PAIRS of runs of the real algorithms.  One case fixes an algorithm, a member
of an explicit integer data family, a rank, a start (explicit guess / seeded random / nvecs), an iteration horizon
(maxiters <= 4) and base options.  The base run is: dense holder, silent, original mode labelling, unscaled data.  Every
variant of the case changes ONLY the presentation:

  sparse   same array held by an sptensor                      (cp_als, cp_apr mu/pdnr/pqnr)
  print    every printing / verbosity setting against silence  (all algorithms)
  seed     the same global numpy seed again                    (random starts; nvecs starts: same call again)
  scale    data * 2^{+-2}: model * 2^{+-2}, fit equal          (cp_als, hosvd, tucker_als)
  relabel  every permutation of the modes of data, guess, mode order (and rank vector / optdims)
                                                                (cp_als, hosvd, tucker_als, gcp_opt)
  storage  the same integer-valued array in a holder with integer storage (int64 ... int8, uint8 - only dtypes that
           hold the values exactly; dense and, where the algorithm takes it, sparse) or in a dense tensor that reached
           its shape by growth (C-ordered buffer)              (all algorithms)

and must give the same expanded model (within DESIGN 4.3), the same reported fit / objective and the same iteration
counts.  Admissibility is decided on the reference side (numpy ALS / ST-HOSVD / HOOI below) for cp_als, hosvd and
tucker_als.  CP-APR has no closed-form reference trajectory: a dense-vs-sparse pair is asserted where both runs are
stable under a 1e-12 perturbation of the start (conditioning probe on the real implementation, see `_apr_sensitive`);
the printing and same-seed relations use identical arithmetic and are asserted unconditionally.  A pair in which both
runs abort with the same exception (PQN-R: 'L-BFGS first iterate is bad', frequent on small inputs) is consistent.
GCP / L-BFGS-B takes part in the relations with identical arithmetic and in the relabel / storage relations (L-BFGS-B is
invariant under a permutation of its variables up to rounding); a GCP failure is reported only if neither of the two
runs is decided by rounding (same 1e-12 probe).  Scaling is not a GCP relation (L-BFGS-B is not scale invariant).
"""

import contextlib
import io
import itertools
import os
import warnings
from math import prod

import numpy as np

from mc import holders as H
from mc import refmodel as rm
from mc import space
from mc.engine import exc_symptom, short_tb

ID = "C18"
RULE = ("product explorer over pairs of runs: a case = (algorithm, member of the explicit integer data family, rank, start, "
        "maxiters, base options); inside, the base run (dense tensor, silent, original labelling, unscaled) is compared with "
        "every presentation variant of the tier (sparse holder; every printing setting; same seed again; data scaled by 4 "
        "and 1/4; every mode permutation of data + guess + dimorder + rank vector; the same integer array in integer "
        "storage - widest, narrowest signed, narrowest unsigned exact dtype in quick, every exact dtype of int64/int32/int16/"
        "int8/uint8 in thorough - and in a dense tensor built by growth).  One transition = one compared pair of "
        "real runs.  A pair is admissible when the reference computation (numpy) says the result is determined by the "
        "inputs: CP-ALS reference trajectory with cond(Hadamard-Gram) <= 1e6 and no vanishing component, (ST-)HOSVD / HOOI "
        "reference with eigenvalue gap lambda_r - lambda_{r+1} >= 1e-6 lambda_1, lambda_r >= 1e-9 lambda_1 at every "
        "update and no eigenvalue tail / fit change within 1e-6 of the threshold; CP-APR dense-vs-sparse: both runs stable "
        "under a 1e-12 perturbation of the start (conditioning probe), the same for CP-APR and GCP storage pairs and GCP "
        "relabel pairs; inadmissible pairs are run (crash "
        "detection) and counted, their numeric verdict is not asserted.  A pair in which both runs abort with the same "
        "exception is consistent.  Non-trivial: an admissible case with a non-zero model and a non-zero residual in "
        "which at least one pair was compared.")
ASSUMPTIONS = [
    "reference CP-ALS / ST-HOSVD / HOOI in mc/props/C18.py and Kruskal / Tucker evaluation, ttm, mttkrp in mc/refmodel.py "
    "(einsum on the explicit array, numpy.linalg.solve / eigh) are correct; they are used for admissibility and for "
    "expanding the returned factors, never as the expected value of a run",
    "data are explicit small integers; scale factors are powers of two (4, 1/4, 2^-40, 2^20) so that scaling is exact; expanded models are compared "
    "with 1e-8*max|X|, squared residuals and (1-fit)^2 with 1e-9 (relative to ||X||^2), CP-APR/GCP objectives with "
    "1e-8*max(1,|f|) (DESIGN 4.3)",
    "random starts: numpy's global stream under np.random.seed(s), s from an enumerated alphabet of three seeds; ARPACK's "
    "internal start vector is NOT fixed (two calls agree up to rounding only; this is what the tolerance is for)",
    "printed output is captured from sys.stdout; runs with L-BFGS-B's Fortran printing (iprint >= 0) are executed in a forked child whose file descriptors 1 and 2 point to /dev/null",
    "CP-APR has no closed-form reference trajectory (projected Newton / quasi-Newton row solvers with line searches and "
    "exact-zero tests).  Whether a CP-APR result is determined by its inputs is decided by a conditioning probe on the "
    "implementation itself: the same presentation is re-run from the start perturbed by ~1e-12 (six fixed patterns); a "
    "different outcome = decided by rounding = dense-vs-sparse relation not asserted (counted as inadmissible).  The "
    "printing and same-seed relations compare runs with identical arithmetic and are asserted unconditionally.  "
    "GCP/L-BFGS-B takes part in relations with identical arithmetic and in the relabel / integer-storage relations (before "
    "a failure of those is reported both runs are probed in the same way); it has no scaling relation (L-BFGS-B is not "
    "scale invariant)",
    "storage dtypes: every member of the data family is integer-valued; a dtype is used only if it holds every entry "
    "exactly (mc/holders.py build(): 'dtype' / 'grown').  float32 storage is not a presentation variant (the library "
    "computes in the storage precision, rounding 1e-7, DESIGN 4.3 tolerances do not apply); boolean storage is refused by "
    "tenmat's explicit precondition ('must be a numeric numpy.ndarray') inside hosvd / nvecs / cp_apr and is outside the domain",
]
BOUNDS = {
    "quick": "shapes (3,4),(2,3,4),(3,3,3) and the unbalanced order-4 shape (4,2,2,2), maxiters {1,2,3}, seeds {0,1,2}, scale "
             "{4,1/4,2^-40,2^20}, ALL N! mode permutations for N<=3 (order 4: a generating set of 3 - reversal, rotation, "
             "transposition; all 24 for gcp_opt and for the default tucker_als base).  Storage (every algorithm, every "
             "explicit-start case): dense holder with the widest (int64), the narrowest signed and the narrowest unsigned "
             "integer dtype that hold the values exactly, dense tensor built by growth, and (cp_als, cp_apr) sptensor with "
             "the narrowest signed dtype; random / nvecs starts: narrowest signed dense.  "
             "cp_als: 4 members (generic, rank-2+noise, exact rank 2, counts with an empty slice) x rank 1..3 x explicit "
             "integer guess x 3 dimorders x optdims {all, drop-first} x stoptol {0,1e-2}; + random starts (3 seeds) and "
             "nvecs starts; variants: sptensor (printitn 0,1), printitn {1,2,3}, scale (dense, sparse), relabel.  cp_apr: 4 "
             "count members (sparse counts, empty first slice, rank-2 counts, all-positive) x {mu,pdnr,pqnr} x rank 1..2 x 5 "
             "explicit guesses (positive integers; zero row; zero entries + weights; positive non-integers; tiny rows on the "
             "empty slices) x option sets {default, maxinneriters 3, inexact False (pdnr)} + random starts; variants: "
             "sptensor (silent, printing, precompinds False), printitn {0,1,2,3} x printinneritn {0,1}, same seed.  hosvd: 5 "
             "members x (tol {1e-8,.1,.3,.6} + 2 rank vectors) x sequential T/F x (default + 3 dimorders); variants: "
             "verbosity {1,3,10}, scale, relabel.  tucker_als: 4 members (generic, rank-2+noise, exact multilinear rank 2, "
             "counts with an empty slice) x ranks {1, 2, two vectors} x explicit start list x (default + 2 dimorders) x "
             "stoptol {0,1e-2}; + random starts (3 seeds, default and reversed order) and nvecs; variants: printitn {1,2,3}, "
             "scale, relabel, same seed.  gcp_opt/L-BFGS-B: Gaussian (2 members), Poisson (2 members) x rank 1..2 x maxiter "
             "{1,2,3} x explicit guess + 3 seeds; variants: printitn {1,2,3}, iprint {0,1}, same seed, relabel (all N!), storage.  "
             "cp_apr on the order-4 shape: maxiters {1,2}.  7740 cases, 91418 pairs of runs",
    "thorough": "adds shapes (4,3,2),(2,2,2,3),(2,3,2,2) (all 24 permutations on the default / identity / reversed bases, a "
                "generating set of 3 elsewhere; cp_apr: (2,2,2,3) only), maxiters 4, more members / value seeds, further "
                "guesses, all N! dimorders as base order for N<=3, optdims {single mode}, stoptol 1e-4, sparse holder "
                "combined with every printing setting, scaling and relabelling, hosvd tol {.05,.9} + 2 more rank vectors and "
                "verbosity {-1,6}, cp_apr rank 3 and stoptol 1e-2, more GCP objectives (Poisson-log, Rayleigh, Gamma), rank 3, "
                "iprint 99; storage: EVERY exact dtype of int64/int32/int16/int8/uint8 for the dense and (cp_als, cp_apr) the "
                "sparse holder; cp_apr also on (4,2,2,2) with maxiters up to 4.  48891 cases, 905854 pairs of runs",
}
CHUNK = 6

TOL_M = 1e-8          # * max|X|   (expanded models)
TOL_R2 = 1e-9         # squared residual / ||X||^2, (1-fit)^2
TOL_F = 1e-8          # objective values, relative to max(1,|f|)
COND_MAX = 1e6        # CP-ALS: reference Hadamard-Gram conditioning
GAP = 1e-6            # Tucker: (lambda_r - lambda_{r+1}) / lambda_1
RANKMIN = 1e-9        # Tucker: lambda_r / lambda_1
TIE = 1e-6            # thresholds (eigenvalue tails / ||X||^2, fit changes)

SHAPES_Q = [(3, 4), (2, 3, 4), (3, 3, 3), (4, 2, 2, 2)]
SHAPES_T = SHAPES_Q + [(4, 3, 2), (2, 2, 2, 3), (2, 3, 2, 2)]


# ---------------------------------------------------------------------------
# the data family (explicit integers, no pyttb)

_CNT = [3, 0, 1, 2, 0, 4, 1, 0, 2, 5, 1, 0, 0, 2, 3, 1, 0, 1, 4, 0, 2, 0, 1, 3, 2, 0, 1]
_CORE = [2, -1, 3, 1, -2, 1, 4, -3, 1, 2, -1, 5, 3, -2, 1, 1, -4, 2, 1, 3, -1, 2, 5, -3]


def _generic_value(l, vs):
    """signed integers in -20..21 without structure (full-rank unfoldings, separated singular values)"""
    v = ((37 * l * l + 11 * l + 13 * vs * (l + 1) + 5 * vs * vs + 5) % 41) - 20
    return float(v if v else 21)


def _full_rank_matrix(rows, cols, salt):
    return np.array([[(5.0 if i == j else 0.0) + float(((2 * i + 3 * j + salt) % 3) - 1) for j in range(cols)]
                     for i in range(rows)])


def _pos_matrix(rows, cols, salt):
    """small positive integers 1..4"""
    return np.array([[1.0 + ((3 * i + 5 * j + salt + (i * j) % 2) % 4) for j in range(cols)] for i in range(rows)])


def data_array(d):
    fam = d["fam"]
    shape = tuple(d["shape"])
    n = prod(shape)
    vs = int(d.get("vseed", 0))
    if fam == "generic":
        return rm.arr(shape, [_generic_value(l, vs) for l in range(n)])
    if fam == "lowrank":            # integer rank-2 CP (+ noise in {-1,0,1})
        w = np.array([3.0, -1.0])
        fs = [np.array(space.int_matrix(s, 2, salt=vs + 4 * k, seed=vs)) for k, s in enumerate(shape)]
        a = rm.kruskal(w, fs)
        if d.get("noise"):
            a = a + rm.arr(shape, [float(((5 * l + vs) % 3) - 1) for l in range(n)])
        return np.asarray(a, dtype=float)
    if fam == "mlrank":             # exact multilinear rank (2,..,2) (+ noise)
        cs = [min(2, s) for s in shape]
        core = rm.arr(cs, [float(_CORE[(l + vs) % len(_CORE)]) for l in range(prod(cs))])
        fs = [_full_rank_matrix(s, c, vs + 2 * k) for k, (s, c) in enumerate(zip(shape, cs))]
        a = rm.tucker(core, fs)
        if d.get("noise"):
            a = a + rm.arr(shape, [float(((5 * l + vs) % 3) - 1) for l in range(n)])
        return np.asarray(a, dtype=float)
    if fam == "counts":             # small counts, many zeros, optionally an empty first / last slice
        a = rm.arr(shape, [float(_CNT[(5 * l + vs) % len(_CNT)]) for l in range(n)])
        sl = d.get("slice")
        if sl == "first":
            a[0, ...] = 0.0
        elif sl == "last":
            a[..., shape[-1] - 1] = 0.0
        return a
    if fam == "posrank":            # non-negative integer rank-2 CP + sparse non-negative noise
        fs = [_pos_matrix(s, 2, vs + 3 * k) - 1.0 for k, s in enumerate(shape)]
        a = rm.kruskal(np.array([1.0, 2.0]), fs)
        a = a + rm.arr(shape, [1.0 if (7 * l + vs) % 5 == 0 else 0.0 for l in range(n)])
        return np.asarray(a, dtype=float)
    if fam == "poscounts":          # all entries >= 1
        return rm.arr(shape, [1.0 + float(_CNT[(5 * l + vs) % len(_CNT)]) for l in range(n)])
    raise ValueError(fam)


def members(shape, alg, tier, seed):
    sh = list(shape)
    th = tier == "thorough"
    gen = {"fam": "generic", "shape": sh, "vseed": seed}
    lrn = {"fam": "lowrank", "shape": sh, "noise": 1, "vseed": seed}
    lr0 = {"fam": "lowrank", "shape": sh, "noise": 0, "vseed": seed}
    ml0 = {"fam": "mlrank", "shape": sh, "noise": 0, "vseed": seed}
    mln = {"fam": "mlrank", "shape": sh, "noise": 1, "vseed": seed}
    c0 = {"fam": "counts", "shape": sh, "slice": None, "vseed": seed}
    c1 = {"fam": "counts", "shape": sh, "slice": "first", "vseed": seed}
    c2 = {"fam": "counts", "shape": sh, "slice": "last", "vseed": seed + 1}
    pr = {"fam": "posrank", "shape": sh, "vseed": seed}
    pc = {"fam": "poscounts", "shape": sh, "vseed": seed}
    gen2 = {"fam": "generic", "shape": sh, "vseed": seed + 7}
    if alg == "cp_als":
        return [gen, lrn, lr0, c1] + ([gen2, c2, pr] if th else [])
    if alg == "cp_apr":
        return [c0, c1, pr, pc] + ([c2, {"fam": "posrank", "shape": sh, "vseed": seed + 1}] if th else [])
    if alg == "hosvd":
        return [gen, gen2, lrn, mln, c1] + ([ml0, {"fam": "generic", "shape": sh, "vseed": seed + 3}, pc] if th else [])
    if alg == "tucker_als":
        return [gen, lrn, ml0, c1] + ([gen2, mln, pc] if th else [])
    raise ValueError(alg)


# ---------------------------------------------------------------------------
# explicit starting guesses


def guess_als(shape, R, g, seed):
    fs = [np.array(space.int_matrix(s, R, salt=7 + 4 * n + 2 * g + seed, seed=seed)) for n, s in enumerate(shape)]
    w = np.ones(R) if g == 0 else np.array([2.0, -1.0, 3.0, 1.0][:R])
    return w, fs


def _frac_matrix(rows, cols, salt):
    """explicit non-integer positive entries in (0.05, 1.05) without structure (a fixed formula, no random stream)"""
    import math

    return np.array([[0.05 + (math.sin(12.9898 * (i + 1) + 78.233 * (j + 1) + 37.7 * salt) * 43758.5453) % 1.0
                      for j in range(cols)] for i in range(rows)])


def guess_apr(shape, R, g, seed):
    """non-negative guesses: g=0 positive integers; g=1 one all-zero row in mode 0; g=2 zero entries and non-unit
    weights; g=3 positive non-integers; g=4 positive non-integers with a tiny (2^-20) first row in mode 0 and last row
    in the last mode (rows that belong to the empty slices of the count members); g=5 positive non-integers, other salt"""
    if g in (3, 4, 5):
        fs = [_frac_matrix(s, R, 3 * n + g + seed + 1) for n, s in enumerate(shape)]
        if g == 4:
            fs[0][0, :] *= 2.0 ** -20
            fs[-1][-1, :] *= 2.0 ** -20
        return np.ones(R), fs
    fs = [_pos_matrix(s, R, 2 * n + g + seed) for n, s in enumerate(shape)]
    w = np.ones(R)
    if g == 1:
        fs[0][min(1, shape[0] - 1), :] = 0.0
    if g == 2:
        for n, f in enumerate(fs):
            f[n % f.shape[0], (n + 1) % R] = 0.0
        w = np.array([2.0, 1.0, 3.0, 1.0][:R])
    return w, fs


def gcp_guess(case):
    """the explicit GCP start (weights, factors) of a case in the original labelling"""
    ini = case["init"]
    shape = tuple(case["data"]["shape"])
    w, fs = (guess_apr if ini.get("gk") == "apr" else guess_als)(shape, int(case["rank"]), ini["g"], int(case.get("seed", 0)))
    return np.abs(w), fs


def guess_tucker(shape, ranks, g, seed):
    return [_full_rank_matrix(s, r, 3 * n + 2 * g + seed) + (0.0 if g == 0 else np.array(
        space.int_matrix(s, r, salt=n + g + seed, seed=seed))) for n, (s, r) in enumerate(zip(shape, ranks))]


# ---------------------------------------------------------------------------
# reference side (numpy only): used for admissibility


def _sq(a):
    a = np.asarray(a, dtype=float)
    return float(np.sum(a * a))


def _hadamard_gram(U, n):
    R = U[0].shape[1]
    Hm = np.ones((R, R))
    for m in range(len(U)):
        if m != n:
            Hm = Hm * (U[m].T @ U[m])
    return Hm


def ref_als(A, U0, order, K):
    """Plain ALS.  Per sweep: (squared residual, largest cond(Hadamard-Gram) so far, determined-by-inputs flag)."""
    U = [np.array(u, dtype=float) for u in U0]
    out = []
    cmax, det = 1.0, True
    lam = np.ones(U[0].shape[1])
    for _ in range(K):
        for n in order:
            G = rm.mttkrp(A, U, n)
            Hm = _hadamard_gram(U, n)
            with np.errstate(all="ignore"):
                c = float(np.linalg.cond(Hm)) if np.all(np.isfinite(Hm)) else np.inf
            if not np.isfinite(c):
                c = np.inf
            cmax = max(cmax, c)
            try:
                if c > 1e14:
                    raise np.linalg.LinAlgError
                B = np.linalg.solve(Hm.T, G.T).T
            except np.linalg.LinAlgError:
                B = G @ np.linalg.pinv(Hm)
            lam = np.sqrt(np.sum(B * B, axis=0))
            if not np.all(np.isfinite(lam)) or float(np.min(lam)) <= 1e-9 * float(np.max(lam)):
                det = False
            U[n] = B / np.where(lam > 0, lam, 1.0)
        M = rm.kruskal(lam, U)
        out.append({"r2": _sq(A - M), "cond": cmax, "det": det, "mmax": float(np.max(np.abs(M)))})
    return out


def _mode_gram(A, n):
    Xn = rm.matricize(A, [n], [m for m in range(A.ndim) if m != n])
    return Xn @ Xn.T


def _spectrum(G):
    w, v = np.linalg.eigh(G)
    idx = np.argsort(-w, kind="stable")
    return np.clip(w[idx], 0.0, None), v[:, idx]


def _gap_ok(w, r):
    if w[0] <= 0 or r < 1 or r > len(w):
        return False
    if w[r - 1] < RANKMIN * w[0]:
        return False
    return r == len(w) or (w[r - 1] - w[r]) >= GAP * w[0]


def _gaps_all_ok(w, r):
    """every one of the r leading eigenvectors is determined on its own (CP start from nvecs)"""
    return all(_gap_ok(w, j) for j in range(1, r + 1))


def ref_hosvd(A, tol, seq, order, ranks=None):
    """(ranks, squared residual, admissible): admissible = no eigenvalue tail within TIE of the threshold and a gap
    behind every kept subspace.  For given ranks both the subspace of r and of r+1 vectors must be determined (the
    count convention of the implementation is not this property's business)."""
    d = A.ndim
    nx2 = _sq(A)
    thresh = tol * tol * nx2 / d
    Y = A
    U = [None] * d
    out = [0] * d
    adm = nx2 > 0
    for k in order:
        w, V = _spectrum(_mode_gram(Y, k))
        size = len(w)
        if ranks is None:
            tails = [float(np.sum(w[i:])) for i in range(size)]
            r = size
            for i in range(1, size):
                if tails[i] <= thresh:
                    r = i
                    break
            if any(abs(t - thresh) < TIE * nx2 for t in tails):
                adm = False
        else:
            r = int(ranks[k])
            if r + 1 <= size and not _gap_ok(w, r + 1):
                adm = False
        out[k] = r
        if not _gap_ok(w, r):
            adm = False
        U[k] = V[:, :r]
        if seq:
            Y = rm.ttm(Y, {k: U[k]}, transpose=True)
    core = rm.ttm(A, {n: U[n] for n in range(d)}, transpose=True)
    return out, _sq(A - rm.tucker(core, U)), bool(adm)


def ref_hooi(A, ranks, order, U0, K):
    """Reference HOOI.  Per sweep (squared residual, admissible so far)."""
    N = A.ndim
    U = [None if u is None else np.array(u, dtype=float) for u in U0]
    out = []
    adm = _sq(A) > 0
    for _ in range(K):
        for n in order:
            Ut = rm.ttm(A, {m: U[m] for m in range(N) if m != n}, transpose=True)
            w, V = _spectrum(_mode_gram(Ut, n))
            r = int(ranks[n])
            if not _gap_ok(w, r):
                adm = False
            U[n] = V[:, :r]
        core = rm.ttm(A, {n: U[n] for n in range(N)}, transpose=True)
        out.append((_sq(A - rm.tucker(core, U)), adm))
    return out


def stop_rule(fits, stoptol, k, from0):
    """(index of the last sweep, tie) of `for i in range(k): ... if (i>0 or from0) and |fit_i - fit_{i-1}| < stoptol: break`"""
    if stoptol <= 0:
        return k - 1, False
    prev = 0.0
    for i in range(k):
        dlt = abs(fits[i] - prev)
        if i > 0 or from0:
            if abs(dlt - stoptol) <= TIE:
                return i, True
            if dlt < stoptol:
                return i, False
        prev = fits[i]
    return k - 1, False


# ---------------------------------------------------------------------------
# case enumeration


def _perms(N):
    return [list(p) for p in itertools.permutations(range(N))]


def _base_orders(N, tier, full=False):
    ident = list(range(N))
    if full:
        return _perms(N)
    out = [ident, ident[::-1]]
    if N >= 3:
        out.append(ident[1:] + ident[:1])
    return out


def _few_perms(N):
    """a generating set of relabellings (reversal, rotation, one transposition) for the bases that do not get all N!"""
    ident = list(range(N))
    out = []
    for p in (ident[::-1], ident[1:] + ident[:1], [1, 0] + ident[2:]):
        if p != ident and p not in out:
            out.append(p)
    return out


def _als_bases(N, k, th):
    """(dimorder, optdims, stoptol, guess, relabellings) of the CP-ALS base lattice"""
    ident = list(range(N))
    allm = list(range(N))
    three = _base_orders(N, None)
    out = []
    if not th:
        for do in three:
            for od in (allm, list(range(1, N))):
                for st in (0.0, 1e-2):
                    if not (k == 1 and st > 0):
                        out.append((do, od, st, 0, "all" if N <= 3 else "few"))
        return out
    orders = _perms(N) if N <= 3 else three + [[1, 0, 2, 3], [0, 2, 1, 3], [2, 0, 3, 1]]
    for do in orders:
        out.append((do, allm, 0.0, 0, "all" if (N <= 3 or do in three[:2]) else "few"))
    for do in three:
        for od in (list(range(1, N)), [N // 2]):
            out.append((do, od, 0.0, 0, "all" if N <= 3 else "few"))
    if k >= 2:
        for st in (1e-2, 1e-4):
            for do in three[:2]:
                out.append((do, allm, st, 0, "all" if N <= 3 else "few"))
    for do in three[:2]:
        out.append((do, allm, 0.0, 1, "few"))
    return out


def _tucker_bases(N, k, th):
    """(dimorder, stoptol, guess, relabellings) of the Tucker-ALS base lattice"""
    three = _base_orders(N, None)
    out = []
    if not th:
        for do in [None] + three[1:]:
            for st in (0.0, 1e-2):
                out.append((do, st, 0, "all" if (N <= 3 or (do is None and st == 0.0)) else "few"))
        return out
    orders = [None] + (_perms(N)[1:] if N <= 3 else three[1:] + [[1, 0, 2, 3], [2, 0, 3, 1]])
    for do in orders:
        out.append((do, 0.0, 0, "all" if (N <= 3 or do is None) else "few"))
    for do in [None, three[1]]:
        out.append((do, 1e-2, 0, "all" if N <= 3 else "few"))
        if k >= 3:
            out.append((do, 1e-4, 0, "few"))
    out.append((None, 0.0, 1, "few"))
    return out


def gen_cases(tier, seed):
    th = tier == "thorough"
    shapes = SHAPES_T if th else SHAPES_Q
    ks = [1, 2, 3, 4] if th else [1, 2, 3]
    seeds = [3 * seed + i for i in range(3)]
    # ---- hosvd (cheapest first)
    for shape in shapes:
        N = len(shape)
        three = _base_orders(N, None)
        for d in members(shape, "hosvd", tier, seed):
            stag = [min(s, 1 + n % 2) for n, s in enumerate(shape)]  # a different rank per mode: ranks stay tied to modes
            rankvecs = [[1] * N, [min(2, s) for s in shape]] + ([stag] if len(set(stag)) > 1 else []) + ([[max(1, s - 1) for s in shape], list(shape)] if th else [])
            for seq in (True, False):
                orders = [None] + (three if not th else (_perms(N) if N <= 3 else three + [[1, 0, 2, 3], [2, 0, 3, 1]]))
                for do in orders:
                    pm = "all" if (N <= 3 or (th and (do is None or do == three[0]))) else "few"
                    for tol in ([1e-8, 0.1, 0.3, 0.6] + ([0.05, 0.9] if th else [])):
                        yield {"check": "hosvd", "data": d, "tol": tol, "ranks": None, "seq": seq, "dimorder": do,
                               "tier": tier, "perms": pm}
                    for rv in rankvecs:
                        yield {"check": "hosvd", "data": d, "tol": 1e-8, "ranks": rv, "seq": seq, "dimorder": do,
                               "tier": tier, "perms": pm}
    # ---- cp_als
    for shape in shapes:
        N = len(shape)
        for d in members(shape, "cp_als", tier, seed):
            for R in (1, 2, 3):
                for k in ks:
                    for do, od, st, g, pm in _als_bases(N, k, th):
                        yield {"check": "cp_als", "data": d, "rank": R, "k": k, "init": {"kind": "given", "g": g},
                               "dimorder": do, "optdims": od, "stoptol": st, "tier": tier, "seed": seed, "perms": pm}
                    if k >= 2:
                        for ini in [{"kind": "random", "s": s} for s in seeds] + ([{"kind": "nvecs"}] if R <= min(shape) else []):
                            yield {"check": "cp_als", "data": d, "rank": R, "k": k, "init": ini, "dimorder": None,
                                   "optdims": None, "stoptol": 0.0, "tier": tier, "seed": seed}
    # ---- tucker_als
    for shape in shapes:
        N = len(shape)
        for d in members(shape, "tucker_als", tier, seed):
            ranks = [1, 2] + [[min(2, s) for s in shape][::-1], [1] + [min(2, s) for s in shape[1:]]]
            if th:
                ranks += [[max(1, s - 1) for s in shape]]
            for rk in ranks:
                for k in ks:
                    for do, st, g, pm in _tucker_bases(N, k, th):
                        yield {"check": "tucker_als", "data": d, "rank": rk, "k": k, "init": {"kind": "given", "g": g},
                               "dimorder": do, "stoptol": st, "tier": tier, "seed": seed, "perms": pm}
                    if k >= 2:
                        for ini in [{"kind": "random", "s": s} for s in seeds] + [{"kind": "nvecs"}]:
                            for do in ([None, list(range(N))[::-1]] if (th or ini["kind"] == "random") else [None]):
                                yield {"check": "tucker_als", "data": d, "rank": rk, "k": k, "init": ini, "dimorder": do,
                                       "stoptol": 0.0, "tier": tier, "seed": seed}
    # ---- gcp_opt with L-BFGS-B
    for shape in shapes:
        objs = [("GAUSSIAN", {"fam": "generic", "shape": list(shape), "vseed": seed}, "als"),
                ("GAUSSIAN", {"fam": "lowrank", "shape": list(shape), "noise": 1, "vseed": seed}, "als"),
                ("POISSON", {"fam": "counts", "shape": list(shape), "slice": None, "vseed": seed}, "apr"),
                ("POISSON", {"fam": "posrank", "shape": list(shape), "vseed": seed}, "apr")]
        if th:
            objs += [("POISSON_LOG", {"fam": "counts", "shape": list(shape), "slice": "first", "vseed": seed}, "als"),
                     ("RAYLEIGH", {"fam": "poscounts", "shape": list(shape), "vseed": seed}, "apr"),
                     ("GAMMA", {"fam": "poscounts", "shape": list(shape), "vseed": seed}, "apr"),
                     ("GAUSSIAN", {"fam": "generic", "shape": list(shape), "vseed": seed + 7}, "als")]
        for oname, d, gk in objs:
            for R in ((1, 2, 3) if th else (1, 2)):
                for k in ks:
                    for g in ((0, 2) if th else (0,)):
                        yield {"check": "gcp_opt", "data": d, "objective": oname, "rank": R, "k": k,
                               "init": {"kind": "given", "g": g, "gk": gk}, "tier": tier, "seed": seed}
                    for s in seeds:
                        yield {"check": "gcp_opt", "data": d, "objective": oname, "rank": R, "k": k,
                               "init": {"kind": "random", "s": s}, "tier": tier, "seed": seed}
    # ---- cp_apr (most expensive last)
    for shape in (shapes if not th else SHAPES_Q + [(2, 2, 2, 3)]):
        for d in members(shape, "cp_apr", tier, seed):
            for alg in ("mu", "pdnr", "pqnr"):
                optsets = [{}, {"maxinneriters": 3}]
                if alg == "pdnr":
                    optsets.append({"inexact": False})
                if alg in ("pdnr", "pqnr") and th:
                    optsets.append({"stoptol": 1e-2})
                for R in ((1, 2, 3) if th else (1, 2)):
                    for k in (ks if (th or len(shape) <= 3) else ks[:2]):      # quick, order 4: maxiters {1,2}
                        for g in ((0, 1, 2, 3, 4, 5) if th else (0, 1, 2, 3, 4)):
                            if R == 3 and g not in (0, 3, 4):
                                continue
                            for o in optsets:
                                if o and g not in (0, 3):
                                    continue
                                yield {"check": "cp_apr", "data": d, "alg": alg, "rank": R, "k": k,
                                       "init": {"kind": "given", "g": g}, "opts": o, "tier": tier, "seed": seed}
                        for s in seeds:
                            yield {"check": "cp_apr", "data": d, "alg": alg, "rank": R, "k": k,
                                   "init": {"kind": "random", "s": s}, "opts": {}, "tier": tier, "seed": seed}


def variants(case):
    """The presentation variants of one case (JSON-able descriptors)."""
    if "only" in case:
        return list(case["only"])
    alg = case["check"]
    th = case.get("tier", "quick") == "thorough"
    N = len(case["data"]["shape"])
    kind = case.get("init", {}).get("kind", "given")
    perms = _perms(N)[1:] if case.get("perms", "all") == "all" else _few_perms(N)
    out = []
    # storage of the same integer array: integer dtypes of the dense / sparse holder, dense tensor that reached its shape
    # by growth (the library then holds a C-ordered buffer)
    dts = storage_dtypes(data_array(case["data"]), th)
    narrow = [d for d in dts if not d.startswith("u")][-1:]
    if kind == "given":
        out += [{"rel": "storage", "holder": "tensor", "dtype": d} for d in dts]
        out += [{"rel": "storage", "holder": "tensor", "layout": "grown"}]
        if alg in ("cp_als", "cp_apr"):
            out += [{"rel": "storage", "holder": "sptensor", "dtype": d} for d in (dts if th else narrow)]
    else:
        out += [{"rel": "storage", "holder": "tensor", "dtype": d} for d in narrow]
    if alg == "cp_als":
        if kind == "given":
            out += [{"rel": "sparse", "printitn": 0}, {"rel": "sparse", "printitn": 1}]
            out += [{"rel": "print", "printitn": p} for p in (1, 2, 3)]
            out += [{"rel": "scale", "c": c, "holder": "tensor"} for c in (4.0, 0.25, 2.0 ** -40, 2.0 ** 20)]
            out += [{"rel": "scale", "c": 4.0, "holder": "sptensor"}]
            out += [{"rel": "relabel", "perm": p, "holder": "tensor"} for p in perms]
            if th:
                out += [{"rel": "sparse", "printitn": p} for p in (2, 3)]
                out += [{"rel": "scale", "c": 0.25, "holder": "sptensor"}]
                out += [{"rel": "relabel", "perm": p, "holder": "sptensor"} for p in (perms if N <= 3 else _few_perms(N))]
        elif kind == "random":
            out += [{"rel": "seed"}, {"rel": "sparse", "printitn": 0}, {"rel": "print", "printitn": 1}]
            if th:
                out += [{"rel": "scale", "c": 4.0, "holder": "tensor"}, {"rel": "sparse", "printitn": 2}]
        else:
            out += [{"rel": "seed"}, {"rel": "print", "printitn": 1}]
    elif alg == "cp_apr":
        combos = [(p, q) for p in (0, 1, 2, 3) for q in (0, 1) if (p, q) != (0, 0)]
        if kind == "given":
            out += [{"rel": "sparse", "printitn": 0, "printinneritn": 0}, {"rel": "sparse", "printitn": 1, "printinneritn": 1}]
            out += [{"rel": "print", "printitn": p, "printinneritn": q} for p, q in combos]
            if case["alg"] in ("pdnr", "pqnr"):
                out += [{"rel": "sparse", "printitn": 0, "printinneritn": 0, "precompinds": False}]
            if th and case["init"].get("g") in (0, 3):
                out += [{"rel": "sparse", "printitn": p, "printinneritn": q} for p, q in combos if (p, q) != (1, 1)]
        else:
            out += [{"rel": "seed"}, {"rel": "sparse", "printitn": 0, "printinneritn": 0},
                    {"rel": "print", "printitn": 1, "printinneritn": 0}]
    elif alg == "hosvd":
        out += [{"rel": "print", "verbosity": v} for v in ((1, 3, 10) + ((-1, 6) if th else ()))]
        out += [{"rel": "scale", "c": c} for c in (4.0, 0.25, 2.0 ** -40, 2.0 ** 20)]
        out += [{"rel": "relabel", "perm": p} for p in perms]
    elif alg == "tucker_als":
        if kind == "given":
            out += [{"rel": "print", "printitn": p} for p in (1, 2, 3)]
            out += [{"rel": "scale", "c": c} for c in (4.0, 0.25, 2.0 ** -40, 2.0 ** 20)]
            out += [{"rel": "relabel", "perm": p} for p in perms]
        else:
            out += [{"rel": "seed"}, {"rel": "print", "printitn": 1}]
            if th:
                out += [{"rel": "print", "printitn": 2}, {"rel": "scale", "c": 4.0}]
    elif alg == "gcp_opt":
        if kind == "given":
            out += [{"rel": "print", "printitn": p} for p in (1, 2, 3)]
            out += [{"rel": "print", "printitn": 0, "iprint": i} for i in (0, 1)]
            out += [{"rel": "relabel", "perm": p} for p in perms]
            if th:
                out += [{"rel": "print", "printitn": 1, "iprint": 99}]
        else:
            out += [{"rel": "seed"}, {"rel": "print", "printitn": 1}]
    return out


# ---------------------------------------------------------------------------
# real side: one run


def _in_silenced_child(fn):
    """L-BFGS-B prints from Fortran straight to file descriptors 1 and 2, through buffers of the Fortran runtime that
    are flushed whenever it pleases (also after a redirection has been undone).  Runs with iprint >= 0 are therefore
    executed in a forked child whose descriptors 1 and 2 point to /dev/null and which leaves through os._exit; the
    result dictionary comes back through a pipe."""
    import pickle

    r, w = os.pipe()
    pid = os.fork()
    if pid == 0:
        code = 0
        try:
            os.close(r)
            null = os.open(os.devnull, os.O_WRONLY)
            os.dup2(null, 1)
            os.dup2(null, 2)
            try:
                payload = ("ok", fn())
            except Exception as e:  # noqa: BLE001
                payload = ("err", type(e).__name__, str(e), short_tb(e))
            with os.fdopen(w, "wb") as fh:
                pickle.dump(payload, fh)
        except BaseException:  # noqa: BLE001
            code = 1
        finally:
            os._exit(code)
    os.close(w)
    with os.fdopen(r, "rb") as fh:
        data = fh.read()
    os.waitpid(pid, 0)
    if not data:
        raise RuntimeError("silenced child died without a result")
    payload = pickle.loads(data)
    if payload[0] == "err":
        raise type(payload[1], (Exception,), {})(payload[2])
    return payload[1]


# storage dtypes of the holder (widest first).  Only integer storage: every member of the data family is integer-valued, and
# a dtype is used only where it holds the (scaled) values exactly.  float32 is NOT a presentation variant: the library
# computes in the storage precision, so rounding is 1e-7 there and the tolerances of DESIGN 4.3 do not apply; boolean
# storage is refused by tenmat ('must be a numeric numpy.ndarray'), i.e. outside the library's stated domain.
INT_DTYPES = ["int64", "int32", "int16", "int8", "uint8"]


def exact_dtypes(A):
    """the integer storage dtypes that hold every entry of A exactly (widest first)"""
    A = np.asarray(A, dtype=float)
    out = []
    if not np.all(np.isfinite(A)) or np.any(A != np.round(A)):
        return out
    for dt in INT_DTYPES:
        info = np.iinfo(np.dtype(dt))
        if float(np.min(A, initial=0.0)) >= info.min and float(np.max(A, initial=0.0)) <= info.max:
            out.append(dt)
    return out


def storage_dtypes(A, th):
    """the storage alphabet of one data array: thorough = every exact integer dtype; quick = the widest one, the narrowest
    signed one and the narrowest unsigned one (intermediate products are most likely to leave the narrowest types)"""
    ex = exact_dtypes(A)
    if th:
        return ex
    signed = [d for d in ex if not d.startswith("u")]
    unsigned = [d for d in ex if d.startswith("u")]
    out = []
    for d in signed[:1] + signed[-1:] + unsigned[-1:]:
        if d not in out:
            out.append(d)
    return out


def _holder(A, kind, dtype=None, layout=None):
    shape = list(A.shape)
    vals = [float(v) for v in rm.vals_f(A)]
    d = ({"kind": kind, "shape": shape, "vals": vals, "order": None} if kind == "sptensor"
         else {"kind": "tensor", "shape": shape, "vals": vals})
    if dtype:
        if dtype not in exact_dtypes(A):
            raise ValueError(f"harness: storage dtype {dtype} does not hold the data exactly")
        d["dtype"] = dtype
    if layout == "grown" and kind == "tensor":
        d["grown"] = True
    return H.build(d)


def _unperm(M, perm):
    if perm is None:
        return M
    return np.transpose(M, np.argsort(perm))


def _map_modes(modes, perm):
    """mode labels of the original problem -> labels in the permuted problem (mode i of the permuted data is mode
    perm[i] of the original)"""
    if modes is None or perm is None:
        return modes
    inv = np.argsort(perm)
    return [int(inv[m]) for m in modes]


def _by_perm(lst, perm):
    if perm is None:
        return list(lst)
    return [lst[p] for p in perm]


def _perturbed(fs, t):
    """probe number t: relative perturbation of size 1e-12 .. 1e-13 whose sign / size pattern over the entries is a fixed
    hash of (t, mode, row, column); zeros stay zeros"""
    import math

    out = []
    mag = (1e-12, 1e-12, 1e-13, 1e-13, 3e-13, 3e-13)[t % 6]
    for n, f in enumerate(fs):
        g = np.array(f, dtype=float, copy=True)
        for i in range(g.shape[0]):
            for j in range(g.shape[1]):
                h = (math.sin(12.9898 * (i + 1) + 78.233 * (j + 1) + 37.719 * (n + 1) + 4.581 * (t + 1)) * 43758.5453) % 1.0
                g[i, j] *= 1.0 + mag * (2.0 * h - 1.0) * (1.0 if t % 2 == 0 else -1.0)
        out.append(g)
    return out


def run(case, v, start=None):
    """One real run of the case's algorithm under presentation `v` ({} = base).  Returns a result dict; 'M' is the
    expanded model in the ORIGINAL labelling (not unscaled)."""
    import pyttb as ttb

    alg = case["check"]
    d = case["data"]
    A = data_array(d)
    N = A.ndim
    shape = A.shape
    c = float(v.get("c", 1.0))
    perm = v.get("perm")
    Ap = A * c
    if perm is not None:
        Ap = np.transpose(Ap, perm)
    X = _holder(np.ascontiguousarray(Ap), "sptensor" if (v.get("rel") == "sparse" or v.get("holder") == "sptensor") else "tensor",
                v.get("dtype"), v.get("layout"))
    ini = case.get("init", {"kind": "given", "g": 0})
    seed = int(case.get("seed", 0))
    buf = io.StringIO()
    res = {"ok": True}

    def seeded():
        if ini["kind"] == "random":
            np.random.seed(int(ini["s"]))

    with warnings.catch_warnings():
        warnings.simplefilter("ignore")
        with contextlib.redirect_stdout(buf):
            if alg == "cp_als":
                R = int(case["rank"])
                kw = {"stoptol": case["stoptol"], "maxiters": int(case["k"]), "printitn": int(v.get("printitn", 0))}
                if case.get("dimorder") is not None:
                    kw["dimorder"] = _map_modes(case["dimorder"], perm)
                if case.get("optdims") is not None:
                    kw["optdims"] = _map_modes(case["optdims"], perm)
                if ini["kind"] == "given":
                    w, fs = guess_als(shape, R, ini["g"], seed)
                    kw["init"] = ttb.ktensor([f.copy(order="F") for f in _by_perm(fs, perm)], w.copy())
                    res["U0"] = fs
                else:
                    kw["init"] = ini["kind"]
                seeded()
                M, M0, out = ttb.cp_als(X, R, **kw)
                if ini["kind"] != "given":
                    res["U0"] = [np.array(f, dtype=float, copy=True) for f in M0.factor_matrices]
                res["M"] = _unperm(rm.kruskal(np.asarray(M.weights), [np.asarray(f) for f in M.factor_matrices]), perm)
                res["fit"], res["nres"], res["iters"] = float(out["fit"]), float(out["normresidual"]), int(out["iters"])
            elif alg == "cp_apr":
                R = int(case["rank"])
                kw = dict(case.get("opts") or {})
                kw.update({"algorithm": case["alg"], "maxiters": int(case["k"]), "printitn": int(v.get("printitn", 0)),
                           "printinneritn": int(v.get("printinneritn", 0))})
                if "precompinds" in v:
                    kw["precompinds"] = bool(v["precompinds"])
                if start is not None:
                    kw["init"] = ttb.ktensor([np.array(f, order="F", copy=True) for f in start[1]], np.array(start[0], copy=True))
                elif ini["kind"] == "given":
                    w, fs = guess_apr(shape, R, ini["g"], seed)
                    kw["init"] = ttb.ktensor([f.copy(order="F") for f in fs], w.copy())
                else:
                    kw["init"] = "random"
                seeded()
                M, M0, out = ttb.cp_apr(X, R, **kw)
                res["W0"] = np.array(M0.weights, dtype=float, copy=True)
                res["U0"] = [np.array(f, dtype=float, copy=True) for f in M0.factor_matrices]
                res["M"] = rm.kruskal(np.asarray(M.weights), [np.asarray(f) for f in M.factor_matrices])
                res["obj"] = float(out["obj"])
                res["iters"] = int(len(out["kktViolations"]))
                res["inner"] = [float(x) for x in np.asarray(out["nInnerIters"]).ravel()]
                res["kkt"] = [float(x) for x in np.asarray(out["kktViolations"]).ravel()]
            elif alg == "hosvd":
                kw = {"verbosity": v.get("verbosity", 0), "sequential": bool(case["seq"])}
                if case.get("dimorder") is not None:
                    kw["dimorder"] = _map_modes(case["dimorder"], perm)
                elif perm is not None:
                    kw["dimorder"] = _map_modes(list(range(N)), perm)
                if case.get("ranks") is not None:
                    kw["ranks"] = _by_perm(case["ranks"], perm)
                T = ttb.hosvd(X, case["tol"], **kw)
                res["M"] = _unperm(rm.tucker(np.asarray(T.core.data), [np.asarray(f) for f in T.factor_matrices]), perm)
                rk = [int(np.asarray(f).shape[1]) for f in T.factor_matrices]
                res["ranks"] = [rk[int(i)] for i in np.argsort(perm)] if perm is not None else rk
            elif alg == "tucker_als":
                rk = case["rank"]
                rvec = [int(rk)] * N if isinstance(rk, int) else [int(r) for r in rk]
                kw = {"stoptol": case["stoptol"], "maxiters": int(case["k"]), "printitn": int(v.get("printitn", 0))}
                if case.get("dimorder") is not None:
                    kw["dimorder"] = _map_modes(case["dimorder"], perm)
                elif perm is not None:
                    kw["dimorder"] = _map_modes(list(range(N)), perm)
                if ini["kind"] == "given":
                    U0 = guess_tucker(shape, rvec, ini["g"], seed)
                    kw["init"] = [u.copy(order="F") for u in _by_perm(U0, perm)]
                    res["U0"] = U0
                else:
                    kw["init"] = ini["kind"]
                rank_arg = rk if isinstance(rk, int) else _by_perm(rvec, perm)
                seeded()
                T, Uinit, out = ttb.tucker_als(X, rank_arg, **kw)
                if ini["kind"] != "given":
                    res["U0"] = [None if u is None else np.array(u, dtype=float, copy=True) for u in Uinit]
                res["M"] = _unperm(rm.tucker(np.asarray(T.core.data), [np.asarray(f) for f in T.factor_matrices]), perm)
                res["fit"], res["nres"], res["iters"] = float(out["fit"]), float(out["normresidual"]), int(out["iters"])
            elif alg == "gcp_opt":
                from pyttb.gcp.handles import Objectives
                from pyttb.gcp.optimizers import LBFGSB

                R = int(case["rank"])
                okw = {"maxiter": int(case["k"])}
                if "iprint" in v:
                    okw["iprint"] = int(v["iprint"])
                if start is not None:
                    init = ttb.ktensor([np.array(f, order="F", copy=True) for f in _by_perm(start[1], perm)],
                                       np.array(start[0], copy=True))
                elif ini["kind"] == "given":
                    w, fs = gcp_guess(case)
                    init = ttb.ktensor([f.copy(order="F") for f in _by_perm(fs, perm)], w.copy())
                else:
                    init = "random"
                seeded()

                def solve():
                    M, M0, info = ttb.gcp_opt(X, R, getattr(Objectives, case["objective"]), LBFGSB(**okw), init=init,
                                              printitn=int(v.get("printitn", 0)))
                    return {"U0": [np.array(f, dtype=float, copy=True) for f in M0.factor_matrices],
                            "M": _unperm(rm.kruskal(np.asarray(M.weights), [np.asarray(f) for f in M.factor_matrices]), perm),
                            "obj": float(info["final_f"]), "iters": int(info["nit"]),
                            "inner": [float(info["funcalls"]), float(info["warnflag"])]}

                res.update(_in_silenced_child(solve) if v.get("iprint", -1) >= 0 else solve())
            else:
                raise ValueError(alg)
    res["text"] = buf.getvalue()
    return res


def run_safe(case, v, start=None):
    try:
        return run(case, v, start)
    except Exception as e:  # noqa: BLE001
        return {"ok": False, "exc": e, "sym": exc_symptom(e), "msg": short_tb(e), "key": (type(e).__name__, str(e)[:120])}


# ---------------------------------------------------------------------------
# admissibility of one case (reference side)


def _benign(e):
    n = type(e).__name__
    return isinstance(e, np.linalg.LinAlgError) or "Arpack" in n


def _apr_sensitive(case, v, res, start, amax):
    """Is the cp_apr result `res` of presentation `v` decided by rounding?  The same presentation is re-run from the
    start perturbed by ~1e-12 (relative, six fixed patterns; two for MU): a different outcome (other model beyond 1% of
    the comparison tolerance, other iteration counts, abort vs no abort) means yes."""
    w0, U0 = start
    for t in range(2 if case["alg"] == "mu" else 6):
        pr = run_safe(case, v, start=(w0, _perturbed(U0, t)))
        if not res.get("ok"):
            if pr["ok"] or pr["key"] != res["key"]:
                return True
        elif not pr["ok"]:
            return True
        elif pr["M"].shape != res["M"].shape or not np.all(np.isfinite(pr["M"])) or not np.all(np.isfinite(res["M"])):
            return True
        elif float(np.max(np.abs(pr["M"] - res["M"]))) > 0.01 * TOL_M * amax:
            return True
        elif pr["iters"] != res["iters"] or pr["inner"] != res["inner"]:
            return True
    return False


def _gcp_sensitive(case, v, res, start, amax):
    """Is the gcp_opt result `res` of presentation `v` decided by rounding?  Same probe as `_apr_sensitive`: the run is
    repeated from the explicit start perturbed by ~1e-12 (relative, four fixed patterns)."""
    w0, U0 = start
    for t in range(4):
        pr = run_safe(case, v, start=(w0, _perturbed(U0, t)))
        if not pr["ok"]:
            return True
        if pr["M"].shape != res["M"].shape or not np.all(np.isfinite(pr["M"])) or not np.all(np.isfinite(res["M"])):
            return True
        if float(np.max(np.abs(pr["M"] - res["M"]))) > 0.01 * TOL_M * amax:
            return True
        if pr["iters"] != res["iters"] or pr["inner"] != res["inner"]:
            return True
    return False


def admissibility(case, base):
    """(admissible, why, extra) - `extra` carries the reference squared residual where there is one."""
    alg = case["check"]
    A = data_array(case["data"])
    N = A.ndim
    nx2 = _sq(A)
    if nx2 == 0:
        return False, "zero_data", {}
    k = int(case.get("k", 1))
    if alg == "cp_als":
        U0 = base.get("U0") if base.get("ok") else None
        if U0 is None:
            if case["init"]["kind"] != "given":
                return False, "no_start", {}
            U0 = guess_als(A.shape, int(case["rank"]), case["init"]["g"], int(case.get("seed", 0)))[1]
        do = case.get("dimorder") or list(range(N))
        od = case.get("optdims") or list(range(N))
        order = [m for m in do if m in od]
        if case["init"]["kind"] == "nvecs":
            for n in range(N):
                w, _ = _spectrum(_mode_gram(A, n))
                if int(case["rank"]) > len(w) or not _gaps_all_ok(w, int(case["rank"])):
                    return False, "nvecs_gap", {}
        ref = ref_als(A, U0, order, k)
        fits = [1.0 - np.sqrt(r["r2"]) / np.sqrt(nx2) for r in ref]
        j, tie = stop_rule(fits, float(case["stoptol"]), k, False)
        if tie:
            return False, "stop_tie", {}
        r = ref[j]
        if not r["det"]:
            return False, "vanishing_component", {}
        if not r["cond"] <= COND_MAX:
            return False, "cond", {}
        return True, "", {"r2": r["r2"], "mmax": r["mmax"], "iters": j}
    if alg == "hosvd":
        order = case.get("dimorder") or list(range(N))
        ranks, r2, adm = ref_hosvd(A, float(case["tol"]), bool(case["seq"]), order, case.get("ranks"))
        return adm, "" if adm else "gap_or_tie", {"r2": r2, "ranks": ranks, "mmax": 1.0}
    if alg == "tucker_als":
        rk = case["rank"]
        rvec = [int(rk)] * N if isinstance(rk, int) else [int(r) for r in rk]
        if any(r > s for r, s in zip(rvec, A.shape)):
            return False, "rank_above_size", {}
        U0 = base.get("U0") if base.get("ok") else None
        if U0 is None:
            if case["init"]["kind"] != "given":
                return False, "no_start", {}
            U0 = guess_tucker(A.shape, rvec, case["init"]["g"], int(case.get("seed", 0)))
        order = case.get("dimorder") or list(range(N))
        if case["init"]["kind"] == "nvecs":
            for n in order[1:]:
                w, _ = _spectrum(_mode_gram(A, n))
                if not _gap_ok(w, rvec[n]):
                    return False, "nvecs_gap", {}
        if any(U0[n] is None for n in order[1:]):
            return False, "no_start", {}
        ref = ref_hooi(A, rvec, order, U0, k)
        fits = [1.0 - np.sqrt(r2) / np.sqrt(nx2) for r2, _ in ref]
        j, tie = stop_rule(fits, float(case["stoptol"]), k, True)
        if tie:
            return False, "stop_tie", {}
        if not ref[j][1]:
            return False, "gap", {}
        return True, "", {"r2": ref[j][0], "mmax": 1.0, "iters": j}
    if alg == "cp_apr":
        if base.get("ok") and "U0" in base:
            w0, U0 = base["W0"], base["U0"]
        elif case["init"]["kind"] == "given":
            w0, U0 = guess_apr(A.shape, int(case["rank"]), case["init"]["g"], int(case.get("seed", 0)))
        else:
            return False, "no_start", {}
        # conditioning probe - the only place where admissibility looks at the implementation: the row solvers are
        # projected / line-search methods with exact-zero tests whose branch decisions have no closed form.  The BASE
        # presentation (dense, silent) is re-run from the same start perturbed by ~1e-12 (relative): if that already
        # changes the outcome, the result is decided by rounding and no relation between two DIFFERENT arithmetics is
        # asserted.  (Before a dense-vs-sparse failure is reported the sparse run is probed in the same way, see
        # _compare; a genuine difference between the two paths is stable on both sides.)
        if _apr_sensitive(case, {}, base, (w0, U0), float(np.max(np.abs(A)))):
            # the same arithmetic twice still has to give the same result: print / seed stay asserted
            return False, "rounding_sensitive", {"exact_ok": True, "start": (w0, U0)}
        return True, "", {"start": (w0, U0)}
    return True, "", {}


# ---------------------------------------------------------------------------
# run_case


def run_case(case, ctx):
    alg = case["check"]
    if alg == "vacuity":
        return _run_vacuity(case, ctx)
    A = data_array(case["data"])
    nx2 = _sq(A)
    amax = float(np.max(np.abs(A))) if A.size else 0.0
    ctx.state()
    base = run_safe(case, {})
    adm, why, extra = admissibility(case, base)
    sub_alg = case.get("alg", "") if alg == "cp_apr" else (case.get("objective", "") if alg == "gcp_opt" else "")
    kind = case.get("init", {}).get("kind", "given")
    ctx.count(f"{alg}:cases")
    if not adm:
        ctx.inadm()
        ctx.count(f"{alg}:inadmissible:{why}")
    stats = {"compared": 0}

    def sub(v):
        s = {key: val for key, val in case.items() if key != "only"}
        s["only"] = [v]
        s["adm"] = bool(adm)
        s["rel"] = v.get("rel")
        s["init_kind"] = kind
        s["ndims"] = int(A.ndim)
        return s

    def fail(v, symptom, detail):
        head = (f"{alg}{'/' + sub_alg if sub_alg else ''} data={case['data']} rank={case.get('rank', case.get('ranks'))} "
                f"k={case.get('k')} init={case.get('init')} base={ {x: case[x] for x in ('dimorder', 'optdims', 'stoptol', 'tol', 'seq', 'opts') if x in case} } "
                f"variant={v} :: ")
        ctx.fail(v.get("rel", "base"), symptom, head + str(detail), variant=sub_alg, case=sub(v))

    if not base["ok"]:
        e = base["exc"]
        if alg == "cp_apr" and isinstance(e, AssertionError) and "L-BFGS first iterate is bad" in str(e):
            ctx.count("cp_apr:pqnr:base_aborts_lbfgs")
            ctx.flag("cp_apr:pqnr:abort")
        elif _benign(e) and not adm:
            ctx.count(f"{alg}:inadmissible_solver_error")
        elif isinstance(e, (FloatingPointError, ZeroDivisionError)) and not adm:
            ctx.count(f"{alg}:inadmissible_solver_error")
        else:
            fail({"rel": "base"}, base["sym"], base["msg"])
    else:
        ctx.flag(f"{alg}:ran" + (":" + sub_alg if alg == "cp_apr" else ""))
        if base["text"]:
            if not (alg == "tucker_als" and kind == "nvecs"):      # tucker_als announces the nvecs start unconditionally
                fail({"rel": "base"}, "wrong_value:printout", f"silent run printed {base['text'][:80]!r}")
    for v in variants(case):
        if v.get("rel") == "base":
            continue
        ctx.tick()
        other = run_safe(case, v)
        rel = v["rel"]
        ctx.count(f"{alg}:{rel}")
        # relations between two runs with the very same arithmetic (printing / same seed) need no conditioning
        adm_case = adm
        adm = bool(adm_case or (extra.get("exact_ok") and rel in ("print", "seed")))
        try:
            _compare(ctx, case, v, base, other, adm, why, alg, sub_alg, kind, amax, nx2, fail, stats, extra.get("start"))
        finally:
            adm = adm_case
    compared = stats["compared"]
    _wrapup(ctx, case, base, adm, alg, sub_alg, kind, A, amax, nx2, compared)


def _compare(ctx, case, v, base, other, adm, why, alg, sub_alg, kind, amax, nx2, fail0, stats, start=None):
    rel = v["rel"]
    memo = {}

    def fail(vv, symptom, detail):
        # a pair of DIFFERENT arithmetic (dense / sparse) is asserted only where both runs are determined by their
        # inputs: before a cp_apr dense-vs-sparse failure is reported, the variant's own conditioning is probed too
        if alg == "cp_apr" and rel in ("sparse", "storage") and start is not None:
            if "s" not in memo:
                memo["s"] = _apr_sensitive(case, v, other, start, amax)
            if memo["s"]:
                ctx.count("cp_apr:inadmissible:rounding_sensitive_variant")
                return
        # GCP / L-BFGS-B (line searches, no closed-form reference trajectory): a pair of different arithmetic (relabelled
        # modes, integer storage) is asserted unless one of the two runs is decided by rounding (same probe as CP-APR)
        if alg == "gcp_opt" and rel in ("relabel", "storage") and kind == "given" and base.get("ok") and other.get("ok"):
            if "s" not in memo:
                st = gcp_guess(case)
                memo["s"] = _gcp_sensitive(case, {}, base, st, amax) or _gcp_sensitive(case, v, other, st, amax)
            if memo["s"]:
                ctx.count("gcp_opt:inadmissible:rounding_sensitive")
                return
        fail0(vv, symptom, detail)

    # ---- exceptions
    if not base["ok"] or not other["ok"]:
        if not base["ok"] and not other["ok"]:
            if base["key"] == other["key"]:
                ctx.count(f"{alg}:both_abort_identically")
                ctx.outcome([alg, rel, "both_abort", base["key"][0]])
                return
            if base["key"][0] == other["key"][0] and rel in ("scale", "relabel"):
                ctx.count(f"{alg}:both_abort_same_type")      # messages may carry mode numbers / values
                return
        if not adm:
            ctx.count(f"{alg}:inadmissible_exception_differs")
            bad = other if not other["ok"] else base
            if not _benign(bad["exc"]) and not isinstance(bad["exc"], AssertionError):
                fail(v, bad["sym"], f"(inadmissible case, {why}) " + bad["msg"])
            return
        fail(v, "exception_differs",
             f"base: {'ok' if base['ok'] else base['msg']} ; variant: {'ok' if other['ok'] else other['msg']}")
        return
    if rel == "print":
        if other["text"]:
            ctx.flag(f"{alg}:printed")
        elif v.get("printitn", 0) > 0 and alg not in ("gcp_opt",) or v.get("verbosity", 0) > 0:
            fail(v, "wrong_value:printout", "a printing run printed nothing")
    if not adm:
        ctx.outcome([alg, rel, "inadm"])
        return
    # ---- the start actually used is the same (seeded / generated starts)
    if rel in ("seed", "print", "sparse", "storage") and kind != "given" and alg != "hosvd":
        same = len(base["U0"]) == len(other["U0"]) and all(
            (a is None and b is None) or (a is not None and b is not None and a.shape == b.shape
                                          and (np.array_equal(a, b) if kind == "random" else
                                               float(np.max(np.abs(np.abs(a) - np.abs(b)))) <= 1e-8))
            for a, b in zip(base["U0"], other["U0"]))
        if not same:
            fail(v, "init_not_reproducible", f"the generated start differs between the two runs (init={case['init']})")
            return
    # ---- expanded models
    cfac = float(v.get("c", 1.0))
    Mb, Mo = base["M"], other["M"]
    if Mb.shape != Mo.shape:
        fail(v, "wrong_shape", f"model shapes {Mb.shape} vs {Mo.shape}")
        return
    if not (np.all(np.isfinite(Mb)) and np.all(np.isfinite(Mo))):
        if np.array_equal(np.isfinite(Mb), np.isfinite(Mo)):
            ctx.count(f"{alg}:nonfinite_both")
            return
        fail(v, "wrong_value:nonfinite", "one run returns non-finite model entries, the other does not")
        return
    stats["compared"] += 1
    dev = float(np.max(np.abs(Mo - cfac * Mb))) if Mb.size else 0.0
    lim = TOL_M * amax * cfac
    bad = dev > lim
    if bad:
        fail(v, "wrong_value:model", f"max|M_variant - {cfac:g}*M_base| = {dev:.3g} > {lim:.3g} "
                                     f"(max|X|={amax:g}, max|M_base|={float(np.max(np.abs(Mb))):.4g})")
    # ---- ranks (hosvd)
    if alg == "hosvd" and base["ranks"] != other["ranks"]:
        fail(v, "wrong_shape", f"core sizes {base['ranks']} vs {other['ranks']} (in the original labelling)")
    # ---- iteration counts
    if "iters" in base and base["iters"] != other["iters"]:
        fail(v, "wrong_iters", f"iteration count {base['iters']} vs {other['iters']}")
    elif "inner" in base and not bad and rel in ("print", "seed") and base["inner"] != other["inner"]:
        fail(v, "wrong_iters", f"inner iteration / evaluation counts {base['inner']} vs {other['inner']}")
    # ---- fit / residual / objective
    if "fit" in base and not bad:
        f1, f2 = base["fit"], other["fit"]
        n1, n2 = base["nres"], other["nres"] / cfac
        if not (np.isfinite(f1) and np.isfinite(f2)):
            if not (np.isnan(f1) and np.isnan(f2)) and f1 != f2:
                fail(v, "wrong_value:fit", f"fit {f1!r} vs {f2!r}")
        elif abs((1 - f1) ** 2 - (1 - f2) ** 2) > TOL_R2 or abs(n1 * n1 - n2 * n2) > TOL_R2 * nx2:
            fail(v, "wrong_value:fit", f"fit {f1!r} vs {f2!r}; normresidual {n1!r} vs {n2!r} (rescaled), ||X||^2={nx2!r}")
    if "obj" in base and not bad:
        o1, o2 = base["obj"], other["obj"]
        if np.isfinite(o1) and np.isfinite(o2):
            if abs(o1 - o2) > TOL_F * max(1.0, abs(o1)):
                fail(v, "wrong_value:objective", f"objective {o1!r} vs {o2!r}")
        elif not (o1 == o2 or (np.isnan(o1) and np.isnan(o2))):
            fail(v, "wrong_value:objective", f"objective {o1!r} vs {o2!r}")
    if "kkt" in base and not bad and rel in ("print", "seed") and len(base["kkt"]) == len(other["kkt"]):
        dk = max((abs(a - b) for a, b in zip(base["kkt"], other["kkt"])), default=0.0)
        if dk > 1e-7 * max(1.0, max(abs(a) for a in base["kkt"])):
            fail(v, "wrong_value:kkt", f"reported KKT violations {base['kkt']} vs {other['kkt']}")
    ctx.flag(f"{alg}:{rel}:compared")
    if rel == "storage":
        ctx.flag("storage:" + str(v.get("dtype") or v.get("layout")) + (":sparse" if v.get("holder") == "sptensor" else ""))
    if Mb.ndim >= 4:
        ctx.flag(f"{alg}:{rel}:order4")
    ctx.outcome([alg, sub_alg, rel, {key: val for key, val in v.items() if key != "rel"}, "ok" if not bad else "bad"])


def _wrapup(ctx, case, base, adm, alg, sub_alg, kind, A, amax, nx2, compared):
    # ---- vacuity control / statistics
    if base["ok"] and adm:
        Mb = base["M"]
        if alg in ("cp_als", "tucker_als") and base["iters"] < int(case["k"]) - 1:
            ctx.flag(f"{alg}:stop_early")
        if alg == "hosvd" and any(r < s for r, s in zip(base["ranks"], A.shape)):
            ctx.flag("hosvd:truncating")
        if alg == "cp_apr" and np.any(np.all(A == 0, axis=tuple(range(1, A.ndim)))):
            ctx.flag("cp_apr:empty_slice:" + case["alg"])
        nonzero = np.all(np.isfinite(Mb)) and float(np.max(np.abs(Mb))) > 0
        resid = float(np.max(np.abs(Mb - A))) > 1e-6 * max(amax, 1.0) if np.all(np.isfinite(Mb)) else False
        if compared and nonzero and resid:
            ctx.nontriv()
        ctx.outcome([alg, sub_alg, case.get("rank", case.get("ranks")), case.get("k"), kind,
                     round(float(_sq(Mb - A) / nx2), 4) if np.all(np.isfinite(Mb)) else "nonfinite"])


# ---------------------------------------------------------------------------
# vacuity control

NEED = ["cp_als:ran", "cp_apr:ran:mu", "cp_apr:ran:pdnr", "cp_apr:ran:pqnr", "hosvd:ran", "tucker_als:ran", "gcp_opt:ran",
        "cp_als:sparse:compared", "cp_als:print:compared", "cp_als:seed:compared", "cp_als:scale:compared",
        "cp_als:relabel:compared", "cp_apr:sparse:compared", "cp_apr:print:compared", "cp_apr:seed:compared",
        "hosvd:print:compared", "hosvd:scale:compared", "hosvd:relabel:compared", "tucker_als:print:compared",
        "tucker_als:seed:compared", "tucker_als:scale:compared", "tucker_als:relabel:compared", "gcp_opt:print:compared",
        "gcp_opt:seed:compared", "cp_als:printed", "cp_apr:printed", "hosvd:printed", "tucker_als:printed",
        "cp_als:stop_early", "tucker_als:stop_early", "hosvd:truncating", "cp_apr:empty_slice:pdnr", "cp_apr:empty_slice:mu",
        "cp_als:storage:compared", "cp_apr:storage:compared", "hosvd:storage:compared", "tucker_als:storage:compared",
        "gcp_opt:storage:compared", "gcp_opt:relabel:compared", "storage:int64", "storage:int8", "storage:uint8",
        "storage:int16", "storage:grown", "storage:int8:sparse", "gcp_opt:relabel:order4", "cp_als:relabel:order4",
        "hosvd:relabel:order4", "tucker_als:relabel:order4", "cp_apr:sparse:order4", "cp_als:storage:order4"]


def finalize(tier, seed, totals):
    if not totals.cases:
        return
    for f in NEED:
        if f not in totals.flags:
            totals.failures.append({"check": "vacuity", "op": "coverage", "variant": "", "symptom": "vacuous",
                                    "case": {"check": "vacuity", "flag": f},
                                    "detail": f"switch side '{f}' was never reached: the bounds no longer cover it"})


def _run_vacuity(case, ctx):
    ctx.fail("coverage", "vacuous", "replay the whole tier instead", case=case)
